"""Core of the static analyser: loader, class index, guards, findings, evidence.

Pure standard library.  Nothing from /repo is imported or executed; every module is
parsed with ``ast`` on every run (the tree may have been edited between runs).
"""
import ast
import glob
import hashlib
import json
import os
import sys
import time

VERIF = os.path.dirname(os.path.dirname(os.path.abspath(__file__)))
DEFAULT_REPO = os.environ.get("VERIF_REPO", "/repo")
PKG = "commonroad"


class AnalysisError(Exception):
    """The analysis cannot be carried out (anchor vanished, unknown idiom).

    Reported as ANALYSIS-ERROR, exit 2: never a silent pass and never a VIOLATION."""


# --------------------------------------------------------------------------- loader


class ModuleInfo:
    def __init__(self, rel, src):
        self.rel = rel
        self.src = src
        try:
            self.tree = ast.parse(src, filename=rel)
        except SyntaxError as e:  # a tree that does not compile is not analysable
            raise AnalysisError("cannot parse %s: %s" % (rel, e))
        # normal form shared by all checkers: table-driven loops unrolled, constant getattr / setattr folded
        from . import unroll

        self.tree, self.unrolled = unroll.normalise(self.tree)
        self.parent = {}
        for n in ast.walk(self.tree):
            for c in ast.iter_child_nodes(n):
                self.parent[c] = n
        self.classes = {}
        self.functions = {}
        self.assigns = {}  # module-level name -> value node (last one)
        self.imports = {}  # local name -> (module, original name)
        for st in self.tree.body:
            if isinstance(st, ast.ClassDef):
                self.classes[st.name] = ClassInfo(self, st)
            elif isinstance(st, (ast.FunctionDef, ast.AsyncFunctionDef)):
                self.functions[st.name] = st
            elif isinstance(st, ast.Assign):
                for t in st.targets:
                    if isinstance(t, ast.Name):
                        self.assigns[t.id] = st.value
            elif isinstance(st, ast.AnnAssign) and isinstance(st.target, ast.Name) and st.value is not None:
                self.assigns[st.target.id] = st.value
        for st in ast.walk(self.tree):
            if isinstance(st, ast.ImportFrom) and st.module:
                for a in st.names:
                    self.imports[a.asname or a.name] = (st.module, a.name)
            elif isinstance(st, ast.Import):
                for a in st.names:
                    # `import a.b.c` binds the name `a` to the package a; `import a.b.c as x` binds x to a.b.c
                    self.imports[a.asname or a.name.split(".")[0]] = (a.name if a.asname else a.name.split(".")[0], None)

    @property
    def modname(self):
        return self.rel[:-3].replace("/", ".")

    def enclosing_function(self, node):
        n = node
        while n in self.parent:
            n = self.parent[n]
            if isinstance(n, (ast.FunctionDef, ast.AsyncFunctionDef, ast.Lambda)):
                return n
        return None

    def qualname(self, node):
        names = []
        n = node
        while n is not None:
            if isinstance(n, (ast.FunctionDef, ast.AsyncFunctionDef, ast.ClassDef)):
                names.append(n.name)
            n = self.parent.get(n)
        return ".".join(reversed(names)) or "<module>"


def decorator_names(fn):
    out = []
    for d in fn.decorator_list:
        out.append(ast.unparse(d))
    return out


class ClassInfo:
    def __init__(self, mod, node):
        self.mod = mod
        self.node = node
        self.name = node.name
        self.bases = [ast.unparse(b) for b in node.bases]
        self.methods = {}  # name -> FunctionDef (plain methods, incl. static/class)
        self.props = {}  # name -> {'get': fn, 'set': fn, 'del': fn, 'cached': bool}
        self.class_assigns = {}  # name -> value node (None for bare annotations)
        self.annotations = {}  # name -> annotation node (dataclass fields etc.)
        self.field_order = []
        for st in node.body:
            if isinstance(st, (ast.FunctionDef, ast.AsyncFunctionDef)):
                decos = decorator_names(st)
                if "property" in decos or "functools.cached_property" in decos or "cached_property" in decos:
                    p = self.props.setdefault(st.name, {})
                    p["get"] = st
                    p["cached"] = "property" not in decos
                elif any(d.endswith(".setter") for d in decos):
                    self.props.setdefault(st.name, {})["set"] = st
                elif any(d.endswith(".deleter") for d in decos):
                    self.props.setdefault(st.name, {})["del"] = st
                else:
                    self.methods[st.name] = st
            elif isinstance(st, ast.Assign):
                for t in st.targets:
                    if isinstance(t, ast.Name):
                        self.class_assigns[t.id] = st.value
            elif isinstance(st, ast.AnnAssign) and isinstance(st.target, ast.Name):
                self.class_assigns[st.target.id] = st.value
                self.annotations[st.target.id] = st.annotation
                self.field_order.append(st.target.id)
        self.decorators = decorator_names(node)

    @property
    def is_dataclass(self):
        return any(d.split("(")[0].endswith("dataclass") for d in self.decorators)

    @property
    def is_enum(self):
        return any(b.split(".")[-1] in ("Enum", "IntEnum", "Flag") for b in self.bases)

    def enum_members(self):
        """name -> value node, for Enum classes (class-level assigns not starting with _)."""
        return {k: v for k, v in self.class_assigns.items() if not k.startswith("_") and v is not None}

    def __repr__(self):
        return "<Class %s:%s>" % (self.mod.rel, self.name)


class Repo:
    """All non-generated modules of the commonroad package, parsed from the current tree."""

    def __init__(self, root=None, overrides=None):
        self.root = root or DEFAULT_REPO
        self.overrides = overrides or {}
        self.modules = {}
        pattern = os.path.join(self.root, PKG, "**", "*.py")
        files = sorted(glob.glob(pattern, recursive=True))
        if not files:
            raise AnalysisError("no python sources under %s/%s" % (self.root, PKG))
        sources = {}
        for f in files:
            rel = os.path.relpath(f, self.root)
            if rel.endswith("_pb2.py"):
                continue
            if rel in self.overrides:
                sources[rel] = self.overrides[rel]
            else:
                with open(f, encoding="utf-8") as fh:
                    sources[rel] = fh.read()
        # which class derives from which (by short name, over the whole package): the normal form orders type switches
        # by it before any module is normalised
        import re as _re

        from . import unroll as _unroll

        bases = {}
        for src in sources.values():
            for m_ in _re.finditer(r"^[ \t]*class[ \t]+(\w+)[ \t]*\(([^)]*)\)[ \t]*:", src, _re.M):
                bases.setdefault(m_.group(1), set()).update(b.strip().split(".")[-1].split("[")[0] for b in m_.group(2).split(",") if b.strip() and "=" not in b)
        closure = {}

        def anc(n, seen=()):
            if n in closure:
                return closure[n]
            out = set()
            for b in bases.get(n, ()):
                if b not in seen:
                    out |= {b} | anc(b, seen + (n,))
            closure[n] = out
            return out

        _unroll.CLASS_ANCESTORS = {n: anc(n) for n in bases}
        for rel, src in sources.items():
            self.modules[rel] = ModuleInfo(rel, src)
        self._by_modname = {m.modname: m for m in self.modules.values()}
        for m in list(self.modules.values()):
            if m.modname.endswith(".__init__"):
                self._by_modname.setdefault(m.modname[: -len(".__init__")], m)  # a package is its __init__ module
        self.class_index = {}
        for m in self.modules.values():
            for c in m.classes.values():
                self.class_index.setdefault(c.name, []).append(c)

    # ---- anchors (fail closed)
    def mod(self, rel):
        if rel not in self.modules:
            raise AnalysisError("anchor module missing: %s" % rel)
        return self.modules[rel]

    def cls(self, rel, name):
        m = self.mod(rel)
        if name not in m.classes:
            raise AnalysisError("anchor class missing: %s:%s" % (rel, name))
        return m.classes[name]

    def method(self, rel, cname, mname, kind=None):
        """kind: None (plain method) | 'get' | 'set' for properties."""
        c = self.cls(rel, cname)
        if kind is None:
            if mname in c.methods:
                return c.methods[mname]
            if mname in c.props and "get" in c.props[mname]:
                return c.props[mname]["get"]
        else:
            if mname in c.props and kind in c.props[mname]:
                return c.props[mname][kind]
        raise AnalysisError("anchor method missing: %s:%s.%s%s" % (rel, cname, mname, "" if kind is None else "[" + kind + "]"))

    def func(self, rel, name):
        m = self.mod(rel)
        if name not in m.functions:
            raise AnalysisError("anchor function missing: %s:%s" % (rel, name))
        return m.functions[name]

    def read_data_file(self, rel):
        p = os.path.join(self.root, rel)
        if rel in self.overrides:
            return self.overrides[rel]
        if not os.path.exists(p):
            raise AnalysisError("anchor file missing: %s" % rel)
        with open(p, encoding="utf-8") as fh:
            return fh.read()

    # ---- class resolution
    def resolve_class(self, mod, name):
        """Resolve a (possibly dotted) class name used in `mod` to a ClassInfo, or None."""
        name = name.split("[")[0]
        short = name.split(".")[-1]
        if name in mod.classes:
            return mod.classes[name]
        if "." in name:
            # qualified through an imported module: a module outside the analysed set (generated protobuf code,
            # shapely, lxml ..) never denotes a repository class, whatever its short name
            head = name.split(".")[0]
            if head in mod.imports and head not in mod.classes:
                src_mod, orig = mod.imports[head]
                full = src_mod if orig is None else "%s.%s" % (src_mod, orig)
                m = self._by_modname.get(full)
                if m is None and self.class_index.get(head) is None and orig not in [c for c in self.class_index]:
                    return None
                if m is not None:
                    return m.classes.get(short)
        if short in mod.imports:
            src_mod, orig = mod.imports[short]
            m = self._by_modname.get(src_mod)
            if m is not None and orig in m.classes:
                return m.classes[orig]
            if m is not None and orig in m.imports:  # re-export
                return self.resolve_class(m, orig)
        cands = self.class_index.get(short, [])
        if len(cands) == 1:
            return cands[0]
        return None

    def mro(self, cls):
        """Linearised ancestors within the repository (DFS, left to right, no duplicates)."""
        out, seen = [], set()

        def rec(c):
            if id(c) in seen:
                return
            seen.add(id(c))
            out.append(c)
            for b in c.bases:
                bc = self.resolve_class(c.mod, b)
                if bc is not None:
                    rec(bc)

        rec(cls)
        return out

    def subclasses(self, cls, strict=False):
        out = []
        for lst in self.class_index.values():
            for c in lst:
                if c is cls:
                    if not strict:
                        out.append(c)
                    continue
                if any(a is cls for a in self.mro(c)):
                    out.append(c)
        return out

    def find_method(self, cls, name):
        """(defining ClassInfo, FunctionDef) of method `name` through the MRO, or (None, None)."""
        for c in self.mro(cls):
            if name in c.methods:
                return c, c.methods[name]
        return None, None

    def find_prop(self, cls, name):
        for c in self.mro(cls):
            if name in c.props:
                return c, c.props[name]
        return None, None

    def dataclass_fields(self, cls):
        """Ordered (name, annotation node, default node) over the MRO (base first)."""
        out = {}
        for c in reversed(self.mro(cls)):
            for f in c.field_order:
                out[f] = (c.annotations[f], c.class_assigns.get(f))
        return out

    def digest(self):
        h = hashlib.sha256()
        for rel in sorted(self.modules):
            h.update(rel.encode())
            h.update(self.modules[rel].src.encode())
        return h.hexdigest()[:16]

    def counts(self):
        nc = sum(len(m.classes) for m in self.modules.values())
        nf = 0
        for m in self.modules.values():
            nf += sum(isinstance(n, (ast.FunctionDef, ast.AsyncFunctionDef)) for n in ast.walk(m.tree))
        return {"modules": len(self.modules), "classes": nc, "functions": nf}


# --------------------------------------------------------------------------- AST helpers


def norm(node):
    """Normalised source text of a construct (position independent)."""
    if isinstance(node, str):
        return " ".join(node.split())
    return " ".join(ast.unparse(node).split())


def walk_no_nested(fn):
    """Walk the body of a function without descending into nested defs / lambdas / classes."""
    stack = list(fn.body) if hasattr(fn, "body") and isinstance(fn.body, list) else [fn.body]
    while stack:
        n = stack.pop()
        yield n
        if isinstance(n, (ast.FunctionDef, ast.AsyncFunctionDef, ast.ClassDef, ast.Lambda)):
            continue  # a nested definition is yielded itself, its body is not walked
        for c in ast.iter_child_nodes(n):
            stack.append(c)


def attr_chain(node):
    """self.a.b -> ['self','a','b'];  returns None if not a pure Name/Attribute chain."""
    parts = []
    while isinstance(node, ast.Attribute):
        parts.append(node.attr)
        node = node.value
    if isinstance(node, ast.Name):
        parts.append(node.id)
        return list(reversed(parts))
    return None


def is_self_attr(node, attr=None, selfname="self"):
    return (
        isinstance(node, ast.Attribute)
        and isinstance(node.value, ast.Name)
        and node.value.id == selfname
        and (attr is None or node.attr == attr)
    )


def call_name(call):
    """Dotted name of the callee of a Call, or None."""
    ch = attr_chain(call.func)
    return ".".join(ch) if ch else None


def terminates(stmts):
    """True if a statement list always leaves the enclosing block (return/raise/continue/break)."""
    if not stmts:
        return False
    last = stmts[-1]
    if isinstance(last, (ast.Return, ast.Raise, ast.Continue, ast.Break)):
        return True
    if isinstance(last, ast.If) and last.orelse:
        return terminates(last.body) and terminates(last.orelse)
    return False


def dominating_guards(mod, node, stop=None):
    """Conditions known to hold whenever `node` executes, as a list of (test node, polarity).

    Syntax-directed dominance over the idioms the repository uses: enclosing if/elif/else,
    while, ternary, `a and b` (right operand guarded by left), comprehension `if`,
    earlier sibling `if c: return/raise/continue/break` (gives not c), earlier `assert c`.
    Stops at the enclosing function (or at `stop`)."""
    guards = []
    child = node
    n = mod.parent.get(node)

    def siblings(n, child):
        # earlier siblings in any statement list containing child
        for field in ("body", "orelse", "finalbody"):
            lst = getattr(n, field, None)
            if isinstance(lst, list) and child in lst:
                for prev in lst[: lst.index(child)]:
                    if isinstance(prev, ast.If) and terminates(prev.body) and not prev.orelse:
                        guards.append((prev.test, False))
                    elif isinstance(prev, ast.If) and prev.orelse and terminates(prev.orelse) and not terminates(prev.body):
                        guards.append((prev.test, True))
                    elif isinstance(prev, ast.If) and prev.orelse and terminates(prev.body) and not terminates(prev.orelse):
                        guards.append((prev.test, False))
                    elif isinstance(prev, ast.Assert):
                        guards.append((prev.test, True))

    while n is not None:
        if isinstance(n, (ast.FunctionDef, ast.AsyncFunctionDef, ast.Lambda, ast.ClassDef)) or n is stop:
            # statements before the def do not dominate the body's execution time
            siblings(n, child)
            break
        if isinstance(n, ast.If) or isinstance(n, ast.While):
            if child in n.body:
                guards.append((n.test, True))
            elif child in n.orelse and isinstance(n, ast.If):
                guards.append((n.test, False))
        elif isinstance(n, ast.IfExp):
            if child is n.body:
                guards.append((n.test, True))
            elif child is n.orelse:
                guards.append((n.test, False))
        elif isinstance(n, ast.BoolOp):
            idx = n.values.index(child) if child in n.values else -1
            for v in n.values[:max(idx, 0)]:
                guards.append((v, isinstance(n.op, ast.And)))
        elif isinstance(n, (ast.ListComp, ast.SetComp, ast.GeneratorExp, ast.DictComp)):
            is_elt = child is getattr(n, "elt", None) or child is getattr(n, "key", None) or child is getattr(n, "value", None)
            for gi, g in enumerate(n.generators):
                if is_elt or (child in n.generators and n.generators.index(child) > gi):
                    for c in g.ifs:
                        guards.append((c, True))
        elif isinstance(n, ast.comprehension):
            if child in n.ifs:
                for c in n.ifs[: n.ifs.index(child)]:
                    guards.append((c, True))
        siblings(n, child)
        child = n
        n = mod.parent.get(n)
    # flatten: (a and b, True) -> a, b ; (a or b, False) -> not a, not b ; not x
    out = []

    def flat(t, pol):
        if isinstance(t, ast.BoolOp) and isinstance(t.op, ast.And) and pol:
            for v in t.values:
                flat(v, True)
        elif isinstance(t, ast.BoolOp) and isinstance(t.op, ast.Or) and not pol:
            for v in t.values:
                flat(v, False)
        elif isinstance(t, ast.UnaryOp) and isinstance(t.op, ast.Not):
            flat(t.operand, not pol)
        else:
            out.append((t, pol))

    for t, p in guards:
        flat(t, p)
    return out


def guard_says_not_none(guards, expr_text):
    """True if the guard set implies `expr_text` is not None / truthy."""
    for t, pol in guards:
        if isinstance(t, ast.Compare) and len(t.ops) == 1 and isinstance(t.comparators[0], ast.Constant) and t.comparators[0].value is None:
            left = norm(t.left)
            if left == expr_text:
                if isinstance(t.ops[0], ast.IsNot) and pol:
                    return True
                if isinstance(t.ops[0], ast.Is) and not pol:
                    return True
                if isinstance(t.ops[0], ast.NotEq) and pol:
                    return True
                if isinstance(t.ops[0], ast.Eq) and not pol:
                    return True
        elif pol and norm(t) == expr_text:
            return True  # `if x:` truthiness
        elif pol and isinstance(t, ast.Call) and call_name(t) == "isinstance" and len(t.args) == 2 and norm(t.args[0]) == expr_text and "None" not in norm(t.args[1]):
            return True
        elif pol and isinstance(t, ast.Call) and call_name(t) == "len" and norm(t.args[0]) == expr_text:
            return True
        elif pol and isinstance(t, ast.Compare) and isinstance(t.left, ast.Call) and call_name(t.left) == "len" and t.left.args and norm(t.left.args[0]) == expr_text:
            return True
    return False


# --------------------------------------------------------------------------- findings / reporting


class Finding:
    def __init__(self, rule, mod, node, construct, message, qualname=None):
        self.rule = rule
        self.file = mod.rel if hasattr(mod, "rel") else str(mod)
        self.line = getattr(node, "lineno", 0) if node is not None else 0
        if qualname is None and node is not None and hasattr(mod, "qualname"):
            qualname = mod.qualname(node)
        self.qualname = qualname or "<module>"
        self.construct = norm(construct)
        self.message = message

    @property
    def key(self):
        return "%s|%s|%s|%s" % (self.rule, self.file, self.qualname, self.construct)

    def as_dict(self):
        return {
            "key": self.key,
            "rule": self.rule,
            "file": self.file,
            "line": self.line,
            "where": self.qualname,
            "construct": self.construct,
            "message": self.message,
        }

    def __str__(self):
        return "%s:%d  %s  [%s]  %s  -- %s" % (self.file, self.line, self.qualname, self.rule, self.construct, self.message)


class Result:
    """Accumulates what a property check analysed and found."""

    def __init__(self, pid):
        self.pid = pid
        self.findings = []
        self.obligations = 0
        self.discharged = 0
        self.instances = {}  # rule -> list of instance descriptions
        self.notes = []
        self.unresolved = []
        self.samples = []
        self.rules = {}  # rule -> description
        self.min_instances = {}  # rule -> confirmed-by-hand lower bound

    def rule(self, rid, desc, min_instances=1):
        self.rules[rid] = desc
        self.min_instances[rid] = min_instances
        self.instances.setdefault(rid, [])

    def ok(self, rid, instance):
        self.obligations += 1
        self.discharged += 1
        self.instances.setdefault(rid, []).append(instance)

    def bad(self, rid, instance, finding):
        self.obligations += 1
        self.instances.setdefault(rid, []).append(instance)
        self.findings.append(finding)

    def check(self, rid, instance, cond, mod, node, construct, message, qualname=None):
        if cond:
            self.ok(rid, instance)
        else:
            self.bad(rid, instance, Finding(rid, mod, node, construct, message, qualname))
        return cond

    def refuse(self, text):
        """an obligation that could not be decided (construct outside the vocabulary of an evaluated rule)"""
        if not hasattr(self, "refusals"):
            self.refusals = []
        self.refusals.append(text)

    def note(self, text):
        self.notes.append(text)

    def verify_instance_counts(self):
        """A rule that matches fewer instances than confirmed by hand no longer sees the code it was written for:
        analysis error (exit 2) — unless the run already pinpoints a new violation, in which case the shortfall is
        most likely its consequence (the construct the instances were counted on was rewritten) and the violation is
        what gets reported; the shortfall is kept as a note."""
        short = []
        for rid, low in self.min_instances.items():
            n = len(self.instances.get(rid, []))
            if n < low:
                short.append((rid, n, low))
        refusals = getattr(self, "refusals", [])
        if not short and not refusals:
            return
        known = {k.get("key") for k in load_known().get("known", []) if k.get("property") in (None, self.pid)}
        new = [f for f in self.findings if f.key not in known]
        if refusals:
            # cases an evaluated rule could not decide: with a pinpointed violation elsewhere they are notes, alone
            # they are a refusal (exit 2) — never a silent pass
            if new:
                for r in refusals:
                    self.note("not decided: %s" % r)
            else:
                raise AnalysisError("%s%s" % (refusals[0], " (and %d more undecided cases)" % (len(refusals) - 1) if len(refusals) > 1 else ""))
        if not short:
            return
        if new:
            for rid, n, low in short:
                self.note("rule %s matched %d instances, fewer than the %d confirmed by hand (reported together with %d new finding(s))" % (rid, n, low, len(new)))
            return
        rid, n, low = short[0]
        raise AnalysisError(
            "rule %s matched %d instances, fewer than the %d confirmed by hand: the rule no longer sees the code it was written for"
            % (rid, n, low)
        )


def load_known():
    p = os.path.join(VERIF, "known_findings.json")
    if not os.path.exists(p):
        return {"known": [], "fixed": []}
    with open(p) as fh:
        return json.load(fh)


def write_evidence(pid, tier, res, repo, wall, violations, extra=None):
    if os.environ.get("VERIF_NO_EVIDENCE"):
        return None
    os.makedirs(os.path.join(VERIF, "evidence"), exist_ok=True)
    samples = []
    for rid, insts in res.instances.items():
        for i in insts[:3]:
            samples.append({"rule": rid, "instance": i})
    cov = {
        "explanation": "static analysis (python ast) of the current /repo working tree; every rule instance listed "
        "was discovered from the source in this run and decided by the rule named; nothing was executed",
        "obligations": res.obligations,
        "discharged": res.discharged,
        "rules": res.rules,
        "rule_instance_counts": {k: len(v) for k, v in res.instances.items()},
        "rule_instances": {k: v[:400] for k, v in res.instances.items()},
        "samples": samples[:40],
        "analysed": repo.counts() if repo is not None else {},
        "source_digest": repo.digest() if repo is not None else None,
        "repo_root": repo.root if repo is not None else None,
        "findings": [f.as_dict() for f in res.findings],
        "notes": res.notes[:200],
        "unresolved_sites": res.unresolved[:200],
        "exhaustive": True,
        "trusted_base": ["CPython ast", "frozen tables in /verif/sa (one line of reason each)", "repository type annotations"],
    }
    if extra:
        cov.update(extra)
    ev = {
        "property_id": pid,
        "tier": tier,
        "seed": int(os.environ.get("VERIF_SEED", "0") or 0),
        "level": "other",
        "coverage": cov,
        "assumptions": [
            "third-party libraries (numpy, shapely, lxml, protobuf, matplotlib) behave as documented and do not mutate our objects",
            "the decided clauses are necessary conditions of the property, not the whole behaviour (see DESIGN.md)",
        ],
        "wall_s": round(wall, 3),
        "violations": violations,
    }
    path = os.path.join(VERIF, "evidence", pid + ".json")
    tmp = path + ".tmp%d" % os.getpid()
    with open(tmp, "w") as fh:
        json.dump(ev, fh, indent=1, sort_keys=True, default=str)
    os.replace(tmp, path)
    return path


def report(pid, tier, res, repo, t0, extra=None, quiet=False):
    """Print the verdict, write evidence and replay files, return the exit code."""
    known = load_known()
    known_keys = {k["key"]: k for k in known.get("known", []) if k.get("property") == pid}
    new, listed = [], []
    seen = set()
    for f in res.findings:
        if f.key in seen:
            continue
        seen.add(f.key)
        (listed if f.key in known_keys else new).append(f)
    wall = time.time() - t0
    write_evidence(pid, tier, res, repo, wall, len(new), extra)
    if not quiet:
        print(
            "%s tier=%s analysed=%s obligations=%d discharged=%d findings=%d (known=%d) wall=%.2fs"
            % (pid, tier, repo.counts() if repo else {}, res.obligations, res.discharged, len(new) + len(listed), len(listed), wall)
        )
        for rid, insts in sorted(res.instances.items()):
            print("  rule %-28s instances=%-4d %s" % (rid, len(insts), res.rules.get(rid, "")))
    for f in listed:
        print("KNOWN-FINDING: property=%s %s" % (pid, known_keys[f.key].get("what", str(f))))
    stale = [k for k in known_keys if k not in seen]
    for k in stale:
        print("  note: known finding no longer reproduced (candidate for removal from known_findings.json): %s" % k)
    if new:
        os.makedirs(os.path.join(VERIF, "evidence", "replay"), exist_ok=True)
        for i, f in enumerate(new):
            rp = os.path.join(VERIF, "evidence", "replay", "%s-%d.json" % (pid, i))
            if not os.environ.get("VERIF_NO_EVIDENCE"):
                with open(rp, "w") as fh:
                    json.dump(f.as_dict(), fh, indent=1)
            print("  %s" % f)
            print("VIOLATION property=%s replay=%s" % (pid, rp))
        return 1
    return 0


# --------------------------------------------------------------------------- canonical text


class _Canon(ast.NodeTransformer):
    def __init__(self, rd, at, params, depth=0):
        self.rd, self.at, self.params, self.depth = rd, at, params, depth

    def visit_Name(self, node):
        if self.rd is None or not isinstance(node.ctx, ast.Load) or node.id in self.params or self.depth > 6:
            return node
        defs = self.rd.defs(node.id, self.at)
        if len(defs) == 1:
            d = next(iter(defs))
            if d.kind == "unpack" and d.node is not None and isinstance(d.index, tuple) and len(d.index) == 1 and isinstance(d.stmt, (ast.Assign, ast.AnnAssign)) and not any(isinstance(x, ast.Name) and x.id == node.id for x in ast.walk(d.node)):
                # a, b = V   ->   a is V[0], b is V[1]
                import copy as _copy

                sc = _Canon(self.rd, d.stmt, self.params, self.depth + 1)
                sc.helpers = getattr(self, "helpers", None)
                base = sc.visit(_copy.deepcopy(d.node))
                i0 = d.index[0]
                if isinstance(base, (ast.Tuple, ast.List)) and i0 < len(base.elts):
                    return base.elts[i0]
                return ast.Subscript(value=base, slice=ast.Constant(value=i0), ctx=ast.Load())
            if d.kind == "assign" and d.node is not None and not any(isinstance(x, ast.Name) and x.id == node.id for x in ast.walk(d.node)):
                import copy as _copy

                sc = _Canon(self.rd, d.stmt, self.params, self.depth + 1)
                sc.helpers = getattr(self, "helpers", None)
                sub = sc.visit(_copy.deepcopy(d.node))
                return sub
        return node

    def visit_Attribute(self, node):
        self.generic_visit(node)
        if node.attr.startswith("_") and not node.attr.startswith("__"):
            # private backing field == public property of the same name (on any object, not only self)
            return ast.copy_location(ast.Attribute(value=node.value, attr=node.attr.lstrip("_"), ctx=node.ctx), node)
        if isinstance(node.value, ast.Name) and node.value.id == "numpy":
            return ast.copy_location(ast.Attribute(value=ast.Name(id="np", ctx=ast.Load()), attr=node.attr, ctx=node.ctx), node)
        return node

    def visit_Call(self, node):
        orig_attr = node.func.attr if isinstance(node.func, ast.Attribute) else None
        self.generic_visit(node)
        # a call of a trivial helper (body = one return expression) is replaced by that expression: extracting an
        # expression into a private method / nested function does not change what is computed
        hl = getattr(self, "helpers", None)
        if hl is not None and self.depth <= 4:
            target = None
            f = node.func
            if isinstance(f, ast.Attribute) and isinstance(f.value, ast.Name) and f.value.id in ("self", "cls"):
                target = hl.get(("m", orig_attr)) or hl.get(("m", f.attr))
                skip = 1
            elif isinstance(f, ast.Name):
                target = hl.get(("f", f.id))
                skip = 0
            if target is not None:
                body = [st for st in target.body if not (isinstance(st, ast.Expr) and isinstance(st.value, ast.Constant))]
                decos = [ast.unparse(d) for d in target.decorator_list]
                ps = [a.arg for a in target.args.args]
                if isinstance(f, ast.Attribute) and "staticmethod" not in decos and ps:
                    ps = ps[1:]
                if len(body) == 1 and isinstance(body[0], ast.Return) and body[0].value is not None and not node.keywords and len(node.args) == len(ps) and not target.args.vararg and not target.args.kwarg:
                    import copy as _copy

                    bind = dict(zip(ps, node.args))

                    class _Sub(ast.NodeTransformer):
                        def visit_Name(self, n):
                            if isinstance(n.ctx, ast.Load) and n.id in bind:
                                return _copy.deepcopy(bind[n.id])
                            return n

                    expr = _Sub().visit(_copy.deepcopy(body[0].value))
                    sub = _Canon(None, None, self.params, self.depth + 1)
                    sub.helpers = hl
                    return sub.visit(expr)
        return node

    def visit_UnaryOp(self, node):
        self.generic_visit(node)
        # not (a == b) -> a != b ; not (a in b) -> a not in b ; etc.
        if isinstance(node.op, ast.Not) and isinstance(node.operand, ast.Compare) and len(node.operand.ops) == 1:
            flip = {ast.Eq: ast.NotEq, ast.NotEq: ast.Eq, ast.In: ast.NotIn, ast.NotIn: ast.In, ast.Is: ast.IsNot, ast.IsNot: ast.Is}
            k = type(node.operand.ops[0])
            if k in flip:
                return ast.copy_location(ast.Compare(left=node.operand.left, ops=[flip[k]()], comparators=node.operand.comparators), node)
        return node

    def visit_Compare(self, node):
        self.generic_visit(node)
        # one direction only: a > b  ->  b < a ;  a >= b  ->  b <= a   (single comparisons)
        if len(node.ops) == 1 and isinstance(node.ops[0], (ast.Gt, ast.GtE)):
            op = ast.Lt() if isinstance(node.ops[0], ast.Gt) else ast.LtE()
            return ast.copy_location(ast.Compare(left=node.comparators[0], ops=[op], comparators=[node.left]), node)
        return node


def helper_table(cls_info=None, mod=None, fn=None, repo=None):
    """functions a call inside `fn` may denote as a *local helper*: methods of the class (through its ancestors),
    module-level functions, functions nested in fn"""
    out = {}
    if mod is not None:
        for n, f in mod.functions.items():
            out[("f", n)] = f
    if cls_info is not None:
        chain = repo.mro(cls_info) if repo is not None else [cls_info]
        for c in reversed(chain):
            for n, f in c.methods.items():
                out[("m", n)] = f
    if fn is not None:
        for n in ast.walk(fn):
            if isinstance(n, (ast.FunctionDef, ast.AsyncFunctionDef)) and n is not fn:
                out[("f", n.name)] = n
    return out


def canon(expr, rd=None, at=None, params=(), helpers=None):
    """Canonical text of an expression: single-definition locals are replaced by their defining
    expression, `x._a` and `x.a` are identified, numpy is spelled np, comparisons point one way, and (with a
    helper table) calls of single-return helpers are replaced by the returned expression.  Used so that rules which
    recognise an expression shape are insensitive to renamed temporaries, extracted helpers and private/public
    spelling."""
    import copy as _copy

    e = _copy.deepcopy(expr)
    if rd is not None and at is None:
        at = rd.stmt_of(expr)
    c = _Canon(rd, at, set(params) | {"self", "cls"})
    c.helpers = helpers
    e = c.visit(e)
    return " ".join(ast.unparse(e).split())

"""Types from annotations, callee resolution, and mutation (effect) summaries.

`Effects.writes(fn_key)` lists the writes a function may perform, each with the set of
*parameters* the mutated object derives from (flow-sensitive provenance; values made by
constructors / copy.deepcopy / comprehensions are fresh and have no root).  Summaries are
propagated through resolved calls (self.m, Cls.m, typed receivers, property setters, module
functions); a call on an untyped receiver is resolved by name to every method of that name
and contributes an effect only if *every* candidate has it (otherwise it is listed as
unresolved).
"""
import ast

from .core import AnalysisError, attr_chain, call_name, norm, walk_no_nested
from .dataflow import Provenance, ReachingDefs, target_names

CONTAINER_MUTATORS = {
    "append", "extend", "insert", "pop", "remove", "clear", "update", "add", "discard", "sort", "reverse",
    "setdefault", "popitem", "difference_update", "intersection_update", "symmetric_difference_update", "fill", "resize",
}
FRESH_CALLS = {"copy.deepcopy", "deepcopy", "list", "dict", "set", "tuple", "frozenset", "sorted", "np.array", "numpy.array",
               "np.copy", "np.asarray", "np.zeros", "np.ones", "np.empty", "np.concatenate", "np.vstack", "np.hstack",
               "defaultdict", "collections.defaultdict", "deque", "collections.deque", "OrderedDict", "collections.OrderedDict",
               "Counter", "collections.Counter", "str", "int", "float", "bool", "len", "range", "enumerate", "zip"}
SHALLOW_COPY_CALLS = {"copy.copy", "copy"}


def type_names(ann_node):
    """All simple names occurring in an annotation expression (also inside string annotations)."""
    out = []
    if ann_node is None:
        return out
    if isinstance(ann_node, ast.Constant) and isinstance(ann_node.value, str):
        try:
            ann_node = ast.parse(ann_node.value, mode="eval").body
        except SyntaxError:
            return out
    for n in ast.walk(ann_node):
        if isinstance(n, ast.Name):
            out.append(n.id)
        elif isinstance(n, ast.Attribute):
            out.append(n.attr)
        elif isinstance(n, ast.Constant) and isinstance(n.value, str) and n.value.isidentifier():
            out.append(n.value)
    return out


class FnKey:
    """A function of the repository: (ClassInfo or None, FunctionDef, ModuleInfo, kind)."""

    __slots__ = ("cls", "fn", "mod", "kind")

    def __init__(self, cls, fn, mod, kind="method"):
        self.cls, self.fn, self.mod, self.kind = cls, fn, mod, kind

    @property
    def name(self):
        base = (self.cls.name + ".") if self.cls is not None else ""
        suffix = {"set": "[set]", "get": "", "del": "[del]"}.get(self.kind, "")
        return "%s%s%s" % (base, self.fn.name, suffix)

    def __hash__(self):
        return id(self.fn)

    def __eq__(self, other):
        return isinstance(other, FnKey) and other.fn is self.fn

    def __repr__(self):
        return "<Fn %s:%s>" % (self.mod.rel, self.name)


def _array_valued(e):
    """the expression certainly is a numpy array (so an augmented assignment with it works in place on an array)"""
    for x in ast.walk(e):
        if isinstance(x, ast.Call):
            cn = call_name(x) or ""
            if cn.split(".")[0] in ("np", "numpy") and cn.split(".")[-1] in ("array", "asarray", "zeros", "ones", "empty", "arange", "linspace", "dot", "matmul", "cross", "concatenate", "stack", "vstack", "hstack", "diff", "cumsum"):
                return True
    return False


class Write:
    __slots__ = ("roots", "node", "desc", "via", "attr", "deep", "target")

    def __init__(self, roots, node, desc, via=None, attr=None, deep=False, target=None):
        self.target = target  # expression denoting the mutated object (direct writes only)
        self.roots = frozenset(roots)
        self.node = node
        self.desc = desc
        self.via = via  # chain of callee names for transitive writes
        self.attr = attr  # first attribute after the root for direct self.X writes
        self.deep = deep

    def __repr__(self):
        return "Write(%s %s%s)" % (sorted(self.roots), self.desc, " via " + "->".join(self.via) if self.via else "")


class Effects:
    def __init__(self, repo):
        self.repo = repo
        self._attr_types = {}
        self._writes = {}
        self._direct_cache = {}
        self._prov = {}
        self.unresolved = []
        self.allow_memo = False  # drop memo-initialisation stores of getters from the summaries (C18)
        self.memos = []
        self.by_name = {}
        for m in repo.modules.values():
            for c in m.classes.values():
                for n, f in c.methods.items():
                    self.by_name.setdefault(n, []).append(FnKey(c, f, m))

    # ------------------------------------------------------------------ types
    def attr_types(self, cls):
        """attr -> set of class names mentioned in its declared type (class-level annotations,
        `self.x: T = ..` in __init__, annotation of the constructor parameter stored unmodified,
        return annotation of the trivial getter)."""
        key = id(cls)
        if key in self._attr_types:
            return self._attr_types[key]
        out = {}
        self._attr_types[key] = out
        for c in reversed(self.repo.mro(cls)):
            for a, ann in c.annotations.items():
                out.setdefault(a, set()).update(type_names(ann))
            init = c.methods.get("__init__")
            if init is not None:
                pann = {a.arg: a.annotation for a in init.args.args + init.args.kwonlyargs}
                for n in walk_no_nested(init):
                    tgt = val = ann = None
                    if isinstance(n, ast.AnnAssign):
                        tgt, val, ann = n.target, n.value, n.annotation
                    elif isinstance(n, ast.Assign) and len(n.targets) == 1:
                        tgt, val = n.targets[0], n.value
                    if tgt is None or not (isinstance(tgt, ast.Attribute) and isinstance(tgt.value, ast.Name) and tgt.value.id == "self"):
                        continue
                    names = set(type_names(ann))
                    if isinstance(val, ast.Name) and val.id in pann:
                        names.update(type_names(pann[val.id]))
                    elif isinstance(val, ast.Call) and call_name(val):
                        names.add(call_name(val).split(".")[-1])
                    if names:
                        out.setdefault(tgt.attr, set()).update(names)
                        out.setdefault("_" + tgt.attr.lstrip("_"), set()).update(names)
            for p, d in c.props.items():
                g = d.get("get")
                if g is not None and g.returns is not None:
                    out.setdefault(p, set()).update(type_names(g.returns))
        return out

    def expand_aliases(self, names, depth=0):
        """Replace module-level type aliases (TraceState = Union[...], ExactOrShape = ...) by the names they stand for."""
        out = set()
        for n in names:
            if n in self.repo.class_index or depth > 3:
                out.add(n)
                continue
            hit = False
            for m in self.repo.modules.values():
                if n in m.assigns and n not in m.classes:
                    sub = set(type_names(m.assigns[n])) - {n}
                    if sub:
                        out |= self.expand_aliases(sub, depth + 1)
                        hit = True
                        break
            if not hit:
                out.add(n)
        return out

    def classes_named(self, names, ctx_mod):
        names = self.expand_aliases(set(names))
        out = []
        for n in names:
            c = self.repo.resolve_class(ctx_mod, n)
            if c is not None and c not in out:
                out.append(c)
        return out

    def receiver_classes(self, fk, expr, depth=0):
        """Repository classes the value of `expr` (inside function fk) may be an instance of; [] if unknown."""
        if depth > 4:
            return []
        repo = self.repo
        if isinstance(expr, ast.Name):
            if expr.id == "self" and fk.cls is not None:
                return [fk.cls]
            if expr.id == "cls" and fk.cls is not None:
                return [fk.cls]
            for a in fk.fn.args.args + fk.fn.args.kwonlyargs:
                if a.arg == expr.id and a.annotation is not None:
                    return self.classes_named(type_names(a.annotation), fk.mod)
            rd = self.prov(fk).rd
            out = []
            for d in rd.defs(expr.id, expr):
                if d.kind == "assign" and d.node is not None:
                    out += [c for c in self.receiver_classes(fk, d.node, depth + 1) if c not in out]
                elif d.kind in ("for", "unpack") and d.node is not None:
                    out += [c for c in self.receiver_classes(fk, d.node, depth + 1) if c not in out]
            if id(expr) in self.prov(fk).comp_bind:
                out += self.receiver_classes(fk, self.prov(fk).comp_bind[id(expr)], depth + 1)
            return out
        if isinstance(expr, ast.Attribute):
            base = self.receiver_classes(fk, expr.value, depth + 1)
            out = []
            for b in base:
                names = self.attr_types(b).get(expr.attr)
                if names:
                    out += [c for c in self.classes_named(names, b.mod) if c not in out]
            return out
        if isinstance(expr, ast.Call):
            cn = call_name(expr)
            if cn:
                c = repo.resolve_class(fk.mod, cn)
                if c is not None:
                    return [c]
                if cn in ("copy.deepcopy", "copy.copy", "deepcopy") and expr.args:
                    return self.receiver_classes(fk, expr.args[0], depth + 1)
            if isinstance(expr.func, ast.Attribute):
                if expr.func.attr in ("values", "items", "keys", "get", "copy", "pop"):
                    return self.receiver_classes(fk, expr.func.value, depth + 1)
                out = []
                for b in self.receiver_classes(fk, expr.func.value, depth + 1):
                    _o, m = repo.find_method(b, expr.func.attr)
                    if m is not None and m.returns is not None:
                        out += [c for c in self.classes_named(type_names(m.returns), b.mod) if c not in out]
                return out
            return []
        if isinstance(expr, ast.Subscript):
            return self.receiver_classes(fk, expr.value, depth + 1)
        if isinstance(expr, ast.IfExp):
            return self.receiver_classes(fk, expr.body, depth + 1) + self.receiver_classes(fk, expr.orelse, depth + 1)
        return []

    # ------------------------------------------------------------------ per-function helpers
    def prov(self, fk):
        p = self._prov.get(fk)
        if p is None:
            p = self._prov[fk] = Provenance(fk.fn)
        return p

    def fnkey_method(self, cls, name):
        owner, fn = self.repo.find_method(cls, name)
        if fn is not None:
            return FnKey(owner, fn, owner.mod)
        return None

    def fnkey_setter(self, cls, name):
        owner, p = self.repo.find_prop(cls, name)
        if p is not None and "set" in p:
            return FnKey(owner, p["set"], owner.mod, "set")
        return None

    def fnkey_getter(self, cls, name):
        owner, p = self.repo.find_prop(cls, name)
        if p is not None and "get" in p:
            return FnKey(owner, p["get"], owner.mod, "get")
        return None

    def overrides(self, cls, name):
        """fnkeys of `name` in cls (through MRO) and in every subclass that overrides it."""
        out = []
        fk = self.fnkey_method(cls, name)
        if fk is not None:
            out.append(fk)
        for sc in self.repo.subclasses(cls, strict=True):
            if name in sc.methods:
                k = FnKey(sc, sc.methods[name], sc.mod)
                if k not in out:
                    out.append(k)
        return out

    def resolve_call(self, fk, call):
        """-> (list of candidate FnKey, mode, self_expr) ; mode in 'exact','typed','byname','ctor','unknown'."""
        repo = self.repo
        f = call.func
        if isinstance(f, ast.Name):
            # a function defined inside the calling function (closure helper)
            for n in ast.walk(fk.fn):
                if isinstance(n, (ast.FunctionDef, ast.AsyncFunctionDef)) and n is not fk.fn and n.name == f.id:
                    return [FnKey(None, n, fk.mod, "func")], "exact", None
            if f.id in fk.mod.functions:
                return [FnKey(None, fk.mod.functions[f.id], fk.mod, "func")], "exact", None
            if f.id in fk.mod.imports:
                src, orig = fk.mod.imports[f.id]
                m = repo._by_modname.get(src)
                if m is not None and orig in m.functions:
                    return [FnKey(None, m.functions[orig], m, "func")], "exact", None
            c = repo.resolve_class(fk.mod, f.id)
            if c is not None:
                k = self.fnkey_method(c, "__init__")
                return ([k] if k else []), "ctor", None
            return [], "unknown", None
        if isinstance(f, ast.Attribute):
            recv = f.value
            # super().m(...)
            if isinstance(recv, ast.Call) and call_name(recv) == "super" and fk.cls is not None:
                for c in repo.mro(fk.cls)[1:]:
                    if f.attr in c.methods:
                        return [FnKey(c, c.methods[f.attr], c.mod)], "exact", ast.Name(id="self", ctx=ast.Load())
                return [], "unknown", None
            # module.function(...)
            ch = attr_chain(f)
            if ch and len(ch) >= 2:
                modname = ".".join(ch[:-1])
                m = repo._by_modname.get(modname)
                if m is None and ch[0] in fk.mod.imports and len(ch) == 2:
                    m = repo._by_modname.get(fk.mod.imports[ch[0]][0] if fk.mod.imports[ch[0]][1] is None else fk.mod.imports[ch[0]][0] + "." + fk.mod.imports[ch[0]][1])
                if m is not None and ch[-1] in m.functions:
                    return [FnKey(None, m.functions[ch[-1]], m, "func")], "exact", None
            # Cls.m(...)  (explicit self as first arg for plain methods)
            if isinstance(recv, (ast.Name, ast.Attribute)):
                c = repo.resolve_class(fk.mod, norm(recv)) if not (isinstance(recv, ast.Name) and recv.id in ("self",)) else None
                if c is not None and isinstance(recv, ast.Name) and recv.id not in [a.arg for a in fk.fn.args.args]:
                    k = self.fnkey_method(c, f.attr)
                    if k is not None:
                        return [k], "exact-unbound", None
            classes = self.receiver_classes(fk, recv)
            if classes:
                out = []
                for c in classes:
                    for k in self.overrides(c, f.attr):
                        if k not in out:
                            out.append(k)
                if out:
                    return out, "typed", recv
                # typed receiver without such a method: a container / third-party method
                return [], "typed-none", recv
            cands = self.by_name.get(f.attr, [])
            if cands:
                return list(cands), "byname", recv
            return [], "unknown", recv
        return [], "unknown", None

    # ------------------------------------------------------------------ writes
    def _fresh(self, fk, expr, depth=0):
        """True if the value of expr is certainly a fresh object (not reachable from any parameter)."""
        if depth > 6:
            return False
        if isinstance(expr, (ast.Constant, ast.List, ast.Dict, ast.Set, ast.Tuple, ast.ListComp, ast.DictComp, ast.SetComp, ast.JoinedStr, ast.BinOp, ast.Compare, ast.BoolOp, ast.UnaryOp)):
            return True
        if isinstance(expr, ast.Call):
            cn = call_name(expr) or ""
            if cn in FRESH_CALLS or cn in SHALLOW_COPY_CALLS:
                return True
            if self.repo.resolve_class(fk.mod, cn) is not None:
                return True
            if cn.endswith(".__new__"):
                return True
            if cn.startswith("np.") or cn.startswith("numpy.") or cn.startswith("math.") or cn.startswith("etree."):
                return True
            if isinstance(expr.func, ast.Attribute) and expr.func.attr == "copy" and not expr.args:
                return True
            cands, mode, _r = self.resolve_call(fk, expr)
            if mode in ("exact", "typed", "exact-unbound") and cands and depth < 4:
                return all(self._returns_fresh(k) for k in cands)
            return False
        if isinstance(expr, ast.Name):
            rd = self.prov(fk).rd
            ds = rd.defs(expr.id, expr)
            if not ds:
                return False
            for d in ds:
                if d.kind != "assign" or d.node is None or not self._fresh(fk, d.node, depth + 1):
                    return False
            return True
        if isinstance(expr, ast.IfExp):
            return self._fresh(fk, expr.body, depth + 1) and self._fresh(fk, expr.orelse, depth + 1)
        return False

    def _returns_fresh(self, k):
        c = self.__dict__.setdefault("_rf_cache", {})
        if k in c:
            return c[k]
        c[k] = False  # recursion: not fresh
        rets = [n for n in walk_no_nested(k.fn) if isinstance(n, ast.Return) and n.value is not None]
        c[k] = bool(rets) and all(self._fresh(k, r.value, 3) for r in rets)
        return c[k]

    def is_memo_store(self, fk, stmt, target):
        """`self.S = ..` inside a memoising getter of S (sa.flowtools.memo_form): initialisation of an empty memo slot."""
        if fk.kind != "get" or not isinstance(target, ast.Attribute) or norm(target.value) != "self":
            return False
        from .flowtools import memo_form

        mf = memo_form(fk.fn)
        if mf is None or mf["slot"].lstrip("_") != target.attr.lstrip("_"):
            return False
        return any(stmt is st for st in mf["store_stmts"])

    ELEMENTWISE_CALLS = {"list", "tuple", "set", "frozenset", "sorted", "reversed", "copy.copy", "copy", "enumerate", "zip", "dict",
                         "np.array", "np.asarray", "filter", "iter", "next", "deque", "collections.deque"}

    def obj_roots(self, fk, expr, lvl=0, _active=frozenset()):
        """Parameters the object denoted by `expr` may be (part of); empty set = fresh / unknown-global.
        lvl > 0 asks for an element `lvl` levels inside the value (x[0], loop variable over x): a fresh container
        (display, comprehension, list(..), shallow copy) has no root itself but its elements have the roots of the
        expressions that were put into it."""
        while isinstance(expr, ast.Subscript):
            expr, lvl = expr.value, lvl + 1
        if self._fresh(fk, expr):
            return self._elem_roots(fk, expr, lvl, _active) if lvl > 0 else set()
        p = self.prov(fk)
        # names that only occur in subscript indices along the object path select an element, they are not the object
        skip = set()
        e = expr
        while isinstance(e, (ast.Subscript, ast.Attribute)):
            if isinstance(e, ast.Subscript):
                skip |= {id(x) for x in ast.walk(e.slice)}
            e = e.value
        roots = set()
        for n in p._names(expr):
            if id(n) in skip or (hasattr(n, "base") and id(n.base) in skip):
                continue
            if isinstance(n, ast.Attribute):
                dotted, base = n
                roots |= self.obj_roots(fk, base, 0, _active)
                continue
            if id(n) in p.comp_bind:
                roots |= self.obj_roots(fk, p.comp_bind[id(n)], (lvl if n is expr else 0) + 1, _active)
                continue
            ds = p.rd.defs(n.id, n)
            if not ds:
                continue
            for d in ds:
                roots |= self._def_obj_roots(fk, d, _active, lvl if n is expr else 0)
        return roots

    def _elem_roots(self, fk, expr, lvl, active, depth=0):
        """roots of the elements `lvl` levels inside a fresh container expression"""
        if lvl <= 0:
            return self.obj_roots(fk, expr, 0, active)
        if depth > 8:
            return set()
        out = set()
        if isinstance(expr, (ast.List, ast.Tuple, ast.Set)):
            for e in expr.elts:
                if isinstance(e, ast.Starred):
                    out |= self.obj_roots(fk, e.value, lvl, active)
                else:
                    out |= self.obj_roots(fk, e, lvl - 1, active)
        elif isinstance(expr, ast.Dict):
            for e in expr.values:
                if e is not None:
                    out |= self.obj_roots(fk, e, lvl - 1, active)
        elif isinstance(expr, (ast.ListComp, ast.SetComp, ast.GeneratorExp)):
            out |= self.obj_roots(fk, expr.elt, lvl - 1, active)
        elif isinstance(expr, ast.DictComp):
            out |= self.obj_roots(fk, expr.value, lvl - 1, active)
        elif isinstance(expr, ast.BinOp):
            out |= self.obj_roots(fk, expr.left, lvl, active) | self.obj_roots(fk, expr.right, lvl, active)
        elif isinstance(expr, ast.IfExp):
            out |= self.obj_roots(fk, expr.body, lvl, active) | self.obj_roots(fk, expr.orelse, lvl, active)
        elif isinstance(expr, ast.Call):
            cn = call_name(expr) or ""
            if cn in self.ELEMENTWISE_CALLS:
                for a in expr.args:
                    out |= self.obj_roots(fk, a, lvl + (0 if cn not in ("zip", "enumerate") else -1) if cn not in ("zip", "enumerate") else lvl, active)
            elif isinstance(expr.func, ast.Attribute) and expr.func.attr in ("copy", "values", "items", "keys") and not expr.args:
                out |= self.obj_roots(fk, expr.func.value, lvl, active)
        elif isinstance(expr, ast.Name):
            for d in self.prov(fk).rd.defs(expr.id, expr):
                out |= self._def_obj_roots(fk, d, active, lvl)
        return out

    def _def_obj_roots(self, fk, d, active, lvl=0):
        if d.kind == "param":
            return {d.name}
        if d.kind in ("import", "def", "except") or d.node is None:
            return set()
        key = (id(d), lvl)
        if key in active or lvl > 6:
            return set()
        active = active | {key}
        if d.kind == "for":
            lvl += 1
        elif d.kind == "unpack":
            # tuple target of an assignment / loop: an element of the value (of the iterated elements)
            lvl += 1 if isinstance(d.stmt, (ast.Assign, ast.AnnAssign, ast.With)) else 2
        elif d.kind not in ("assign", "with"):
            lvl = 0
        return self.obj_roots(fk, d.node, lvl, active)

    def _direct(self, fk):
        """(direct writes, call sites) of one function; call sites are resolved lazily at propagation."""
        if fk in self._direct_cache:
            return self._direct_cache[fk]
        writes, calls = [], []

        def add_store(target, node, what, full=None):
            roots = self.obj_roots(fk, target)
            if roots:
                if self.allow_memo and full is not None and self.is_memo_store(fk, node, full):
                    self.memos.append("%s: %s" % (fk.name, what))
                    return
                ch = attr_chain(target)
                writes.append(Write(roots, node, what, attr=(ch[1] if ch and len(ch) > 1 else None), target=target))

        for n in walk_no_nested(fk.fn):
            if isinstance(n, (ast.Assign, ast.AugAssign, ast.AnnAssign, ast.Delete, ast.For)):
                targets = []
                if isinstance(n, ast.Assign):
                    targets = n.targets
                elif isinstance(n, ast.AugAssign):
                    targets = [n.target]
                elif isinstance(n, ast.AnnAssign):
                    targets = [n.target] if n.value is not None else []
                elif isinstance(n, ast.Delete):
                    targets = n.targets
                elif isinstance(n, ast.For):
                    targets = [n.target]
                flat = []
                for t in targets:
                    flat += t.elts if isinstance(t, (ast.Tuple, ast.List)) else [t]
                for t in flat:
                    if isinstance(t, ast.Attribute):
                        handled = False
                        if not isinstance(n, ast.Delete):
                            for c in self.receiver_classes(fk, t.value):
                                sk = self.fnkey_setter(c, t.attr)
                                if sk is not None:
                                    handled = True
                                    calls.append(([sk], "exact", t.value, [getattr(n, "value", None)], {}, n, "%s = .. (setter)" % norm(t)))
                        if not handled:
                            add_store(t.value, n, "%s %s" % ("del" if isinstance(n, ast.Delete) else "store", norm(t)), full=t)
                    elif isinstance(t, ast.Subscript):
                        add_store(t.value, n, "%s %s" % ("del" if isinstance(n, ast.Delete) else "store", norm(t)))
                    elif isinstance(t, ast.Name) and isinstance(n, ast.AugAssign) and _array_valued(n.value):
                        # `x -= <array expression>` updates x in place when x is an array: if x is another name for
                        # an object reachable from the inputs (pos = state.position), that object changes
                        roots, seen_, work = set(), set(), [(t.id, n)]
                        while work:
                            nm_, at_ = work.pop()
                            for d in self.prov(fk).rd.defs(nm_, at_):
                                if id(d) in seen_:
                                    continue
                                seen_.add(id(d))
                                if d.kind == "aug" and d.stmt is not None:
                                    work.append((nm_, d.stmt))  # an in-place update keeps the object
                                else:
                                    roots |= self._def_obj_roots(fk, d, frozenset())
                        if roots:
                            writes.append(Write(roots, n, "in-place %s" % norm(n)[:60], attr=None, target=t))
            elif isinstance(n, ast.Call):
                cn = call_name(n)
                if cn in ("setattr", "delattr") and n.args:
                    add_store(n.args[0], n, "%s(%s, ..)" % (cn, norm(n.args[0])))
                    continue
                cands, mode, recv = self.resolve_call(fk, n)
                if isinstance(n.func, ast.Attribute) and n.func.attr in CONTAINER_MUTATORS and mode in ("byname", "typed-none", "unknown"):
                    add_store(n.func.value, n, "%s.%s(..)" % (norm(n.func.value), n.func.attr))
                    continue
                if not cands:
                    continue
                kwargs = {kw.arg: kw.value for kw in n.keywords if kw.arg}
                if mode == "ctor":
                    calls.append((cands, "ctor", None, list(n.args), kwargs, n, "%s(..)" % cn))
                elif mode == "byname":
                    calls.append((cands, "byname", recv, list(n.args), kwargs, n, "%s(..)" % norm(n.func)))
                else:
                    for k in cands:
                        args = list(n.args)
                        self_expr = recv
                        if mode == "exact-unbound":
                            kdecos = [ast.unparse(d) for d in k.fn.decorator_list]
                            if "staticmethod" in kdecos or "classmethod" in kdecos:
                                self_expr = None
                            elif args:
                                self_expr, args = args[0], args[1:]
                        calls.append(([k], "exact", self_expr, args, kwargs, n, "%s(..)" % norm(n.func)))
        self._direct_cache[fk] = (writes, calls)
        return writes, calls

    def writes(self, fk):
        """All writes function fk may perform (direct and through resolved calls), as a fixpoint over the
        call graph reachable from fk."""
        if fk in self._writes:
            return self._writes[fk]
        reach, stack = [], [fk]
        seen = set()
        while stack:
            k = stack.pop()
            if k in seen or k in self._writes:
                continue
            seen.add(k)
            reach.append(k)
            for cands, _m, _s, _a, _kw, _n, _d in self._direct(k)[1]:
                stack.extend(cands)
        cur = {k: list(self._direct(k)[0]) for k in reach}
        keys = {k: {(w.roots, id(w.node), w.desc) for w in cur[k]} for k in reach}

        def get(k):
            return self._writes[k] if k in self._writes else cur.get(k, [])

        changed = True
        rounds = 0
        while changed:
            changed = False
            rounds += 1
            if rounds > 60:
                raise AnalysisError("effect propagation did not converge")
            for k in reach:
                for cands, mode, self_expr, args, kwargs, node, desc in self._direct(k)[1]:
                    if mode == "byname":
                        per = [self._induced(k, c, get(c), self_expr, args, kwargs, node, desc, False) for c in cands]
                        if not all(per):
                            if any(per):
                                msg = "%s: %s resolved by name to %d candidates with differing effects" % (k.name, desc, len(cands))
                                if msg not in self.unresolved:
                                    self.unresolved.append(msg)
                            continue
                        common = set.intersection(*[set(w.roots for w in s) for s in per])
                        new = [w for w in per[0] if w.roots in common]
                    else:
                        new = []
                        for c in cands:
                            new += self._induced(k, c, get(c), self_expr, args, kwargs, node, desc, mode == "ctor")
                    for w in new:
                        key = (w.roots, id(w.node), w.desc)
                        if key not in keys[k]:
                            keys[k].add(key)
                            cur[k].append(w)
                            changed = True
        for k in reach:
            self._writes[k] = cur[k]
        return self._writes[fk]

    def bind(self, callee, self_expr, args, kwargs, skip_self=False):
        """callee parameter -> argument expression of the call"""
        cparams = [a.arg for a in callee.fn.args.posonlyargs + callee.fn.args.args]
        decos = [ast.unparse(d) for d in callee.fn.decorator_list]
        bind = {}
        rest = list(cparams)
        if callee.cls is not None and "staticmethod" not in decos and rest:
            first = rest.pop(0)
            if "classmethod" not in decos and self_expr is not None and not skip_self:
                bind[first] = self_expr
        for i, a in enumerate(args):
            if a is not None and i < len(rest):
                bind[rest[i]] = a
        for k, v in kwargs.items():
            bind[k] = v
        return bind

    def _induced(self, fk, callee, cw, self_expr, args, kwargs, node, desc, skip_self):
        out = []
        if not cw:
            return out
        cparams = [a.arg for a in callee.fn.args.posonlyargs + callee.fn.args.args]
        decos = [ast.unparse(d) for d in callee.fn.decorator_list]
        bind = {}
        rest = list(cparams)
        if callee.cls is not None and "staticmethod" not in decos and rest:
            first = rest.pop(0)
            if "classmethod" not in decos and self_expr is not None and not skip_self:
                bind[first] = self_expr
        for i, a in enumerate(args):
            if a is not None and i < len(rest):
                bind[rest[i]] = a
        for k, v in kwargs.items():
            bind[k] = v
        seen = set()
        for w in cw:
            roots = set()
            for r in w.roots:
                if r in bind and bind[r] is not None:
                    roots |= self.obj_roots(fk, bind[r])
            fr = frozenset(roots)
            if roots and fr not in seen:
                seen.add(fr)
                out.append(Write(roots, node, desc, via=[callee.name] + (w.via or [w.desc]), attr=None, deep=True))
        return out

    def mutates_param(self, fk, pname):
        return [w for w in self.writes(fk) if pname in w.roots]

"""Leaf enumeration of the writer's element tree with *sources*: for every text / attribute value the
attribute path of the top-level builder's domain object it is computed from, obtained by
substituting builder parameters with the argument expressions of the call sites on the way down
and loop variables with `<iterable>[*]`."""
import ast

from .core import attr_chain, call_name, norm
from .xmlw import Alt, CallRef, Child, Node, WriterModel


class Leaf:
    def __init__(self, path, kind, name, expr, source, origin, fn, guards):
        self.path, self.kind, self.name = path, kind, name  # kind: 'text' | 'attr' | 'elem'
        self.expr, self.source, self.origin, self.fn, self.guards = expr, source, origin, fn, guards

    @property
    def key(self):
        return (self.path, self.kind, self.name)

    def __repr__(self):
        return "%s %s%s <- %s" % ("/".join(self.path), self.kind, ("=" + self.name) if self.name else "", self.source)


class Guard(tuple):
    """(test text, polarity) of a condition an emission stands under, with `src`: the sources (attribute paths on the
    outermost builder's domain object) of the values the test reads, resolved in the frame where the test is written"""

    src = frozenset()


class Frame:
    """one builder activation: bindings of its parameters to source expressions (texts) of the caller"""

    def __init__(self, fn, binds, parent=None):
        self.fn, self.binds, self.parent = fn, binds, parent


def strip_format(e):
    """peel formatting wrappers off a value expression"""
    while True:
        if isinstance(e, ast.Call) and call_name(e) in ("str", "float_to_str", "np.float64", "float", "int", "repr") and e.args:
            e = e.args[0]
            continue
        if isinstance(e, ast.Call) and isinstance(e.func, ast.Attribute) and e.func.attr in ("lower", "upper") and not e.args:
            e = e.func.value
            continue
        return e


class Flow:
    def __init__(self, wm: WriterModel, tag_resolver):
        self.w = wm
        self.tags = tag_resolver
        self.leaves = []

    def _rd(self, fn):
        from .dataflow import ReachingDefs

        c = self.__dict__.setdefault("_rdcache", {})
        if id(fn) not in c:
            c[id(fn)] = ReachingDefs(fn)
        return c[id(fn)]

    # ---------------------------------------------------------------- sources
    def source(self, expr, frame, loops, depth=0):
        """canonical source text of a value expression: dotted attribute path on the outermost
        builder's parameter, '[*]' for elements of iterated collections; None if it is constant."""
        e = strip_format(expr)
        # `x or ()`, `(x,) if x else ()`, a one-element tuple: the value behind the default / the wrapping
        for _ in range(4):
            if isinstance(e, ast.BoolOp) and isinstance(e.op, ast.Or) and len(e.values) == 2 and isinstance(e.values[1], (ast.Tuple, ast.List, ast.Constant)) and not getattr(e.values[1], "elts", None):
                e = e.values[0]
            elif isinstance(e, ast.IfExp) and isinstance(e.orelse, (ast.Tuple, ast.List)) and not e.orelse.elts:
                e = e.body
            elif isinstance(e, ast.IfExp) and isinstance(e.body, (ast.Tuple, ast.List)) and not e.body.elts:
                e = e.orelse
            else:
                break
        if isinstance(e, (ast.Tuple, ast.List)) and len(e.elts) == 1 and depth > 0:
            # iterated one-element collection: its element (the caller appends [*])
            inner = self.source(e.elts[0], frame, loops, depth + 1)
            return ("one:" + inner) if inner else inner
        if isinstance(e, ast.Constant):
            return "const:%r" % (e.value,)
        if isinstance(e, ast.JoinedStr):
            parts = [self.source(v.value, frame, loops, depth + 1) for v in e.values if isinstance(v, ast.FormattedValue)]
            return "+".join(sorted({p for p in parts if p}))
        if isinstance(e, ast.Subscript):
            base = self.source(e.value, frame, loops, depth + 1)
            if isinstance(e.slice, ast.Constant) and isinstance(e.slice.value, int) and base:
                return "%s[%d]" % (base, e.slice.value)
            return base
        if isinstance(e, ast.Call) and call_name(e) == "getattr" and len(e.args) >= 2:
            base = self.source(e.args[0], frame, loops, depth + 1)
            a1 = e.args[1]
            if isinstance(a1, ast.Name) and frame is not None and isinstance(frame.binds.get(a1.id), tuple) and isinstance(frame.binds[a1.id][0], ast.Constant):
                a1 = frame.binds[a1.id][0]
            if isinstance(a1, ast.Constant) and isinstance(a1.value, str):
                return "%s.%s" % (base or "?", a1.value)
            return "%s.{%s}" % (base or "?", norm(a1))
        if isinstance(e, ast.Call):
            # helper such as cls._line_marking_enum_to_string(x)
            args = [self.source(a, frame, loops, depth + 1) for a in e.args]
            args = [a for a in args if a]
            return args[0] if args else None
        ch = attr_chain(e)
        if not ch:
            return None
        head, rest = ch[0], ch[1:]
        # loop variable?
        for tgt, it in reversed(loops):
            if tgt == head or tgt.startswith(head + ",") or ("," in tgt and head in [x.strip(" ()") for x in tgt.split(",")]):
                try:
                    it_e = ast.parse(it, mode="eval").body
                except SyntaxError:
                    break
                if isinstance(it_e, ast.Call) and call_name(it_e) in ("enumerate", "list", "sorted", "reversed") and it_e.args:
                    it_e = it_e.args[0]
                base = self.source(it_e, frame, [l for l in loops if l[0] != tgt], depth + 1)
                if base and base.startswith("one:"):
                    return ".".join([base[4:]] + rest)
                return ".".join([(base or "?") + "[*]"] + rest)
        if head == "self" and frame is not None and rest and depth < 12:
            key = "self." + rest[0]
            if frame.binds.get(key) is not None:
                b = frame.binds[key]
                base = self.source(b[0], frame.parent, b[1], depth + 1)
                return ".".join([base or "?"] + rest[1:])
            if frame.binds.get("self.*") is not None:
                b = frame.binds["self.*"]
                base = self.source(b[0], frame.parent, b[1], depth + 1)
                # a wrapper object around one value (Pointlist.points, Point.x/y/z of a point array)
                return base
        if frame is not None and head in frame.binds and depth < 12:
            b = frame.binds[head]
            if b is None:
                return ".".join(["?"] + rest)
            if len(b) == 3:
                # alias of an unrolled literal loop: the expression lives in this very frame
                inner = Frame(frame.fn, {k: v for k, v in frame.binds.items() if k != head}, frame.parent)
                base = self.source(b[0], inner, b[1], depth + 1)
                return ".".join([base or "?"] + rest) if rest else base
            base = self.source(b[0], frame.parent, b[1], depth + 1)
            return ".".join([base or "?"] + rest) if rest else base
        if frame is not None and head not in ("self", "cls") and depth < 12:
            # local alias: time = occupancy.time_step
            rd = self._rd(frame.fn)
            ds = [d for d in rd.defs(head, e)] if rd is not None else []
            vals = [d.node for d in ds if d.kind == "assign" and d.node is not None]
            if not ds:
                # the expression was re-parsed from text (loop iterables): fall back to the function's only
                # assignment of that name
                asg = [st for st in ast.walk(frame.fn) if isinstance(st, ast.Assign) and len(st.targets) == 1 and isinstance(st.targets[0], ast.Name) and st.targets[0].id == head]
                if len(asg) >= 1:
                    ds, vals = list(asg), [a_.value for a_ in asg]
            if len(ds) == 1 and len(vals) == 1 and not any(isinstance(x, ast.Name) and x.id == head for x in ast.walk(vals[0])):
                base = self.source(vals[0], frame, loops, depth + 1)
                if base and not base.startswith("const:"):
                    return ".".join([base] + rest) if rest or not base.startswith("one:") else base
            elif len(ds) > 1 and len(vals) == len(ds) and not any(isinstance(x, ast.Name) and x.id == head for v_ in vals for x in ast.walk(v_)):
                # several definitions (a value and its default in a branch): the one that is not a constant
                bases = {self.source(v_, frame, loops, depth + 1) for v_ in vals}
                real = {b_ for b_ in bases if b_ and not b_.startswith("const:") and not all(p_[:1].isupper() for p_ in b_.replace("one:", "").split(".")[:1])}
                if len(real) == 1:
                    base = real.pop()
                    return ".".join([base] + rest) if rest or not base.startswith("one:") else base
        if head == "self" and frame is not None and "self" in frame.binds and frame.binds["self"] is not None:
            b = frame.binds["self"]
            base = self.source(b[0], frame.parent, b[1], depth + 1)
            return ".".join([base or "?"] + rest)
        return ".".join(ch)

    # ---------------------------------------------------------------- walking
    def frame_for(self, cr: CallRef, frame, loops):
        cls, fn = self.w.funcs[cr.callee[:2]]
        params = [a.arg for a in fn.args.args]
        binds = {}
        ps = list(params)
        if ps and ps[0] in ("cls", "self"):
            first = ps.pop(0)
            if first == "self" and cr.recv is not None:
                # instance built by a constructor / classmethod call: bind its constructor arguments by position
                binds["self"] = None
                rc = cr.recv
                if isinstance(rc, ast.Name):
                    binds["self.*"] = (rc, loops)
                if isinstance(rc, ast.Call):
                    icls = call_name(rc).split(".")[0]
                    init = self.w.funcs.get((icls, "__init__"))
                    ctor = self.w.funcs.get((icls, call_name(rc).split(".")[-1])) if "." in call_name(rc) else None
                    if init is not None and "." not in call_name(rc):
                        ips = [a.arg for a in init[1].args.args][1:]
                        for i, a in enumerate(rc.args):
                            if i < len(ips):
                                binds["self." + ips[i]] = (a, loops)
                    elif ctor is not None and rc.args:
                        binds["self.*"] = (rc.args[0], loops)
        for i, a in enumerate(cr.args):
            if i < len(ps):
                binds[ps[i]] = (a, loops)
        for k, a in cr.kwargs.items():
            binds[k] = (a, loops)
        fr = Frame(fn, binds, frame)
        return fr

    def walk_builder(self, key, path=()):
        """enumerate leaves of everything a top-level builder returns"""
        cls, fn = self.w.funcs[key[:2]]
        fr = Frame(fn, {}, None)
        s = self.w.summary(key)
        for v, g, o in s.returns:
            self._walk_value(v, fr, [], path, [], 0)
        return self.leaves

    def _walk_value(self, v, frame, loops, path, guards, depth):
        if depth > 30 or v is None:
            return
        if isinstance(v, Alt) or (isinstance(v, list) and not isinstance(v, Alt)):
            for e in v:
                if isinstance(e, Child):
                    self._walk_child(e, frame, loops, path, guards, depth)
                else:
                    self._walk_value(e, frame, loops, path, guards, depth)
            return
        if isinstance(v, CallRef):
            fr = self.frame_for(v, frame, loops)
            s = self.w.summary(v.callee)
            for rv, g, o in s.returns:
                if isinstance(rv, Node) and (rv.tag or "").startswith("<param:"):
                    continue
                self._walk_value(rv, fr, [], path, guards, depth + 1)
            return
        if isinstance(v, Node):
            self._walk_node(v, frame, loops, path, guards, depth)

    def _walk_node(self, node, frame, loops, path, guards, depth):
        frames = [(node, frame, loops)]
        # proxy node standing for the root returned by a callee: that root's own content is in the callee's frame
        n = node
        k = 0
        while n.base is not None and k < 8:
            fr = self.frame_for(n.base, frames[-1][1], frames[-1][2])
            roots = self.w.roots_of(n.base.callee)
            if len(roots) != 1:
                break
            n = roots[0]
            frames.append((n, fr, []))
            k += 1
        for tg in self.tags(node):
            p = path + (tg,)
            self.leaves.append(Leaf(p, "elem", None, None, None, node.origin, node.fn, guards))
            for nd, fr, lp in frames:
                for (an, vexpr, g, origin) in nd.attrs:
                    self.leaves.append(Leaf(p, "attr", an, vexpr, self._src(vexpr, fr, lp, nd, g), origin, nd.fn, guards + [self.guard(x, fr, lp) for x in g]))
                for (vexpr, g, origin) in nd.texts:
                    self.leaves.append(Leaf(p, "text", None, vexpr, self._src(vexpr, fr, lp, nd, g), origin, nd.fn, guards + [self.guard(x, fr, lp) for x in g]))
                for ch in nd.children:
                    self._walk_child(ch, fr, lp, p, guards, depth + 1)

    def _src(self, vexpr, frame, loops, node, guards=()):
        s = self.source(vexpr, frame, loops)
        if s is not None and s.startswith("const:") and guards:
            # constant chosen under a test on the domain object: control source
            for t, _pol in list(guards):
                try:
                    te = ast.parse(t, mode="eval").body
                except SyntaxError:
                    continue
                if attr_chain(te):
                    cs = self.source(te, frame, loops)
                    if cs and not cs.startswith("const:"):
                        return "ctrl:" + cs
            return s
        # instance attributes (self.x of a Point built from arguments)
        if s and s.startswith("self.") and frame is not None:
            key = s.split(".")[0] + "." + s.split(".")[1]
            if key in frame.binds and frame.binds[key] is not None:
                b = frame.binds[key]
                return self.source(b[0], frame.parent, b[1])
            if "self.*" in frame.binds:
                b = frame.binds["self.*"]
                base = self.source(b[0], frame.parent, b[1])
                return base
        return s

    def guard(self, g, frame, loops):
        if isinstance(g, Guard) or not (isinstance(g, tuple) and len(g) >= 2 and isinstance(g[0], str)):
            return g
        out = Guard(g)
        srcs = set()
        try:
            te = ast.parse(g[0], mode="eval").body
        except SyntaxError:
            return out
        seen = set()
        for n in ast.walk(te):
            if id(n) in seen:
                continue
            if isinstance(n, (ast.Attribute, ast.Name)) and attr_chain(n):
                for x in ast.walk(n):
                    seen.add(id(x))
                try:
                    sv = self.source(n, frame, loops)
                except Exception:
                    sv = None
                if sv and not sv.startswith("const:"):
                    srcs.add(sv)
            elif isinstance(n, ast.Call) and call_name(n) == "getattr" and len(n.args) >= 2:
                try:
                    sv = self.source(n, frame, loops)
                except Exception:
                    sv = None
                if sv and not sv.startswith("const:"):
                    srcs.add(sv)
                    for x in ast.walk(n):
                        seen.add(id(x))
        out.src = frozenset(srcs)
        return out

    def _walk_child(self, ch, frame, loops, path, guards, depth):
        w = ch.what
        lp = loops + list(ch.loops)
        g = guards + [self.guard(x, frame, lp) for x in ch.guards]
        if getattr(ch, "aliases", None) and frame is not None:
            frame = Frame(frame.fn, dict(frame.binds, **{k: (v, loops, "alias") for k, v in ch.aliases.items()}), frame.parent)
        if isinstance(w, tuple) and w[0] == "via":
            cr, inner = w[1], w[2]
            fr = self.frame_for(cr, frame, lp)
            self._walk_child(inner, fr, [], path, g, depth + 1)
            return
        self._walk_value(w, frame, lp, path, g, depth + 1)

"""Index pairing of the goal-lanelet table: GoalRegion(state_list, table) needs table keys to be the positions of the
goal states in state_list.  Used by C01 (XML reader) and C02 (protobuf reader, both writers)."""
import ast

from .core import AnalysisError, call_name, canon, norm, walk_no_nested
from .dataflow import ReachingDefs


def goal_table_keys(fn):
    """[(key expr, store node, ok, why)] for the function that builds GoalRegion(L, D) in a loop"""
    ctor = [c for c in walk_no_nested(fn) if isinstance(c, ast.Call) and call_name(c) == "GoalRegion" and len(c.args) + len(c.keywords) >= 2]
    if not ctor:
        raise AnalysisError("%s does not construct a GoalRegion(state_list, lanelets)" % fn.name)
    c = ctor[0]
    args = list(c.args) + [k.value for k in c.keywords]
    if not (isinstance(args[0], ast.Name) and isinstance(args[1], ast.Name)):
        raise AnalysisError("GoalRegion(..) arguments are not plain locals in %s" % fn.name)
    L, D = args[0].id, args[1].id
    loops = [lp for lp in walk_no_nested(fn) if isinstance(lp, ast.For) and any(isinstance(x, ast.Call) and isinstance(x.func, ast.Attribute) and x.func.attr == "append" and norm(x.func.value) == L for x in ast.walk(lp))]
    if len(loops) != 1:
        raise AnalysisError("%s: expected one loop appending to %s" % (fn.name, L))
    lp = loops[0]
    idx_var = None
    if isinstance(lp.iter, ast.Call) and call_name(lp.iter) == "enumerate" and isinstance(lp.target, ast.Tuple) and len(lp.iter.args) == 1:
        idx_var = norm(lp.target.elts[0])
    # position of the append among the top-level statements of the loop body
    def top_index(node):
        for i, st in enumerate(lp.body):
            if any(x is node for x in ast.walk(st)):
                return i
        return None

    appends = [x for x in ast.walk(lp) if isinstance(x, ast.Call) and isinstance(x.func, ast.Attribute) and x.func.attr == "append" and norm(x.func.value) == L]
    if len(appends) != 1:
        raise AnalysisError("%s: %d appends to %s inside the loop" % (fn.name, len(appends), L))
    app_i = top_index(appends[0])
    out = []
    for x in ast.walk(lp):
        key = None
        if isinstance(x, ast.Subscript) and norm(x.value) == D and (isinstance(x.ctx, ast.Store) or isinstance(getattr(x, "ctx", None), ast.Load)):
            key = x.slice
        elif isinstance(x, ast.Call) and isinstance(x.func, ast.Attribute) and x.func.attr in ("update", "setdefault") and norm(x.func.value) == D and x.args:
            a = x.args[0]
            if isinstance(a, ast.Dict) and len(a.keys) == 1:
                key = a.keys[0]
            elif x.func.attr == "setdefault":
                key = a
        if key is None:
            continue
        t = norm(key)
        pos = top_index(x)
        if idx_var is not None and t == idx_var:
            ok, why = True, "enumerate index of the goal-state loop"
        elif t == "len(%s) - 1" % L and pos is not None and app_i is not None and pos >= app_i and (pos > app_i or _after(lp.body[pos], appends[0], x)):
            ok, why = True, "position of the state just appended"
        elif t == "len(%s)" % L and pos is not None and app_i is not None and pos < app_i:
            ok, why = True, "position the state is about to get"
        else:
            ok, why = False, "key %s is not the position of the goal state in %s" % (t, L)
        out.append((key, x, ok, why))
    if not out:
        raise AnalysisError("%s: no store into the goal-lanelet table %s found" % (fn.name, D))
    return out


def _after(stmt, first, second):
    order = [id(n) for n in ast.walk(stmt)]
    try:
        return order.index(id(first)) < order.index(id(second))
    except ValueError:
        return True


def writer_goal_keys(fn, table_attr="lanelets_of_goal_position"):
    """[(subscript node, ok)] — the writer must look the table up with the enumerate index of goal.state_list
    (locals that alias the table or the goal region are seen through)"""
    out = []
    rd = ReachingDefs(fn)

    def cn(e, at=None):
        return canon(e, rd, at if at is not None else rd.stmt_of(e), [])

    loops = [lp for lp in walk_no_nested(fn) if isinstance(lp, ast.For) and isinstance(lp.iter, ast.Call) and call_name(lp.iter) == "enumerate" and lp.iter.args and cn(lp.iter.args[0], lp).endswith("state_list")]
    if len(loops) != 1 or not isinstance(loops[0].target, ast.Tuple):
        raise AnalysisError("%s: expected one enumerate loop over the goal state list" % fn.name)
    iv = norm(loops[0].target.elts[0])
    for x in ast.walk(loops[0]):
        if isinstance(x, ast.Subscript) and cn(x.value).endswith(table_attr):
            out.append((x, norm(x.slice) == iv))
        if isinstance(x, ast.Compare) and len(x.ops) == 1 and isinstance(x.ops[0], ast.In) and cn(x.comparators[0]).endswith(table_attr):
            out.append((x, norm(x.left) == iv))
        if isinstance(x, ast.Call) and isinstance(x.func, ast.Attribute) and x.func.attr == "get" and cn(x.func.value).endswith(table_attr) and x.args:
            out.append((x, norm(x.args[0]) == iv))
    if not out:
        raise AnalysisError("%s: the goal-lanelet table is never consulted" % fn.name)
    # what is handed on for goal state i must be determined in iteration i: a local that also has a definition
    # outside the loop reaching its use is carried over from an earlier goal state on the paths that skip the store
    body_nodes = {id(n) for st in loops[0].body for n in ast.walk(st)}
    elem = norm(loops[0].target.elts[1])
    for c in ast.walk(loops[0]):
        if isinstance(c, ast.Call) and any(norm(a) == elem for a in c.args):
            st = rd.stmt_of(c)
            for a in list(c.args) + [k.value for k in c.keywords]:
                if isinstance(a, ast.Name) and a.id != elem and a.id != iv:
                    ds = rd.defs(a.id, st)
                    inside = [d for d in ds if d.stmt is not None and id(d.stmt) in body_nodes]
                    if inside and len(inside) != len(ds):
                        out.append((a, False))
    return out


def writer_goal_pairs(repo, cls, fn, goal_builder, other_stubs=()):
    """Writer side of the goal-lanelet pairing, by abstract evaluation: the planning-problem builder is evaluated on a
    problem with three goal states of which the first and the last have goal lanelets; `goal_builder`
    ("Class.method", stubbed) must be called once per goal state, in order, with that state and exactly its own
    lanelets (none for the state without).  Returns a list of problems (empty = fine)."""
    from .strdom import NONE, ClassRef, DictV, ElemV, Ev, ListV, Obj, Str, Sym, Undecided, _Raise, same, show

    out = []
    for with_table in (True, False):
        goals = [Obj(None, {"time_step": Sym("goal_time_%d" % i, "num")}, label="goal state %d" % i) for i in range(3)]
        table = {0: ListV([101, 102]), 2: ListV([303])}
        goal = Obj(None, {"state_list": ListV(goals), "lanelets_of_goal_position": DictV(table) if with_table else NONE}, closed=True, label="goal region")
        init = Obj(None, {"time_step": Sym("initial_time", "num")}, label="initial state")
        pp = Obj(None, {"planning_problem_id": Sym("planning_problem_id", "int", positive=True), "initial_state": init, "goal": goal}, closed=True, label="planning problem")
        calls = []
        ev = Ev(repo)
        ev.pure_modules = {"np", "numpy", "math"}

        def record(a):
            vals = [v for k, v in a.items() if not isinstance(v, ClassRef)]
            calls.append(vals)
            return ElemV(Str.lit("goalState"))

        ev.stubs[goal_builder] = record
        for nm in other_stubs:
            ev.stubs[nm] = lambda a: ElemV(Str.lit("stub"))
        try:
            ev.call_fn(ev.bind(fn, cls, None, via_class=ClassRef(cls)), [pp], {}, fn)
        except _Raise as x:
            out.append("%s goal lanelets: raises %s" % ("with" if with_table else "without", x.what))
            continue
        except Undecided as x:
            from .core import AnalysisError

            raise AnalysisError("%s.%s: %s" % (cls.name, fn.name, x))
        if len(calls) != 3 or any(not c or c[0] is not g for c, g in zip(calls, goals)):
            out.append("%s goal lanelets: the goal-state builder is called for %s, expected once per goal state in order" % ("with" if with_table else "without", [show(c[0]) if c else None for c in calls]))
            continue
        for i, c in enumerate(calls):
            want = table.get(i) if with_table else None
            got = c[1] if len(c) > 1 else None
            okk = (got is want) if want is not None else (isinstance(got, ListV) and not got.items) or got is NONE or got is None
            if not okk:
                out.append("%s goal lanelets: goal state %d is written with lanelets %s, its own are %s" % ("with" if with_table else "without", i, show(got), show(want) if want is not None else "none"))
    return out

"""C19 — rendering is total and shows the model at the selected time.

Only the clauses whose truth is in the shape of the code are decided (stated in the evidence):

P-PROPAGATE  BaseParam.__setattr__ evaluated on a tree of parameter groups: a value reaches, unmodified, exactly the
             groups that declare the name (nothing below a group that is not initialised); __post_init__ switches
             propagation on and re-assigns every public BaseParam field; no subclass overrides these hooks
D-BUFFER     MPRenderer.clear evaluated with and without keep_static_artists: the per-frame buffers are empty afterwards
P-DECL       every parameter class is a @dataclass deriving from BaseParam, every parameter-typed field is created by
             a default_factory yielding that type (no shared instances, no undecorated class whose fields would be
             silently ignored by __setattr__)
D-FIELDS     every attribute chain read from a draw-parameter object in the renderer exists in the declared
             parameter classes (a missing field raises AttributeError for every scenario)
D-GROUP      each draw_* method selects the parameter group named by its annotation both from the renderer default
             and from a top-level MPDrawParams; draw_scenario hands each obstacle class its own group
D-NULLSAFE   in the obstacle drawing methods results of queries annotated as possibly None are dereferenced only
             under a dominating not-None test
D-TIME       static, phantom and environment drawers, evaluated on obstacle models that record what is asked and
             drawn: exactly the occupancies of the selected time steps (time_begin; for set-based predictions the
             steps of [time_begin, time_end)) are drawn once each with the occupancy parameters; the long
             draw_dynamic_obstacle keeps the structural form of the rule (canonicalised time arguments)
D-PATCH      draw_polygon / draw_rectangle / draw_ellipse, evaluated: one closed matplotlib polygon of exactly the
             given vertices; an ellipse at the centre that is 2 * radius_x wide and 2 * radius_y high
D-LANELETS   draw_lanelet_network iterates all lanelets of the network and skips exactly those not in draw_ids
"""
import ast

from ..core import AnalysisError, Finding, attr_chain, call_name, canon, dominating_guards, guard_says_not_none, norm, walk_no_nested
from ..dataflow import ReachingDefs
from ..effects import Effects, FnKey, type_names

DP = "commonroad/visualization/draw_params.py"
MP = "commonroad/visualization/mp_renderer.py"

OBSTACLE_DRAWERS = ["draw_static_obstacle", "draw_dynamic_obstacle", "draw_phantom_obstacle", "draw_environment_obstacle", "_draw_history", "_draw_occupancy"]


def param_classes(repo):
    m = repo.mod(DP)
    base = m.classes.get("BaseParam")
    if base is None:
        raise AnalysisError("BaseParam missing")
    out = {}
    for c in m.classes.values():
        if any(b.name == "BaseParam" for b in repo.mro(c)):
            out[c.name] = c
    return m, base, out


def fields_of(repo, c):
    f = {}
    for k in reversed(repo.mro(c)):
        for a, ann in k.annotations.items():
            f[a] = ann
    return f


# --------------------------------------------------------------------------- P-PROPAGATE / P-DECL


def buffer_rule(repo, res, RULE="D-BUFFER"):
    """MPRenderer.clear, evaluated with and without keep_static_artists: what one frame has put into the per-frame
    buffers (obstacle patches, dynamic artists / collections / labels, traffic signs) is gone afterwards in both cases —
    a renderer reused for the next time window otherwise draws the shapes of the earlier steps again; the static
    buffers are kept exactly when asked."""
    from ..strdom import Ev, Lenient, ListV, Obj, Str, Undecided, _Raise, show

    r = repo.cls(MP, "MPRenderer")
    fn = r.methods.get("clear")
    if fn is None:
        raise AnalysisError("MPRenderer.clear missing")
    PER_FRAME = ("obstacle_patches", "dynamic_artists", "dynamic_collections", "dynamic_labels", "traffic_signs")  # confirmed by reading: filled by the draw_* methods of one frame
    STATIC = ("static_artists", "static_collections")
    for keep in (True, False):
        fields = {k: ListV([Str.lit("left over from the last frame")]) for k in PER_FRAME + STATIC}
        fields["traffic_sign_artists"] = ListV([Str.lit("left over from the last frame")])
        fields["draw_params"] = Lenient("draw_params")
        me = Obj(r, fields, label="renderer")
        ev = Ev(repo)
        ev.pure_modules = {"np", "numpy", "math"}
        bad = []
        try:
            ev.call_fn(ev.bind(fn, r, me), [], {"keep_static_artists": keep}, fn)
            for k in PER_FRAME:
                v = me.fields.get(k)
                if not (isinstance(v, ListV) and not v.items):
                    bad.append("%s still holds %s" % (k, show(v)))
            for k in STATIC:
                v = me.fields.get(k)
                if keep and not (isinstance(v, ListV) and v.items):
                    bad.append("%s was emptied although the static artists were to be kept" % k)
                if not keep and not (isinstance(v, ListV) and not v.items):
                    bad.append("%s still holds %s" % (k, show(v)))
        except _Raise as x:
            bad.append("raises %s" % x.what)
        except Undecided as x:
            raise AnalysisError("MPRenderer.clear [keep_static_artists=%s]: %s" % (keep, x))
        res.check(RULE, "MPRenderer.clear [keep_static_artists=%s]: the per-frame buffers are empty afterwards" % keep, not bad, r.mod, fn, "MPRenderer.clear [keep_static_artists=%s]: %s" % (keep, "; ".join(bad[:3])), "what an earlier frame drew stays in the renderer: the next time window shows the occupancies of earlier time steps as well", qualname="MPRenderer.clear")


def propagate_cases(repo, res, m, base, sa):
    """BaseParam.__setattr__, evaluated on a tree of parameter groups

        top {a, b} -> left {a} -> leaf {a, c}
                   -> right {b} -> deep {a}          (and a group that is not initialised yet, with a child)

    for a name declared somewhere and a name declared nowhere: afterwards the value is stored in exactly the groups
    that declare the name — the assigned group itself and every group below an initialised group —, unmodified, and
    nowhere else; below a group that is not initialised nothing is forwarded."""
    from ..strdom import NONE, Ev, ListV, Obj, Str, Sym, Undecided, _Raise, show

    qn = "BaseParam.__setattr__"

    def world():
        declared = {}

        def group(label, names, initialised=True, **children):
            o = Obj(base, {}, label=label)
            o.fields["_BaseParam__initialized"] = initialised
            o.fields["__initialized"] = initialised
            for k, v in children.items():
                o.fields[k] = v
            o.fields["plain"] = 7  # a value that is no group
            declared[id(o)] = set(names) | set(children)
            return o

        deep = group("deep", {"a"})
        leaf = group("leaf", {"a", "c"})
        left = group("left", {"a"}, child=leaf)
        right = group("right", {"b"}, child=deep)
        orphan_child = group("below the uninitialised group", {"a"})
        raw = group("uninitialised group", {"a"}, initialised=False, child=orphan_child)
        top = group("top", {"a", "b"}, left=left, right=right, raw=raw)
        return top, [top, left, leaf, right, deep, raw, orphan_child], declared

    for name in ("a", "b", "c", "zz"):
        top, groups, declared = world()
        ev = Ev(repo)
        ev.pure_modules = {"math"}
        ev.model_calls["dataclasses.fields"] = ev.model_calls["fields"] = lambda a, k, declared=declared: ListV([Obj(None, {"name": Str.lit(n)}, closed=True, label="field %s" % n) for n in sorted(declared.get(id(a[0]), ()))])
        value = Sym("value", "num")
        bad = []
        try:
            ev.call_fn(ev.bind(sa, base, top), [Str.lit(name), value], {}, sa)
            reach = {id(g) for g in groups[:5]} | {id(groups[5])}  # everything but the group below the uninitialised one
            for g in groups:
                got = g.fields.get(name, None)
                want = id(g) in reach and name in declared[id(g)]
                if want and got is not value:
                    bad.append("%s declares %s and %s" % (g.label, name, "did not receive it" if got is None else "received %s" % show(got)))
                elif not want and got is not None:
                    bad.append("%s got %s = %s although it %s" % (g.label, name, show(got), "does not declare it" if name not in declared[id(g)] else "lies below a group that is not initialised"))
        except _Raise as x:
            bad.append("raises %s" % x.what)
        except Undecided as x:
            raise AnalysisError("%s [%s]: %s" % (qn, name, x))
        res.check("P-PROPAGATE", "%s [name %r]: stored, unmodified, in exactly the groups of the tree that declare it" % (qn, name), not bad, m, sa, "%s [name %r]: %s" % (qn, name, "; ".join(bad[:3])), "a parameter set on a group does not reach every nested group that declares it (or reaches a group that does not, or arrives modified): a time window set at the top level does not reach every drawn object", qualname=qn)



def propagate(repo, res):
    m, base, classes = param_classes(repo)
    sa = base.methods.get("__setattr__")
    pi = base.methods.get("__post_init__")
    if sa is None or pi is None:
        res.bad("P-PROPAGATE", "BaseParam hooks", Finding("P-PROPAGATE", m, base.node, "BaseParam lacks __setattr__/__post_init__", "nothing forwards a parameter to nested groups", qualname="BaseParam"))
        return
    ps = [a.arg for a in sa.args.args]
    if len(ps) != 3:
        raise AnalysisError("BaseParam.__setattr__ signature changed")
    propagate_cases(repo, res, m, base, sa)
    # __post_init__
    public = [a for a in base.annotations if not a.startswith("_")]
    stmts = pi.body
    flag_idx = [i for i, s in enumerate(stmts) if isinstance(s, ast.Assign) and isinstance(s.targets[0], ast.Attribute) and "initialized" in s.targets[0].attr and isinstance(s.value, ast.Constant) and s.value.value is True]
    res.check("P-PROPAGATE", "__post_init__ switches propagation on", len(flag_idx) == 1, m, pi, "initialised flag set %d times" % len(flag_idx), "propagation never becomes active", qualname="BaseParam.__post_init__")
    for a in public:
        idx = [i for i, s in enumerate(stmts) if isinstance(s, ast.Assign) and norm(s.targets[0]) == "self." + a and norm(s.value) == "self." + a]
        ok = bool(idx) and bool(flag_idx) and min(idx) > flag_idx[0]
        res.check("P-PROPAGATE", "__post_init__ re-assigns BaseParam.%s after switching propagation on" % a, ok, m, pi, "self.%s = self.%s %s" % (a, a, "missing" if not idx else "before the flag"), "a %s given to the constructor of a group is not handed to its nested groups" % a, qualname="BaseParam.__post_init__")
    # item assignment takes the propagating path too, and nothing else stores fields behind __setattr__'s back
    si = base.methods.get("__setitem__")
    if si is not None:
        kp, vp = [a.arg for a in si.args.args][1:3]
        fwd = [c for c in walk_no_nested(si) if isinstance(c, ast.Call) and ((norm(c.func) == "self.__setattr__" and [norm(a) for a in c.args] == [kp, vp]) or (call_name(c) == "setattr" and [norm(a) for a in c.args] == ["self", kp, vp]))]
        res.check("P-PROPAGATE", "__setitem__ assigns through the propagating __setattr__", len(fwd) == 1, m, si, "__setitem__: %s" % " ; ".join(norm(x) for x in si.body)[:120], "params[name] = value does not reach the nested groups", qualname="BaseParam.__setitem__")
    for c in m.classes.values():
        for mn, fn in c.methods.items():
            if c is base and mn == "__setattr__":
                continue
            for x in walk_no_nested(fn):
                raw = isinstance(x, ast.Call) and ((isinstance(x.func, ast.Attribute) and x.func.attr == "__setattr__" and isinstance(x.func.value, ast.Call) and call_name(x.func.value) in ("super", "object")) or call_name(x) == "object.__setattr__")
                raw = raw or (isinstance(x, ast.Subscript) and isinstance(x.ctx, ast.Store) and norm(x.value) in ("self.__dict__", "vars(self)"))
                if raw:
                    res.bad("P-PROPAGATE", "%s.%s stores fields directly" % (c.name, mn), Finding("P-PROPAGATE", m, x, "%s.%s: %s" % (c.name, mn, norm(x)[:80]), "a field is stored behind the back of the propagating __setattr__: nested groups do not receive the value", qualname="%s.%s" % (c.name, mn)))
    for c in classes.values():
        if c is base:
            continue
        for h in ("__setattr__", "__post_init__", "__init__", "__getattribute__"):
            res.check("P-PROPAGATE", "%s does not override %s" % (c.name, h), h not in c.methods, m, c.methods.get(h, c.node), "%s.%s" % (c.name, h), "a subclass replaces the propagation hook", qualname=c.name)
    # P-DECL
    for c in m.classes.values():
        if not c.annotations:
            continue
        if c.name in ("BaseParam",) or c.name in classes:
            res.check("P-DECL", "%s is a dataclass" % c.name, c.is_dataclass, m, c.node, "class %s without @dataclass" % c.name, "its fields are not dataclass fields: BaseParam.__setattr__ ignores assignments to them", qualname=c.name)
        else:
            res.check("P-DECL", "%s derives from BaseParam" % c.name, False, m, c.node, "class %s(%s)" % (c.name, ", ".join(c.bases)), "a parameter group outside the BaseParam hierarchy receives no propagated values", qualname=c.name)
    n = 0
    for c in classes.values():
        for st in c.node.body:
            if not isinstance(st, ast.AnnAssign) or not isinstance(st.target, ast.Name):
                continue
            tnames = [t for t in type_names(st.annotation) if t in m.classes]
            if not tnames:
                continue
            n += 1
            ok_t = all(t in classes for t in tnames)
            res.check("P-DECL", "%s.%s: %s is a BaseParam" % (c.name, st.target.id, tnames), ok_t, m, st, "%s.%s: %s" % (c.name, st.target.id, norm(st.annotation)), "a nested group that is no BaseParam never receives propagated values", qualname=c.name)
            v = st.value
            made = None
            if isinstance(v, ast.Call) and call_name(v) in ("field", "dataclasses.field"):
                for kw in v.keywords:
                    if kw.arg == "default_factory":
                        f = kw.value
                        if isinstance(f, ast.Name):
                            made = f.id
                        elif isinstance(f, ast.Lambda) and isinstance(f.body, ast.Call):
                            made = call_name(f.body)
            ok = made is not None and made in classes and any(b.name == tnames[0] for b in repo.mro(classes[made]))
            res.check("P-DECL", "%s.%s is created per instance by a factory of its type" % (c.name, st.target.id), ok, m, st, "%s.%s = %s" % (c.name, st.target.id, norm(v) if v is not None else "<none>"), "the nested group is missing, shared between instances, or of another type than declared", qualname=c.name)
    if n < 40:
        raise AnalysisError("only %d parameter-typed fields found (40+ confirmed)" % n)
    return classes


# --------------------------------------------------------------------------- renderer rules


def group_class_of(fn, classes):
    """parameter class named by the annotation of the draw_params parameter"""
    for a in fn.args.args + fn.args.kwonlyargs:
        if a.arg == "draw_params" and a.annotation is not None:
            names = [n for n in type_names(a.annotation) if n in classes and n != "MPDrawParams"]
            if "MPDrawParams" in type_names(a.annotation) and not names:
                return "MPDrawParams"
            if names:
                return names[0]
    return None


def renderer(repo, res, classes):
    m = repo.mod(MP)
    r = m.classes.get("MPRenderer")
    if r is None:
        raise AnalysisError("MPRenderer missing")
    eff = Effects(repo)
    top = fields_of(repo, classes["MPDrawParams"])

    def type_of_chain(cls_name, chain):
        """class name reached by following `chain` of attribute names from cls_name; None if a name is missing;
        '' if a leaf (non-parameter) value is reached"""
        cur = cls_name
        for i, a in enumerate(chain):
            if cur == "":
                return ""  # attribute of a plain value (str.lower ..): not ours
            f = fields_of(repo, classes[cur])
            if a not in f:
                if a in classes[cur].methods or any(a in k.methods for k in repo.mro(classes[cur])):
                    return ""
                return None
            tn = [t for t in type_names(f[a]) if t in classes]
            cur = tn[0] if tn else ""
        return cur

    def declared_below(cls_name, field, seen):
        if cls_name in seen or cls_name not in classes:
            return False
        seen.add(cls_name)
        f = fields_of(repo, classes[cls_name])
        if field in f:
            return True
        for ann in f.values():
            for t in type_names(ann):
                if t in classes and declared_below(t, field, seen):
                    return True
        return False

    n_chain = 0
    for name, fn in r.methods.items():
        if not (name.startswith("draw_") or name.startswith("_draw_")):
            continue
        g = group_class_of(fn, classes)
        if g is None:
            continue
        qn = "MPRenderer." + name
        # --- D-GROUP: prelude
        sel = [s for s in fn.body if isinstance(s, ast.If) and isinstance(s.test, ast.Compare) and norm(s.test.left) == "draw_params" and isinstance(s.test.ops[0], ast.Is)]
        if g != "MPDrawParams" and sel:
            s = sel[0]
            picks = []
            for blk in (s.body, s.orelse):
                for st in ast.walk(ast.Module(body=blk, type_ignores=[])):
                    if isinstance(st, ast.Assign) and norm(st.targets[0]) == "draw_params":
                        picks.append(norm(st.value))
            chains = [p.split(".") for p in picks]
            rel = [c[2:] if c[:2] == ["self", "draw_params"] else c[1:] for c in chains]
            ok = len(picks) == 2 and rel[0] == rel[1] and bool(rel[0]) and chains[0][:2] == ["self", "draw_params"] and chains[1][0] == "draw_params"
            tn = type_of_chain("MPDrawParams", rel[0]) if ok else None
            res.check("D-GROUP", "%s selects one group from default and top-level parameters" % name, ok, m, s, "%s picks %s" % (name, picks), "default and explicitly passed parameters select different groups", qualname=qn)
            res.check("D-GROUP", "%s selects the group of its declared type %s" % (name, g), tn == g, m, s, "%s: MPDrawParams.%s is %s, declared %s" % (name, ".".join(rel[0]) if rel else "?", tn, g), "the method works on a parameter group of another kind than it is written for", qualname=qn)
        # --- D-FIELDS
        if g == "MPDrawParams" and not sel:
            start = "MPDrawParams"
        else:
            start = g
        rd = ReachingDefs(fn)
        local_types = {}
        for st in walk_no_nested(fn):
            if isinstance(st, ast.Assign) and len(st.targets) == 1 and isinstance(st.targets[0], ast.Name):
                v = st.value
                if isinstance(v, ast.Call) and call_name(v) in ("deepcopy", "copy.deepcopy", "copy.copy") and v.args:
                    v = v.args[0]
                ch = attr_chain(v)
                if ch and ch[0] == "draw_params" and len(ch) > 1 and st.targets[0].id != "draw_params":
                    t = type_of_chain(start, ch[1:])
                    if t:
                        local_types[st.targets[0].id] = t
        prelude = set()
        for s in sel[:1]:
            prelude = {id(x) for x in ast.walk(s)}
        for a in ast.walk(fn):
            if not isinstance(a, ast.Attribute) or id(a) in prelude:
                continue
            par = m.parent.get(a)
            if isinstance(par, ast.Attribute) and par.value is a:
                continue  # not the outermost attribute of the chain
            ch = attr_chain(a)
            if not ch:
                continue
            if ch[0] == "draw_params" and len(ch) > 1:
                base, rest = start, ch[1:]
            elif ch[0] in local_types and len(ch) > 1:
                base, rest = local_types[ch[0]], ch[1:]
            else:
                continue
            if isinstance(par, ast.Call) and par.func is a:
                rest = rest[:-1]  # method call on the value
                if not rest:
                    continue
            n_chain += 1
            if isinstance(a.ctx, ast.Store):
                # an assignment is stored where declared and forwarded to nested groups: some group below must declare it
                holder = type_of_chain(base, rest[:-1]) if len(rest) > 1 else base
                ok = bool(holder) and declared_below(holder, rest[-1], set())
                res.check("D-FIELDS", "%s: assignment %s reaches a declaring group" % (name, ".".join(ch)), ok, m, a, "%s assigns %s of a %s" % (name, ".".join(ch), base), "no group at or below the target declares this parameter: the assignment is silently dropped", qualname=qn)
                continue
            t = type_of_chain(base, rest)
            res.check("D-FIELDS", "%s: %s exists in %s" % (name, ".".join(ch), base), t is not None, m, a, "%s reads %s of a %s" % (name, ".".join(ch), base), "the parameter group has no such field: drawing raises AttributeError", qualname=qn)
    if n_chain < 120:
        raise AnalysisError("only %d parameter reads found in the renderer (120+ confirmed)" % n_chain)

    # --- D-GROUP: draw_scenario dispatch
    fn = r.methods.get("draw_scenario")
    if fn is None:
        raise AnalysisError("draw_scenario missing")
    # decided by abstract evaluation: a scenario with one obstacle of every kind and a lanelet network is drawn, with
    # parameters passed and with the renderer's own; every object must be drawn exactly once with the renderer itself
    # and the parameter group of its kind (MPDrawParams field whose declared type is that kind's parameter class)
    from ..strdom import NONE, Ev, ListV, Obj, PyFunc, Undecided, _Raise, show

    want = {"DynamicObstacle": "DynamicObstacleParams", "StaticObstacle": "StaticObstacleParams", "EnvironmentObstacle": "EnvironmentObstacleParams", "PhantomObstacle": "PhantomObstacleParams", "LaneletNetwork": "LaneletNetworkParams"}
    group_of = {}
    for fld, ann in top.items():
        for t in type_names(ann):
            if t in want.values():
                group_of.setdefault(t, []).append(fld)
    if any(len(group_of.get(t, [])) != 1 for t in want.values()):
        raise AnalysisError("MPDrawParams: parameter groups of the obstacle kinds not found uniquely: %s" % group_of)
    omod = repo.mod("commonroad/scenario/obstacle.py")
    lmod = repo.mod("commonroad/scenario/lanelet.py")
    for passed in (True, False):
        drawn = []

        def drawer(label):
            return PyFunc(lambda a, k, label=label: (drawn.append((label, list(a) + list(k.values()))), NONE)[1], "draw")

        def params(tag):
            return Obj(None, {f: Obj(None, {}, closed=True, label="%s.%s" % (tag, f)) for f in top}, closed=True, label=tag)

        given, own = params("passed parameters"), params("renderer parameters")
        obs = [Obj(omod.classes[cn], {"draw": drawer(cn)}, label=cn) for cn in ("StaticObstacle", "DynamicObstacle", "PhantomObstacle", "EnvironmentObstacle")]
        net = Obj(lmod.classes["LaneletNetwork"], {"draw": drawer("LaneletNetwork")}, label="LaneletNetwork")
        scen = Obj(None, {"obstacles": ListV(obs), "lanelet_network": net, "_lanelet_network": net}, closed=True, label="scenario")
        me = Obj(r, {"draw_params": own}, label="renderer")
        ev = Ev(repo)
        label = "parameters passed" if passed else "renderer's own parameters"
        bad = []
        try:
            ev.call_fn(ev.bind(fn, r, me), [scen, given if passed else NONE], {}, fn)
            src = given if passed else own
            for cn in want:
                hits = [a for l, a in drawn if l == cn]
                if len(hits) != 1:
                    bad.append("%s is drawn %d times" % (cn, len(hits)))
                    continue
                a = hits[0]
                exp = src.fields[group_of[want[cn]][0]]
                if len(a) != 2 or a[0] is not me or a[1] is not exp:
                    bad.append("%s is drawn with %s, expected (renderer, %s)" % (cn, [show(x) for x in a], show(exp)))
        except _Raise as x:
            bad.append("raises %s" % x.what)
        except Undecided as x:
            raise AnalysisError("MPRenderer.draw_scenario [%s]: %s" % (label, x))
        res.check("D-GROUP", "draw_scenario [%s]: every obstacle kind and the lanelet network drawn once with the parameter group of its kind" % label, not bad, m, fn, "draw_scenario [%s]: %s" % (label, "; ".join(bad[:3])), "an obstacle kind (or the lanelet network) is not drawn, drawn twice, or drawn with the parameters of another kind", qualname="MPRenderer.draw_scenario")

    # --- D-NULLSAFE and D-TIME
    n_calls = 0
    for name in OBSTACLE_DRAWERS:
        fn = r.methods.get(name)
        if fn is None:
            raise AnalysisError("renderer method %s missing" % name)
        fk = FnKey(r, fn, m)
        qn = "MPRenderer." + name
        rd = ReachingDefs(fn)
        for c in ast.walk(fn):
            if not (isinstance(c, ast.Call) and isinstance(c.func, ast.Attribute)):
                continue
            cands, mode, recv = eff.resolve_call(fk, c)
            if mode not in ("typed", "exact") or not cands:
                continue
            nullable = False
            for k in cands:
                rt = k.fn.returns
                if rt is not None and ("None" in norm(rt) or "Optional" in norm(rt)):
                    nullable = True
            if not nullable:
                continue
            n_calls += 1
            par = m.parent.get(c)
            derefs = []
            if isinstance(par, ast.Attribute) and par.value is c:
                derefs.append((par, None))
            elif isinstance(par, ast.Subscript) and par.value is c:
                derefs.append((par, None))
            elif isinstance(par, ast.Assign) and len(par.targets) == 1 and isinstance(par.targets[0], ast.Name):
                v = par.targets[0].id
                for u in ast.walk(fn):
                    if isinstance(u, (ast.Attribute, ast.Subscript)) and isinstance(u.value, ast.Name) and u.value.id == v and isinstance(u.value.ctx, ast.Load):
                        ds = rd.defs(v, u)
                        if any(d.stmt is par for d in ds):
                            derefs.append((u, v))
            for u, v in derefs:
                if v is None:
                    ok = False
                else:
                    guards = dominating_guards(m, u, stop=fn)
                    ok = guard_says_not_none(guards, v)
                res.check("D-NULLSAFE", "%s: result of %s used only when present" % (name, norm(c.func)), ok, m, u, "%s dereferences %s" % (name, norm(u)), "%s may answer None (obstacle without occupancy / state at that time step): drawing raises AttributeError" % norm(c.func), qualname=qn)
    if n_calls < 8:
        raise AnalysisError("only %d nullable query calls found in the obstacle drawers (8+ confirmed)" % n_calls)

    # the three short drawers are decided by evaluation: which time steps are asked of the model, and what is drawn
    from ..strdom import Lenient, Str

    TB, TE = 3, 7  # an adversarially unspecial window: begin and end differ from 0, 1 and from each other by more than one
    dmod = repo.mod("commonroad/visualization/draw_params.py")

    def time_world(kind, group, draw_shape, draw_occs, present=True):
        asked, drawn = [], []

        def occupancy_at_time(a, k):
            t = a[0] if a else k.get("time_step")
            asked.append(t)
            if not present:
                return NONE
            return Obj(None, {"draw": PyFunc(lambda a2, k2, t=t: (drawn.append((t, list(a2) + list(k2.values()))), NONE)[1], "draw")}, closed=True, label="occupancy at %s" % show(t))

        occ_params = Obj(None, {"draw_occupancies": draw_occs}, closed=False, label="occupancy parameters")
        gp = Obj(dmod.classes.get(group), {"time_begin": TB, "time_end": TE, "draw_shape": draw_shape, "occupancy": occ_params}, label="parameters")
        st = Obj(None, {"is_uncertain_position": False}, closed=True, label="initial state")
        ob = Obj(omod.classes[kind], {"occupancy_at_time": PyFunc(occupancy_at_time, "occupancy_at_time"), "initial_state": st}, label=kind)
        return ob, gp, occ_params, asked, drawn

    for name, kind, group, cases in (
        ("draw_static_obstacle", "StaticObstacle", "StaticObstacleParams", [(True, False, [TB])]),
        ("draw_environment_obstacle", "EnvironmentObstacle", "EnvironmentObstacleParams", [(True, False, [TB])]),
        ("draw_phantom_obstacle", "PhantomObstacle", "PhantomObstacleParams", [(True, True, list(range(TB, TE))), (True, False, [TB]), (False, True, list(range(TB, TE))), (False, False, [])]),
    ):
        fn = r.methods[name]
        qn = "MPRenderer." + name
        for draw_shape, draw_occs, want_steps in cases:
            label = "shape %s, further occupancies %s" % ("on" if draw_shape else "off", "on" if draw_occs else "off") if len(cases) > 1 else "the shape"
            ob, gp, occ_params, asked, drawn = time_world(kind, group, draw_shape, draw_occs)
            me = Obj(r, {"draw_params": Obj(None, {}, closed=True, label="renderer parameters")}, label="renderer")
            ev = Ev(repo)
            ev.pure_modules = {"np", "numpy", "math"}
            bad = []
            try:
                ev.call_fn(ev.bind(fn, r, me), [ob, gp], {}, fn)
                steps = [t for t, _a in drawn]
                if any(not isinstance(t, int) for t in steps) or sorted(steps) != want_steps:
                    bad.append("draws the occupancies at %s, the selected window [%d, %d) with these switches asks for %s" % ([show(t) for t in steps], TB, TE, want_steps))
                for t, a in drawn:
                    if not (len(a) == 2 and a[0] is me and a[1] is occ_params):
                        bad.append("the occupancy at %s is drawn with %s, expected (renderer, occupancy parameters)" % (show(t), [show(x) for x in a]))
                        break
            except _Raise as x:
                bad.append("raises %s" % x.what)
            except Undecided as x:
                raise AnalysisError("%s [%s]: %s" % (qn, label, x))
            res.check("D-TIME", "%s [%s]: exactly the occupancies of the selected time steps are drawn, once each" % (name, label), not bad, m, fn, "%s [%s]: %s" % (name, label, "; ".join(bad[:2])), "the obstacle is shown at another time step than the selected one, or occupancies outside the selected window are drawn", qualname=qn)

    # --- D-PATCH: the shape primitives hand the model's geometry to matplotlib unchanged.  matplotlib's interface is
    # the fixed part: patches.Polygon(xy, closed=..) takes the vertex ring, patches.Ellipse(xy, width, height) takes the
    # centre and the *full* extents along the axes, i.e. twice the radii.
    from ..strdom import Ctor, Sym, linear_of

    def patch_of(name, args, label):
        fn_ = r.methods.get(name)
        if fn_ is None:
            raise AnalysisError("renderer method %s missing" % name)
        me = Obj(r, {"draw_params": Obj(None, {}, closed=True, label="renderer parameters"), "obstacle_patches": ListV([])}, label="renderer")
        sp = Lenient("shape parameters")
        ev = Ev(repo)
        ev.pure_modules = {"np", "numpy", "math", "mpl", "matplotlib"}
        try:
            ev.call_fn(ev.bind(fn_, r, me), list(args) + [sp], {}, fn_)
        except _Raise as x:
            return fn_, None, "raises %s" % x.what
        except Undecided as x:
            raise AnalysisError("MPRenderer.%s: %s" % (name, x))
        ps = me.fields["obstacle_patches"].items
        if len(ps) != 1 or not isinstance(ps[0], Ctor):
            return fn_, None, "adds %s to the obstacle patches" % [show(x) for x in ps]
        return fn_, ps[0], None

    vs = Sym("vertices", "num")
    for name in ("draw_polygon", "draw_rectangle"):
        fn_, pt, bad = patch_of(name, [vs], name)
        if bad is None:
            a = list(pt.args.items())
            closed = pt.args.get("closed", a[1][1] if len(a) > 1 and a[1][0] == "arg1" else True)
            if not (pt.name.endswith("patches.Polygon") and a and a[0][1] is vs):
                bad = "adds %s" % show(pt)
            elif closed is not True:
                bad = "adds an open polyline (closed=%s)" % show(closed)
        res.check("D-PATCH", "%s: one closed matplotlib polygon of exactly the given vertices" % name, bad is None, m, fn_, "%s %s" % (name, bad), "the drawn outline is not the vertex ring of the shape", qualname="MPRenderer." + name)
    c_, rx, ry = Sym("center", "num"), Sym("radius_x", "num"), Sym("radius_y", "num")
    fn_, pt, bad = patch_of("draw_ellipse", [c_, rx, ry], "draw_ellipse")
    if bad is None:
        a = pt.args
        xy = a.get("xy", a.get("arg0"))
        w, h = a.get("width", a.get("arg1")), a.get("height", a.get("arg2"))
        if not pt.name.endswith("patches.Ellipse") or xy is not c_:
            bad = "adds %s" % show(pt)
        elif linear_of(w) != {"radius_x": 2.0} or linear_of(h) != {"radius_y": 2.0}:
            bad = "gives matplotlib the extents (%s, %s); the ellipse with radii (radius_x, radius_y) is (2 * radius_x) wide and (2 * radius_y) high" % (show(w), show(h))
        elif a.get("angle", 0) not in (0, 0.0):
            bad = "rotates the ellipse by %s" % show(a.get("angle"))
    res.check("D-PATCH", "draw_ellipse: matplotlib ellipse at the centre, 2 * radius_x wide and 2 * radius_y high", bad is None, m, fn_, "draw_ellipse %s" % bad, "a circle is drawn with another size than the one the model reports", qualname="MPRenderer.draw_ellipse")

    # draw_dynamic_obstacle, evaluated in the setting the property names (shape on; icons, signals, trajectories, extra
    # occupancies, history, labels off): an obstacle living from step 5 to step 9, with a trajectory or a set-based
    # prediction, under windows that lie before, around, inside and after its life
    PR_ = "commonroad/prediction/prediction.py"
    fn_dyn = r.methods["draw_dynamic_obstacle"]
    T0, T1 = 5, 9
    for kind in ("TrajectoryPrediction", "SetBasedPrediction"):
        for tb, te in ((5, 8), (7, 9), (3, 10), (5, 6), (0, 4), (12, 15), (9, 12)):
            drawn, asked = [], []

            def occ_at(a, k, drawn=drawn, asked=asked):
                t = a[0] if a else k.get("time_step")
                asked.append(t)
                if not (isinstance(t, int) and T0 <= t <= T1):
                    return NONE
                return Obj(None, {"draw": PyFunc(lambda a2, k2, t=t: (drawn.append(t), NONE)[1], "draw"), "shape": Obj(None, {}, closed=True, label="shape at %d" % t), "time_step": t}, closed=True, label="occupancy at %d" % t)

            st = lambda t: Obj(None, {"is_uncertain_position": False, "time_step": t, "position": ListV([0.0, 0.0]), "orientation": 0.0}, closed=True, label="state at %s" % t)
            traj = Obj(None, {"state_at_time_step": PyFunc(lambda a, k: st(a[0]) if isinstance(a[0], int) and T0 < a[0] <= T1 else NONE, "state_at_time_step"), "draw": PyFunc(lambda a, k: NONE, "draw")}, closed=True, label="trajectory")
            pred = Obj(repo.cls(PR_, kind), {"final_time_step": T1, "initial_time_step": T0 + 1, "trajectory": traj, "_trajectory": traj}, label="prediction")
            ob = Obj(omod.classes["DynamicObstacle"], {"occupancy_at_time": PyFunc(occ_at, "occupancy_at_time"), "initial_state": st(T0), "_initial_state": st(T0), "prediction": pred, "_prediction": pred, "obstacle_id": 47, "_obstacle_id": 47, "obstacle_type": Obj(None, {}, closed=True, label="type"), "signal_state_at_time_step": PyFunc(lambda a, k: NONE, "signal_state_at_time_step")}, label="dynamic obstacle")
            shape_p = Obj(None, {"zorder": 20, "facecolor": Str.lit("#000"), "edgecolor": Str.lit("#000")}, label="shape parameters")
            occ_p = Obj(None, {"draw_occupancies": False, "shape": shape_p, "uncertain_position": Obj(None, {}, label="uncertain position parameters")}, label="occupancy parameters")
            veh_occ_p = Obj(None, {"draw_occupancies": False, "shape": shape_p, "uncertain_position": Obj(None, {}, label="uncertain position parameters")}, label="vehicle occupancy parameters")
            gp = Obj(dmod.classes.get("DynamicObstacleParams"), {"time_begin": tb, "time_end": te, "draw_icon": False, "show_label": False, "draw_shape": True, "draw_direction": False, "draw_initial_state": False, "draw_signals": False, "zorder": 20, "opacity": 1.0, "occupancy": occ_p, "trajectory": Obj(None, {"draw_trajectory": False}, label="trajectory parameters"), "history": Obj(None, {"draw_history": False}, label="history parameters"), "vehicle_shape": Obj(None, {"occupancy": veh_occ_p, "direction": Obj(None, {}, label="direction parameters")}, label="vehicle shape parameters"), "signals": Obj(None, {}, label="signal parameters"), "state": Obj(None, {}, label="state parameters")}, label="parameters")
            me = Obj(r, {"draw_params": Obj(None, {}, closed=True, label="renderer parameters"), "focus_obstacle_id": NONE, "obstacle_patches": ListV([]), "dynamic_labels": ListV([]), "plot_center": NONE}, label="renderer")
            ev = Ev(repo)
            ev.pure_modules = {"np", "numpy", "math", "mpl", "matplotlib", "text"}
            label = "%s, lives %d..%d, window [%d, %d)" % ("trajectory" if kind == "TrajectoryPrediction" else "set-based prediction", T0, T1, tb, te)
            if kind == "TrajectoryPrediction":
                want = [tb] if T0 <= tb <= T1 else []
            else:
                want = [t for t in range(tb, te) if T0 <= t <= T1]
            bad = []
            try:
                ev.call_fn(ev.bind(fn_dyn, r, me), [ob, gp], {}, fn_dyn)
                if sorted(drawn) != want:
                    bad.append("draws the occupancies at %s, the model reports %s for this window" % (sorted(drawn), want))
            except _Raise as x:
                bad.append("raises %s" % x.what)
            except Undecided as x:
                raise AnalysisError("MPRenderer.draw_dynamic_obstacle [%s]: %s" % (label, x))
            res.check("D-TIME", "draw_dynamic_obstacle [%s]: exactly the occupancies the model reports for the window" % label, not bad, m, fn_dyn, "draw_dynamic_obstacle [%s]: %s" % (label, "; ".join(bad)), "an obstacle that is present in the selected window is not drawn (or is drawn at other steps)", qualname="MPRenderer.draw_dynamic_obstacle")

    for name in ["draw_dynamic_obstacle"]:
        fn = r.methods[name]
        qn = "MPRenderer." + name
        rd = ReachingDefs(fn)
        calls = [c for c in ast.walk(fn) if isinstance(c, ast.Call) and isinstance(c.func, ast.Attribute) and c.func.attr == "occupancy_at_time"]
        res.check("D-TIME", "%s asks the model for the occupancy" % name, len(calls) >= 1, m, fn, "no occupancy_at_time call", "the drawn shape does not come from the model's occupancy", qualname=qn)
        first_kind = 0
        for c in calls:
            res.check("D-TIME", "%s asks the drawn object" % name, norm(c.func.value) == "obj", m, c, norm(c), "the occupancy of another object is drawn", qualname=qn)
            a = c.args[0] if c.args else None
            t = canon(a, rd, rd.stmt_of(c), ["obj", "draw_params"]) if a is not None else "?"
            in_loop = None
            cur = c
            while cur is not None and cur is not fn:
                cur = m.parent.get(cur)
                if isinstance(cur, ast.For):
                    in_loop = cur
                    break
            if in_loop is None:
                first_kind += 1
                res.check("D-TIME", "%s draws the occupancy at time_begin" % name, t == "draw_params.time_begin", m, c, "%s(%s)" % (norm(c.func), t), "the obstacle is shown at another time step than the selected one", qualname=qn)
            else:
                it = in_loop.iter
                ok = isinstance(it, ast.Call) and call_name(it) == "range" and len(it.args) == 2 and norm(a) == norm(in_loop.target)
                if ok:
                    lo = canon(it.args[0], rd, in_loop, ["obj", "draw_params"])
                    hi = canon(it.args[1], rd, in_loop, ["obj", "draw_params"])
                    los_nodes = [d.node for d in rd.defs(it.args[0].id, in_loop) if d.node is not None] if isinstance(it.args[0], ast.Name) else [it.args[0]]
                    flat_ = []
                    for ln_ in los_nodes:
                        stack_ = [ln_]
                        while stack_:
                            q_ = stack_.pop()
                            if isinstance(q_, ast.IfExp):
                                stack_ += [q_.body, q_.orelse]
                            else:
                                flat_.append(q_)
                    los = {canon(x, rd, in_loop, ["obj", "draw_params"]) for x in flat_}
                    ok = hi == "draw_params.time_end" and los <= {"draw_params.time_begin", "draw_params.time_begin + 1", "time_begin", "time_begin + 1"}
                res.check("D-TIME", "%s draws further occupancies for steps within [time_begin, time_end)" % name, ok, m, c, "%s for %s in %s" % (norm(c), norm(in_loop.target), norm(it)), "occupancies outside the selected time window are drawn", qualname=qn)
        res.check("D-TIME", "%s draws the shape at the begin of the window" % name, first_kind >= 1, m, fn, "%d occupancy queries outside loops" % first_kind, "no occupancy at the selected begin time step is drawn", qualname=qn)

    # --- D-LANELETS
    fn = r.methods.get("draw_lanelet_network")
    if fn is None:
        raise AnalysisError("draw_lanelet_network missing")
    rd = ReachingDefs(fn)
    qn = "MPRenderer.draw_lanelet_network"
    from ..flowtools import bool_equiv

    main = [lp for lp in walk_no_nested(fn) if isinstance(lp, ast.For) and any(isinstance(x, ast.Attribute) and x.attr == "center_vertices" for x in ast.walk(lp))]
    res.check("D-LANELETS", "one loop collects the lanelet geometry", len(main) == 1, m, fn, "%d lanelet loops" % len(main), "lanelet geometry is collected in an unexpected way", qualname=qn)
    for lp in main:
        # the loop may run over all lanelets and skip, or over a pre-selected list: in both cases
        #   drawn(l)  <=>  l in obj.lanelets and SEL(l)   with  SEL = not (a selection is given and l is not selected)
        it_node = lp.iter
        pre = None
        if isinstance(it_node, ast.Name):
            ds = [d.node for d in rd.defs(it_node.id, lp) if d.node is not None]
            if len(ds) == 1:
                it_node = ds[0]
        if isinstance(it_node, (ast.ListComp, ast.GeneratorExp)) and len(it_node.generators) == 1:
            pre = it_node
            base_it = canon(pre.generators[0].iter, rd, lp, ["obj"])
            lv_node = pre.generators[0].target
        else:
            base_it = canon(it_node, rd, lp, ["obj"])
            lv_node = lp.target
        res.check("D-LANELETS", "the loop runs over all lanelets of the network", base_it in ("enumerate(obj.lanelets)", "obj.lanelets"), m, lp, "for .. in %s" % base_it, "not every lanelet of the network can be drawn", qualname=qn)
        lv = norm(lv_node.elts[-1]) if isinstance(lv_node, ast.Tuple) else norm(lv_node)
        skips = [s_ for s_ in lp.body if isinstance(s_, ast.If) and any(isinstance(x, ast.Continue) for x in s_.body)]
        hard = [s_ for s_ in lp.body if isinstance(s_, (ast.Continue, ast.Break))]
        conds = []  # selection = conjunction of these
        if pre is not None:
            if isinstance(pre.elt, ast.Tuple):
                ok_elt = [norm(x) for x in pre.elt.elts] == [norm(x) for x in (lv_node.elts if isinstance(lv_node, ast.Tuple) else [lv_node])]
            else:
                ok_elt = norm(pre.elt) == norm(lv_node)
            res.check("D-LANELETS", "the pre-selection passes the lanelets on unchanged", ok_elt, m, pre, norm(pre)[:90], "the drawn objects are not the selected lanelets", qualname=qn)
            for c_ in pre.generators[0].ifs:
                conds.append(ast.parse(canon(c_, rd, lp, ["obj", "draw_params"]), mode="eval").body)
        for s_ in skips:
            conds.append(ast.UnaryOp(op=ast.Not(), operand=ast.parse(canon(s_.test, rd, s_, ["obj", "draw_params"]), mode="eval").body))
        res.check("D-LANELETS", "lanelets are skipped only through the id filter", not hard and len(conds) >= 1, m, lp, "%d unconditional skips, %d filter conditions" % (len(hard), len(conds)), "lanelets are skipped for another reason than the id filter (or the filter is gone)", qualname=qn)
        if conds:
            sel = conds[0] if len(conds) == 1 else ast.BoolOp(op=ast.And(), values=conds)
            wants = [ast.parse(x % {"l": lv}, mode="eval").body for x in ("not (isinstance(draw_params.draw_ids, list) and %(l)s.lanelet_id not in draw_params.draw_ids)", "not (draw_params.draw_ids is not None and %(l)s.lanelet_id not in draw_params.draw_ids)")]
            ok = any(bool_equiv(sel, w_) for w_ in wants)
            res.check("D-LANELETS", "a lanelet is drawn iff no selection is given or its id is selected", ok, m, lp, "selection %s" % " ".join(ast.unparse(sel).split())[:120], "the lanelet id filter draws other lanelets than the selected ones", qualname=qn)


def run(repo, res, tier):
    res.rule("P-PROPAGATE", "BaseParam forwards assignments to nested groups", 30)
    res.rule("P-DECL", "parameter groups are dataclasses below BaseParam with per-instance nested groups", 100)
    res.rule("D-FIELDS", "parameter reads in the renderer name declared fields", 120)
    res.rule("D-GROUP", "draw methods select the parameter group of their kind", 30)
    res.rule("D-NULLSAFE", "possibly absent occupancies / states are dereferenced under a test", 6)
    res.rule("D-TIME", "drawn occupancies are those at the selected time steps", 10)
    res.rule("D-BUFFER", "clear() empties what one frame has drawn, whether or not the static artists are kept (evaluated)", 2)
    buffer_rule(repo, res)
    res.rule("D-PATCH", "shape primitives hand the geometry to matplotlib unchanged", 3)
    res.rule("D-LANELETS", "lanelet drawing loop and id filter", 4)
    classes = propagate(repo, res)
    renderer(repo, res, classes)
    res.note("not decided: that drawing completes for every parameter setting, what matplotlib finally shows, icon/label/signal/trajectory drawing")

"""C09 decided by abstract evaluation: the id pool of a scenario is exactly the set of ids of the contained objects.

World: a scenario that contains one object of every kind (four obstacle roles, and a lanelet network *model* holding a
lanelet, a traffic sign, a traffic light and an intersection with two incoming elements); the pool holds exactly their
ids.  Every public way of adding and removing objects is evaluated over the AST on this world, for the normal case,
the colliding-id case and the not-contained case, and the state afterwards is compared with what the property says:

    POOL       pool == ids of the contained objects (nothing leaked, nothing released too early)
    REJECT     adding with a used id raises ValueError and leaves registries, network and pool unchanged
    TOLERATE   removing something that is not contained changes nothing and does not raise

The lanelet network is a model (add_* / remove_* / find_*_by_id on dictionaries); everything of Scenario is the real
code.  Helper extraction, guard clauses, merged branches and call-backs handed to helpers evaluate to the same state.
"""
from ..core import AnalysisError
from ..strdom import NONE, ClassRef, Ctor, DictV, Ev, ListV, Obj, PyFunc, SetV, Sym, Undecided, _Raise, same, show

SC = "commonroad/scenario/scenario.py"
O = "commonroad/scenario/obstacle.py"
LA = "commonroad/scenario/lanelet.py"
TS = "commonroad/scenario/traffic_sign.py"
TL = "commonroad/scenario/traffic_light.py"
IN = "commonroad/scenario/intersection.py"


class NetModel:
    """lanelet network model: four dictionaries behind the public interface the scenario uses"""

    KINDS = ("lanelet", "traffic_sign", "traffic_light", "intersection")

    def __init__(self, repo, label="lanelet network"):
        self.repo = repo
        self.store = {k: {} for k in self.KINDS}
        self.log = []
        cls = repo.cls(LA, "LaneletNetwork")
        o = Obj(cls, {}, closed=True, label=label)
        idattr = {"lanelet": "lanelet_id", "traffic_sign": "traffic_sign_id", "traffic_light": "traffic_light_id", "intersection": "intersection_id"}

        def oid(kind, x):
            v = x.fields.get("_" + idattr[kind])
            return v

        def adder(kind):
            def f(a, k):
                x = a[0] if a else list(k.values())[0]
                self.log.append(("add", kind, x))
                if oid(kind, x) in self.store[kind]:
                    return False
                self.store[kind][oid(kind, x)] = x
                return True

            return PyFunc(f, "add_" + kind)

        def remover(kind):
            def f(a, k):
                i = a[0] if a else list(k.values())[0]
                self.log.append(("remove", kind, i))
                self.store[kind].pop(i, None)
                return NONE

            return PyFunc(f, "remove_" + kind)

        def finder(kind):
            def f(a, k):
                i = a[0] if a else list(k.values())[0]
                return self.store[kind].get(i, NONE)

            return PyFunc(f, "find_%s_by_id" % kind)

        for kind in self.KINDS:
            o.fields["add_" + kind] = adder(kind)
            o.fields["remove_" + kind] = remover(kind)
            o.fields["find_%s_by_id" % kind] = finder(kind)
            o.dyn[kind + "s"] = (lambda kind=kind: ListV(list(self.store[kind].values())))
            o.dyn["_" + kind + "s"] = (lambda kind=kind: DictV(dict(self.store[kind])))
        for nm in ("cleanup_lanelet_references", "cleanup_traffic_sign_references", "cleanup_traffic_light_references", "_create_strtree"):
            o.fields[nm] = PyFunc(lambda a, k: NONE, nm)
        self.obj = o

    def ids(self):
        out = []
        for kind in self.KINDS:
            out += list(self.store[kind])
        for x in self.store["intersection"].values():
            out += [inc.fields["_incoming_id"] for inc in x.fields["_incomings"].items]
        return out


def mk(repo, kind, i, extra=None):
    table = {
        "static": (O, "StaticObstacle", "_obstacle_id"),
        "dynamic": (O, "DynamicObstacle", "_obstacle_id"),
        "environment": (O, "EnvironmentObstacle", "_obstacle_id"),
        "phantom": (O, "PhantomObstacle", "_obstacle_id"),
        "lanelet": (LA, "Lanelet", "_lanelet_id"),
        "traffic_sign": (TS, "TrafficSign", "_traffic_sign_id"),
        "traffic_light": (TL, "TrafficLight", "_traffic_light_id"),
        "intersection": (IN, "Intersection", "_intersection_id"),
    }
    rel, cn, attr = table[kind]
    f = {attr: i}
    if kind in ("static", "dynamic"):
        f.update({"_initial_shape_lanelet_ids": NONE, "_initial_center_lanelet_ids": NONE, "_prediction": NONE, "_initial_state": Obj(None, {"time_step": 0}, closed=True)})
    if kind == "lanelet":
        f.update({"_traffic_signs": SetV([]), "_traffic_lights": SetV([])})
    if kind == "intersection":
        inc_cls = repo.cls(IN, "IntersectionIncomingElement")
        f["_incomings"] = ListV([Obj(inc_cls, {"_incoming_id": j}, label="incoming %d" % j) for j in (extra or [])])
    f.update({})
    return Obj(repo.cls(rel, cn), f, label="%s %d" % (kind.replace("_", " "), i))


REG = {"static": "_static_obstacles", "dynamic": "_dynamic_obstacles", "environment": "_environment_obstacle", "phantom": "_phantom_obstacle"}


class World:
    def __init__(self, repo):
        self.repo = repo
        self.net = NetModel(repo)
        sc = repo.cls(SC, "Scenario")
        self.objs = {"static": mk(repo, "static", 11), "dynamic": mk(repo, "dynamic", 12), "environment": mk(repo, "environment", 13), "phantom": mk(repo, "phantom", 14), "lanelet": mk(repo, "lanelet", 21), "traffic_sign": mk(repo, "traffic_sign", 22), "traffic_light": mk(repo, "traffic_light", 23), "intersection": mk(repo, "intersection", 24, [25, 26])}
        for kind in NetModel.KINDS:
            x = self.objs[kind]
            self.net.store[kind][[v for k, v in x.fields.items() if k.endswith("_id")][0]] = x
        self.scenario = Obj(sc, {"_lanelet_network": self.net.obj, "_id_set": SetV([]), "_id_counter": 30}, label="scenario")
        for kind, reg in REG.items():
            self.scenario.fields[reg] = DictV({self.objs[kind].fields["_obstacle_id"]: self.objs[kind]})
        self.scenario.fields["_id_set"] = SetV(sorted(self.contained_ids()))
        self.ev = Ev(repo)
        self.ev.pure_modules = {"np", "numpy", "math"}
        self.ev.instantiate = {"LaneletNetwork"}
        self.ev.stubs["Scenario._add_static_obstacle_to_lanelets"] = lambda a: NONE
        self.ev.stubs["Scenario._add_dynamic_obstacle_to_lanelets"] = lambda a: NONE
        self.ev.stubs["Scenario._remove_static_obstacle_from_lanelets"] = lambda a: NONE
        self.ev.stubs["Scenario._remove_dynamic_obstacle_from_lanelets"] = lambda a: NONE

    def network_ids(self):
        n = self.scenario.fields["_lanelet_network"]
        if n is self.net.obj:
            return self.net.ids()
        model = getattr(n, "model", None)
        if model is not None:
            return model.ids()
        # a network object built by the real constructor (after erase): its dictionaries
        out = []
        for fld, attr in (("_lanelets", None), ("_traffic_signs", None), ("_traffic_lights", None), ("_intersections", None)):
            d = n.fields.get(fld)
            if isinstance(d, DictV):
                out += list(d.d)
                if fld == "_intersections":
                    for x in d.d.values():
                        out += [inc.fields["_incoming_id"] for inc in x.fields["_incomings"].items]
        return out

    def contained_ids(self):
        out = []
        for reg in REG.values():
            out += list(self.scenario.fields[reg].d)
        return out + self.network_ids()

    def pool(self):
        s = self.scenario.fields["_id_set"]
        return sorted(s.items) if isinstance(s, ListV) else None

    def snapshot(self):
        return (tuple(sorted((reg, tuple(sorted(self.scenario.fields[reg].d))) for reg in REG.values())), tuple(sorted(self.network_ids())), tuple(self.pool() or ()), self.scenario.fields["_lanelet_network"] is self.net.obj)

    def call(self, name, args, kwargs=None):
        sc = self.scenario.cls
        fn = sc.methods.get(name)
        if fn is None:
            raise AnalysisError("Scenario.%s missing" % name)
        return self.ev.call_fn(self.ev.bind(fn, sc, self.scenario), args, kwargs or {}, fn)

    def pool_problems(self):
        c, p = sorted(self.contained_ids()), self.pool()
        if p is None:
            return ["the id pool is %s" % show(self.scenario.fields["_id_set"])]
        if len(c) != len(set(c)):
            return ["two contained objects share an id: %s" % c]
        if c != p:
            leaked = sorted(set(p) - set(c))
            lost = sorted(set(c) - set(p))
            return ["ids in the pool without an object: %s" % leaked if leaked else "", "contained objects whose id is not in the pool: %s" % lost if lost else ""]
        return []


REMOVER = {"static": "remove_obstacle", "dynamic": "remove_obstacle", "environment": "remove_obstacle", "phantom": "remove_obstacle", "lanelet": "remove_lanelet", "traffic_sign": "remove_traffic_sign", "traffic_light": "remove_traffic_light", "intersection": "remove_intersection"}


def pool_rules(repo, res):
    sc = repo.cls(SC, "Scenario")

    def report(rule, op, label, body, message):
        fn = sc.methods.get(op)
        if fn is None:
            raise AnalysisError("Scenario.%s missing" % op)
        qn = "Scenario.%s" % op
        try:
            bad = [b for b in body() if b]
        except _Raise as x:
            bad = ["raises %s" % x.what]
        except Undecided as x:
            raise AnalysisError("%s [%s]: %s" % (qn, label, x))
        res.check(rule, "%s [%s]" % (qn, label), not bad, sc.mod, fn, "%s [%s]: %s" % (qn, label, "; ".join(bad[:3])), message, qualname=qn)

    kinds = list(REMOVER)
    fresh = {"static": 41, "dynamic": 42, "environment": 43, "phantom": 44, "lanelet": 45, "traffic_sign": 46, "traffic_light": 47, "intersection": 48}
    # ---- adding
    for kind in kinds:
        def add_ok(kind=kind):
            w = World(repo)
            x = mk(repo, kind, fresh[kind], [49, 50] if kind == "intersection" else None)
            w.call("add_objects", [x])
            bad = w.pool_problems()
            if fresh[kind] not in w.contained_ids():
                bad.append("the object is not contained afterwards")
            return bad

        report("PAIR-RESERVE", "add_objects", "new %s with an unused id" % kind.replace("_", " "), add_ok, "after adding, the id pool is not exactly the set of ids of the contained objects (the id is not reserved, or the object not stored)")
        for clash_kind in ("static", "lanelet", "intersection"):
            def add_clash(kind=kind, clash_kind=clash_kind):
                w = World(repo)
                used = {"static": 11, "lanelet": 21, "intersection": 26}[clash_kind]
                if kind == "intersection":
                    x = mk(repo, kind, fresh[kind] if clash_kind != "static" else used, [49, used] if clash_kind != "static" else [49, 50])
                else:
                    x = mk(repo, kind, used)
                before = w.snapshot()
                try:
                    w.call("add_objects", [x])
                except _Raise as r:
                    if r.exc != "ValueError":
                        return ["raises %s instead of ValueError" % (r.exc or r.what)]
                    return [] if w.snapshot() == before else ["the scenario changed although the add was rejected: %s -> %s" % (before, w.snapshot())]
                return ["accepted although id %d is in use" % used]

            report("PAIR-ATOMIC", "add_objects", "%s whose id%s is used by the contained %s" % (kind.replace("_", " "), " (or an incoming id)" if kind == "intersection" else "", {"static": "static obstacle", "lanelet": "lanelet", "intersection": "intersection's incoming element"}[clash_kind]), add_clash, "adding with a used id must raise ValueError and leave the scenario unchanged")

    def add_list():
        w = World(repo)
        w.call("add_objects", [ListV([mk(repo, "static", 41), mk(repo, "lanelet", 45), mk(repo, "traffic_sign", 46)])])
        return w.pool_problems() + ([] if {41, 45, 46} <= set(w.contained_ids()) else ["not all objects of the list are contained"])

    report("PAIR-RESERVE", "add_objects", "list of new objects", add_list, "after adding a list of objects the id pool is not exactly the set of ids of the contained objects")

    def add_network():
        w = World(repo)
        new = NetModel(repo, "new lanelet network")
        for kind, i, ex in (("lanelet", 61, None), ("traffic_sign", 62, None), ("traffic_light", 21, None), ("intersection", 64, [65, 22])):
            new.store[kind][i] = mk(repo, kind, i, ex)  # ids 21 and 22 are those of objects of the network being replaced
        new.obj.model = new
        w.call("add_objects", [new.obj])
        bad = w.pool_problems()
        if w.scenario.fields["_lanelet_network"] is not new.obj:
            bad.append("the new network is not installed")
        return bad

    report("PAIR-REPLACE", "add_objects", "lanelet network replacing the contained one (re-using two of its ids)", add_network, "replacing the network must release the ids of the old network's objects and reserve those of the new one")

    def add_network_clash():
        w = World(repo)
        new = NetModel(repo, "new lanelet network")
        new.store["lanelet"][11] = mk(repo, "lanelet", 11)  # id of the contained static obstacle
        new.obj.model = new
        before = w.snapshot()
        try:
            w.call("add_objects", [new.obj])
        except _Raise as r:
            return [] if w.snapshot() == before else ["the scenario changed although the network was rejected"]
        return ["accepted although id 11 is used by the static obstacle"]

    report("PAIR-ATOMIC", "add_objects", "lanelet network one of whose ids is used by an obstacle", add_network_clash, "adding with a used id must raise ValueError and leave the scenario unchanged")

    def add_network_twins():
        w = World(repo)
        new = NetModel(repo, "new lanelet network")
        new.store["lanelet"][71] = mk(repo, "lanelet", 71)
        new.store["traffic_sign"][71] = mk(repo, "traffic_sign", 71)  # the same id as the lanelet of the same network
        new.obj.model = new
        before = w.snapshot()
        try:
            w.call("add_objects", [new.obj])
        except _Raise as r:
            return [] if w.snapshot() == before else ["the scenario changed although the network was rejected"]
        return ["accepted although a lanelet and a traffic sign of the network share the id 71"]

    report("PAIR-ATOMIC", "add_objects", "lanelet network two of whose own objects share an id", add_network_twins, "two contained objects must not share an id: a network whose own elements collide is rejected and leaves the scenario unchanged")
    # ---- removing
    for kind in kinds:
        def rem_ok(kind=kind):
            w = World(repo)
            x = w.objs[kind]
            i = [v for k, v in x.fields.items() if k.endswith("_id") and isinstance(v, int)][0]
            w.call(REMOVER[kind], [x])
            bad = w.pool_problems()
            if i in w.contained_ids():
                bad.append("the object is still contained")
            return bad

        report("PAIR-RELEASE", REMOVER[kind], "contained %s" % kind.replace("_", " "), rem_ok, "after removing, the id pool is not exactly the set of ids of the contained objects (the id is not released, or too many are)")

        def rem_absent(kind=kind):
            w = World(repo)
            x = mk(repo, kind, fresh[kind], [49, 50] if kind == "intersection" else None)
            before = w.snapshot()
            w.call(REMOVER[kind], [x])
            return [] if w.snapshot() == before else ["removing an object that is not contained changed the scenario: %s -> %s" % (before, w.snapshot())]

        report("PAIR-GUARD", REMOVER[kind], "%s that is not contained" % kind.replace("_", " "), rem_absent, "removing an object that is not contained must change nothing (and not raise)")

        def rem_foreign(kind=kind):
            # not contained, but carrying the id of a contained object of another kind
            w = World(repo)
            other_id = 21 if kind in ("static", "dynamic", "environment", "phantom") else 11
            x = mk(repo, kind, other_id, [49, 12] if kind == "intersection" else None)
            before = w.snapshot()
            w.call(REMOVER[kind], [x])
            return [] if w.snapshot() == before else ["removing a foreign %s with id %d changed the scenario: %s -> %s" % (kind, other_id, before, w.snapshot())]

        report("PAIR-GUARD", REMOVER[kind], "%s that is not contained but carries the id of a contained object of another kind" % kind.replace("_", " "), rem_foreign, "removing an object that is not contained frees the id of a contained one (the pool no longer covers it)")

    def rem_list():
        w = World(repo)
        w.call("remove_obstacle", [ListV([w.objs["static"], w.objs["phantom"]])])
        return w.pool_problems()

    report("PAIR-RELEASE", "remove_obstacle", "list of contained obstacles", rem_list, "after removing a list the id pool is not exactly the set of ids of the contained objects")

    # list forms of the network objects: two contained ones (and one that is not contained in between)
    for kind, second in (("lanelet", 27), ("traffic_sign", 28), ("traffic_light", 29)):
        def rem_two(kind=kind, second=second):
            w = World(repo)
            x2 = mk(repo, kind, second)
            w.net.store[kind][second] = x2
            w.scenario.fields["_id_set"].items.append(second)
            stranger = mk(repo, kind, fresh[kind])
            kw = {"referenced_elements": False} if kind == "lanelet" else {}
            w.call(REMOVER[kind], [ListV([w.objs[kind], stranger, x2])], kw)
            bad = w.pool_problems()
            first = [v for k, v in w.objs[kind].fields.items() if k.endswith("_id") and isinstance(v, int)][0]
            left = {first, second} & set(w.contained_ids())
            if left:
                bad.append("still contained: %s" % sorted(left))
            return [b for b in bad if b]

        report("PAIR-RELEASE", REMOVER[kind], "list of two contained %ss with one in between that is not contained" % kind.replace("_", " "), rem_two, "after removing a list the id pool is not exactly the set of ids of the contained objects")

    def rem_lanelet_with_members():
        w = World(repo)
        la = w.objs["lanelet"]
        la.fields["_traffic_signs"] = SetV([22])
        la.fields["_traffic_lights"] = SetV([23])
        w.call("remove_lanelet", [la], {"referenced_elements": True})
        bad = w.pool_problems()
        if {21, 22, 23} & set(w.contained_ids()):
            bad.append("lanelet / its sign / its light still contained: %s" % sorted({21, 22, 23} & set(w.contained_ids())))
        return bad

    report("PAIR-RELEASE", "remove_lanelet", "lanelet together with the sign and light only it references", rem_lanelet_with_members, "removing a lanelet with its referenced elements must release exactly their ids")

    def erase():
        w = World(repo)
        w.call("erase_lanelet_network", [])
        bad = w.pool_problems()
        if set(w.network_ids()):
            bad.append("network objects still contained: %s" % sorted(w.network_ids()))
        return bad

    report("PAIR-REPLACE", "erase_lanelet_network", "network with lanelet, sign, light and intersection", erase, "erasing the network must release the ids of all its objects (and only those)")

    def replace():
        w = World(repo)
        new = NetModel(repo, "new lanelet network")
        new.store["lanelet"][21] = mk(repo, "lanelet", 21)
        new.store["traffic_sign"][62] = mk(repo, "traffic_sign", 62)
        new.obj.model = new
        w.call("replace_lanelet_network", [new.obj])
        bad = w.pool_problems()
        if w.scenario.fields["_lanelet_network"] is not new.obj:
            bad.append("the new network is not installed")
        return bad

    report("PAIR-REPLACE", "replace_lanelet_network", "new network re-using an id of the old one", replace, "replacing the network must release the ids of the old network's objects and reserve those of the new one")

"""C04 rules decided by abstract evaluation (sa/strdom.py) instead of by the layout of the code.

The functions are evaluated over the AST on small symbolic object graphs (a trajectory with two states, a prediction
with two occupancies, a scenario with one obstacle of every role); placement functions, shapely / numpy / math are
uninterpreted; every test must be decidable from the shape case (has the state an orientation, is there a wheelbase,
which stored time step matches the query, which obstacle has an answer).  What is compared is the *outcome*: helper
extraction, comprehensions instead of loops, early returns, hoisted locals and predicate helpers all evaluate to the
same value and are therefore not visible to these rules.
"""
from ..core import AnalysisError, Finding
from ..strdom import NONE, ClassRef, Ctor, DictV, EnumMember, Ev, FuncV, ListV, Obj, Str, Sym, TupV, Undecided, _Raise, same, show

O = "commonroad/scenario/obstacle.py"
P = "commonroad/prediction/prediction.py"
SH = "commonroad/geometry/shape.py"
T = "commonroad/scenario/trajectory.py"
S = "commonroad/scenario/scenario.py"
U = "commonroad/common/util.py"


def _ev(repo, oracle=None, opaque=()):
    ev = Ev(repo, opaque_calls=opaque)
    ev.pure_modules = {"math", "np", "numpy"}
    ev.oracle = oracle
    return ev


def _call(ev, cls, name, recv, args):
    owner, fn = ev.repo.find_method(cls, name)
    if fn is None:
        raise AnalysisError("%s.%s missing" % (cls.name, name))
    return ev.call_fn(ev.bind(fn, owner, recv), args, {}, fn), fn, owner


# --------------------------------------------------------------------------- OCC-PLACE: per-state occupancies
def occupancy_set_rule(repo, res):
    tp = repo.cls(P, "TrajectoryPrediction")
    traj = repo.cls(T, "Trajectory")
    fn = tp.methods.get("_create_occupancy_set")
    if fn is None:
        raise AnalysisError("TrajectoryPrediction._create_occupancy_set missing")
    qn = "TrajectoryPrediction._create_occupancy_set"
    for has_orientation in (True, False):
        for has_wheelbase in (False, True):
            label = "%s, %s" % ("states with orientation" if has_orientation else "point-mass states (no orientation)", "with trailer wheelbases" if has_wheelbase else "single shape")
            states = []
            for i in (1, 2):
                f = {"time_step": Sym("t%d" % i, "int"), "position": Sym("p%d" % i, "num"), "velocity": Sym("v%d" % i, "num")}
                if has_orientation:
                    f["orientation"] = Sym("o%d" % i, "num")
                else:
                    f["velocity_y"] = Sym("vy%d" % i, "num")
                states.append(Obj(None, f, closed=True, label="state%d" % i))
            before = [dict(s.fields) for s in states]
            shapes = Sym("member_shapes", "num")
            shape = Obj(None, {"shapes": shapes}, closed=True, label="shape")
            wb = Sym("wheelbase_lengths", "num") if has_wheelbase else NONE
            trajectory = Obj(traj, {"_state_list": ListV(states), "_initial_time_step": states[0].fields["time_step"]}, label="trajectory")
            me = Obj(tp, {"_trajectory": trajectory, "_shape": shape, "_wheelbase_lengths": wb}, label="prediction")
            ev = _ev(repo, opaque=("occupancy_shape_from_state", "shape_group_occupancy_shape_from_state"))
            bad = []
            try:
                r, _f, _o = _call(ev, tp, "_create_occupancy_set", me, [])
            except _Raise as x:
                r = None
                bad.append("raises %s" % x.what)
            except Undecided as x:
                raise AnalysisError("%s [%s]: %s" % (qn, label, x))
            if r is not None:
                if not (isinstance(r, ListV) and len(r.items) == len(states)):
                    bad.append("result %s" % show(r))
                else:
                    for i, (occ, st) in enumerate(zip(r.items, states)):
                        if not (isinstance(occ, Ctor) and occ.name == "Occupancy" and set(occ.args) >= {"time_step", "shape"}):
                            bad.append("element %d is %s" % (i, show(occ)))
                            continue
                        if not same(occ.args["time_step"], st.fields["time_step"]):
                            bad.append("occupancy %d is stamped with %s, its state has %s" % (i, show(occ.args["time_step"]), show(st.fields["time_step"])))
                        reg = occ.args["shape"]
                        want_fn = "shape_group_occupancy_shape_from_state" if has_wheelbase else "occupancy_shape_from_state"
                        if not (isinstance(reg, Ctor) and reg.kind == "call" and reg.name == want_fn):
                            bad.append("region %d is %s, expected %s(..)" % (i, show(reg), want_fn))
                            continue
                        vals = list(reg.args.values())
                        placed_shape = vals[0] if vals else None
                        placed_state = vals[1] if len(vals) > 1 else None
                        if has_wheelbase:
                            if not same(placed_shape, shapes) or len(vals) < 3 or not same(vals[2], wb):
                                bad.append("region %d places %s with %s" % (i, show(placed_shape), show(vals[2] if len(vals) > 2 else None)))
                        elif placed_shape is not shape:
                            bad.append("region %d places %s instead of the prediction's shape" % (i, show(placed_shape)))
                        # the state the shape is placed at: the i-th state, or a copy of it that gained the heading
                        if placed_state is st:
                            if not has_orientation and "orientation" not in st.fields:
                                bad.append("region %d is placed at a state without orientation" % i)
                        elif isinstance(placed_state, Obj) and getattr(placed_state, "copied_from", None) is st:
                            extra = {k: v for k, v in placed_state.fields.items() if k not in before[i] or not same(v, before[i][k])}
                            o = extra.pop("orientation", None)
                            okh = isinstance(o, Ctor) and o.name in ("math.atan2", "np.arctan2", "numpy.arctan2") and same(list(o.args.values())[0], before[i].get("velocity_y")) and same(list(o.args.values())[1], before[i].get("velocity"))
                            if has_orientation or extra or not okh:
                                bad.append("region %d is placed at a changed copy of its state (%s)" % (i, ", ".join(sorted(list(extra) + (["orientation=%s" % show(o)] if o is not None and not okh else [])))))
                        else:
                            bad.append("region %d is placed at %s, not at state %d" % (i, show(placed_state), i))
                        if not has_orientation and "orientation" in st.fields and placed_state is st:
                            o = st.fields["orientation"]
                            okh = isinstance(o, Ctor) and o.name in ("math.atan2", "np.arctan2", "numpy.arctan2") and same(list(o.args.values())[0], before[i].get("velocity_y")) and same(list(o.args.values())[1], before[i].get("velocity"))
                            if not okh:
                                bad.append("heading of state %d derived as %s" % (i, show(o)))
            res.check("OCC-PLACE", "occupancy set [%s]: one occupancy per predicted state, stamped with its time step, region = shape placed at that state" % label, not bad, tp.mod, fn, "%s [%s]: %s" % (qn, label, "; ".join(bad[:3])), "the occupancy set is not, state by state, the prediction's shape placed at the state whose time step it carries", qualname=qn)


# --------------------------------------------------------------------------- OCC-DISPATCH: search by time step
def prediction_lookup_rule(repo, res, cls, fn):
    """occupancy_at_time_step of a prediction class: the first stored occupancy whose time step matches, else None"""
    iv = repo.cls(U, "Interval")
    qn = "%s.occupancy_at_time_step" % cls.name
    q = Sym("queried_time_step", "int")
    # three stored occupancies whose times are NOT in ascending order (nothing says a set is sorted); every comparison of
    # times is answered by the valuation of the case
    TIMES = {"time steps": [(5, 5), (3, 3), (4, 4)], "time intervals": [(8, 9), (2, 3), (5, 6)]}
    QUERIES = {"time steps": [(5, 0), (3, 1), (4, 2), (9, None), (1, None)], "time intervals": [(8, 0), (3, 1), (5, 2), (7, None), (1, None)]}
    for kind in ("time steps", "time intervals"):
        for qv, hit in QUERIES[kind]:
            occs, vals = [], {"queried_time_step": qv}
            for i, (lo, hi) in enumerate(TIMES[kind]):
                if kind == "time steps":
                    ts = Sym("t%d" % i, "int")
                    vals[ts.name] = lo
                else:
                    a_, b_ = Sym("a%d" % i, "int"), Sym("b%d" % i, "int")
                    vals[a_.name], vals[b_.name] = lo, hi
                    ts = Obj(iv, {"_start": a_, "_end": b_}, label="interval%d" % i)
                occs.append(Obj(None, {"time_step": ts}, closed=True, label="occupancy%d" % i))

            def oracle(kindop, a, b, occs=occs, vals=vals, qv=qv):
                if kindop == "truth" and isinstance(a, Ctor) and a.name in ("Interval.contains", "Interval.__contains__"):
                    for i, o in enumerate(occs):
                        if a.args.get("self") is o.fields["time_step"]:
                            lo, hi = TIMES["time intervals"][i]
                            return lo <= qv <= hi
                    return None
                if kindop in ("Eq", "NotEq", "Lt", "LtE", "Gt", "GtE") and isinstance(a, Sym) and isinstance(b, Sym) and a.name in vals and b.name in vals:
                    x, y = vals[a.name], vals[b.name]
                    return {"Eq": x == y, "NotEq": x != y, "Lt": x < y, "LtE": x <= y, "Gt": x > y, "GtE": x >= y}[kindop]
                return None

            me = Obj(cls, {"occupancy_set": ListV(occs), "_occupancy_set": ListV(occs)}, label="prediction")
            ev = _ev(repo, oracle, opaque=("Interval.contains", "Interval.__contains__"))
            label = "%s %s (not sorted), query %d: %s" % (kind, [t[0] if t[0] == t[1] else list(t) for t in TIMES[kind]], qv, "no match" if hit is None else "occupancy %d matches" % hit)
            bad = None
            try:
                r = ev.call_fn(ev.bind(fn, cls, me), [q], {}, fn)
                want = NONE if hit is None else occs[hit]
                if r is not want:
                    bad = "returns %s, expected %s" % (show(r), show(want))
                for w in ev.trace:
                    if w[0] == "call" and w[2].name.startswith("Interval.") and not same(list(w[2].args.values())[-1], q):
                        bad = "asks the interval about %s instead of the queried time step" % show(list(w[2].args.values())[-1])
            except _Raise as x:
                bad = "raises %s" % x.what
            except Undecided as x:
                raise AnalysisError("%s [%s]: %s" % (qn, label, x))
            res.check("OCC-DISPATCH", "%s [%s]: the matching stored occupancy, else None" % (qn, label), bad is None, cls.mod, fn, "%s [%s] %s" % (qn, label, bad), "an occupancy of another time step (or none although one is stored) is reported", qualname=qn)


# --------------------------------------------------------------------------- OCC-SCENARIO: whole-scenario queries
def scenario_query_rules(repo, res):
    sc = repo.cls(S, "Scenario")
    omod = repo.mod(O)
    role_cls = omod.classes.get("ObstacleRole")
    if role_cls is None:
        raise AnalysisError("ObstacleRole missing")
    ev0 = Ev(repo)
    roles = {m.name: m for m in ev0.iterate(ClassRef(role_cls), None)}
    kinds = [("static", "StaticObstacle", "_static_obstacles", "STATIC"), ("dynamic", "DynamicObstacle", "_dynamic_obstacles", "DYNAMIC"), ("environment", "EnvironmentObstacle", "_environment_obstacle", "ENVIRONMENT"), ("phantom", "PhantomObstacle", "_phantom_obstacle", "Phantom")]
    for k in kinds:
        if k[3] not in roles:
            raise AnalysisError("ObstacleRole.%s missing" % k[3])
    t = Sym("queried_time_step", "int")
    type_cls = omod.classes.get("ObstacleType")
    if type_cls is None:
        raise AnalysisError("ObstacleType missing")
    types = ev0.iterate(ClassRef(type_cls), None)
    if len(types) < 3:
        raise AnalysisError("ObstacleType has fewer than three members")

    def build(answers):
        """scenario with one obstacle per role; answers: kind -> occupancy / state answer or NONE"""
        regs = {}
        obs = {}
        for i, (kind, cname, reg, role) in enumerate(kinds):
            c = omod.classes[cname]
            f = {"_obstacle_id": 10 + i, "_obstacle_role": roles[role], "_initial_state": Obj(None, {"time_step": Sym("t0_%s" % kind, "int")}, label="initial_state_%s" % kind)}
            if repo.find_prop(c, "obstacle_type")[1]:
                f["_obstacle_type"] = types[i % len(types)]
            o = Obj(c, f, closed=True, label="%s obstacle" % kind)
            obs[kind] = o
            regs[reg] = DictV({10 + i: o})
        me = Obj(sc, regs, label="scenario")
        return me, obs

    def per_obstacle_stub(table, asked):
        def stub(a):
            slf = a.get("self")
            asked.append((slf, [v for k, v in a.items() if k != "self"]))
            return table.get(id(slf), NONE)

        return stub

    # occupancies_at_time_step(time_step, obstacle_role)
    fn = sc.methods.get("occupancies_at_time_step")
    if fn is None:
        raise AnalysisError("Scenario.occupancies_at_time_step missing")
    qn = "Scenario.occupancies_at_time_step"
    for role_name, role in [("no role filter", NONE)] + [("role %s" % r[3], roles[r[3]]) for r in kinds]:
        for silent in (None, "dynamic", "static"):
            me, obs = build({})
            occ = {kind: Obj(None, {}, label="occupancy of the %s obstacle" % kind) for kind, *_ in kinds}
            table = {id(obs[k]): (NONE if k == silent else occ[k]) for k in occ}
            asked = []
            ev = _ev(repo)
            for _k, cname, _r, _role in kinds:
                ev.stubs["%s.occupancy_at_time" % cname] = per_obstacle_stub(table, asked)
            ev.stubs["Obstacle.occupancy_at_time"] = per_obstacle_stub(table, asked)
            label = "%s, %s" % (role_name, "every obstacle has an occupancy" if silent is None else "the %s obstacle has none" % silent)
            bad = None
            try:
                r = ev.call_fn(ev.bind(fn, sc, me), [t, role], {}, fn)
                want = [occ[k] for k, _c, _r, rl in kinds if k != silent and (role is NONE or roles[rl] is role or same(roles[rl], role))]
                got = r.items if isinstance(r, ListV) else None
                if got is None or len(got) != len(want) or sorted(id(g) for g in got) != sorted(id(w) for w in want):
                    bad = "returns %s, expected %s" % (show(r), "[%s]" % ", ".join(show(w) for w in want))
                elif any(not (len(a) == 1 and same(a[0], t)) for _s, a in asked):
                    bad = "asks an obstacle about %s instead of the queried time step" % show([a for _s, a in asked if not (len(a) == 1 and same(a[0], t))][0])
            except _Raise as x:
                bad = "raises %s" % x.what
            except Undecided as x:
                raise AnalysisError("%s [%s]: %s" % (qn, label, x))
            res.check("OCC-SCENARIO", "%s [%s]: exactly the per-obstacle answers of the requested role" % (qn, label), bad is None, sc.mod, fn, "%s [%s] %s" % (qn, label, bad), "the scenario-level answer is not the list of the per-obstacle occupancies (an obstacle of the role is missing, one of another role is included, or another time step is asked)", qualname=qn)
    # obstacle_states_at_time_step(time_step)
    fn = sc.methods.get("obstacle_states_at_time_step")
    if fn is None:
        raise AnalysisError("Scenario.obstacle_states_at_time_step missing")
    qn = "Scenario.obstacle_states_at_time_step"
    for absent in (False, True):
        me, obs = build({})
        st = Obj(None, {}, label="state of the dynamic obstacle")
        table = {id(obs["dynamic"]): NONE if absent else st}
        asked = []
        ev = _ev(repo)
        ev.stubs["DynamicObstacle.state_at_time"] = per_obstacle_stub(table, asked)
        ev.stubs["Obstacle.state_at_time"] = per_obstacle_stub(table, asked)
        label = "dynamic obstacle outside its horizon" if absent else "dynamic obstacle has a state"
        bad = None
        try:
            r = ev.call_fn(ev.bind(fn, sc, me), [t], {}, fn)
            want = {obs["static"].fields["_obstacle_id"]: obs["static"].fields["_initial_state"]}
            if not absent:
                want[obs["dynamic"].fields["_obstacle_id"]] = st
            if not (isinstance(r, DictV) and set(r.d) == set(want) and all(r.d[k] is want[k] for k in want)):
                bad = "returns %s, expected %s" % (show(r.d) if isinstance(r, DictV) else show(r), want)
            elif any(not (len(a) == 1 and same(a[0], t)) for _s, a in asked):
                bad = "asks an obstacle about another time step than the queried one"
        except _Raise as x:
            bad = "raises %s" % x.what
        except Undecided as x:
            raise AnalysisError("%s [%s]: %s" % (qn, label, x))
        res.check("OCC-SCENARIO", "%s [%s]: id -> state of every static and every dynamic obstacle that has one" % (qn, label), bad is None, sc.mod, fn, "%s [%s] %s" % (qn, label, bad), "ids and states are mispaired, an obstacle with a state is missing, or one without is listed", qualname=qn)

    # obstacles_by_role_and_type(obstacle_role, obstacle_type)
    fn = sc.methods.get("obstacles_by_role_and_type")
    if fn is None:
        raise AnalysisError("Scenario.obstacles_by_role_and_type missing")
    qn = "Scenario.obstacles_by_role_and_type"
    for role_name, role in [("any role", NONE)] + [("role %s" % r[3], roles[r[3]]) for r in kinds]:
        for type_name, ty in [("any type", NONE)] + [("type %s" % m.name, m) for m in types[:3]]:
            me, obs = build({})
            ev = _ev(repo)
            label = "%s, %s" % (role_name, type_name)
            bad = None
            try:
                r = ev.call_fn(ev.bind(fn, sc, me), [role, ty], {}, fn)
                want = [o for (k, _c, _r, rl), o in zip(kinds, [obs[k[0]] for k in kinds]) if (role is NONE or same(roles[rl], role)) and (ty is NONE or ("_obstacle_type" in o.fields and same(o.fields["_obstacle_type"], ty)))]
                got = r.items if isinstance(r, ListV) else None
                if got is None or sorted(id(g) for g in got) != sorted(id(w) for w in want):
                    bad = "returns %s, expected %s" % (show(r), "[%s]" % ", ".join(show(w) for w in want))
            except _Raise as x:
                bad = "raises %s" % x.what
            except Undecided as x:
                raise AnalysisError("%s [%s]: %s" % (qn, label, x))
            res.check("OCC-SCENARIO", "%s [%s]: exactly the obstacles of that role and type" % (qn, label), bad is None, sc.mod, fn, "%s [%s] %s" % (qn, label, bad), "the role / type filter returns other obstacles than those with the requested role and type (or raises for an obstacle kind without a type)", qualname=qn)


# --------------------------------------------------------------------------- OCC-PLACE: the placement function itself
def _num(v, env):
    """value of a numeric term under an assignment of its atoms (numpy / math functions interpreted)"""
    import math

    from ..strdom import Term

    if isinstance(v, bool):
        raise Undecided("boolean %r in a length" % v)
    if isinstance(v, (int, float)):
        return float(v)
    if isinstance(v, Sym):
        if v.name not in env:
            raise Undecided("the length depends on %s" % v.name)
        return env[v.name]
    if isinstance(v, Term):
        a = [_num(x, env) for x in v.args]
        op = v.op
        if op == "+":
            return a[0] + a[1]
        if op == "-":
            return a[0] - a[1] if len(a) == 2 else -a[0]
        if op == "neg":
            return -a[0]
        if op == "*":
            return a[0] * a[1]
        if op == "/":
            return a[0] / a[1]
        if op == "**":
            return a[0] ** a[1]
        if op in ("min", "max"):
            return (min if op == "min" else max)(a)
        if op == "abs":
            return abs(a[0])
        if op == "float":
            return a[0]
        raise Undecided("operation %s in a length" % op)
    if isinstance(v, Ctor):
        f = v.name.split(".")[-1]
        a = [_num(x, env) for x in v.args.values()]
        table = {"abs": abs, "absolute": abs, "fabs": abs, "cos": math.cos, "sin": math.sin, "tan": math.tan, "arctan": math.atan, "atan": math.atan, "sqrt": math.sqrt, "float64": float}
        if f in table and len(a) == 1:
            return table[f](a[0])
        if f in ("minimum", "fmin", "min") and len(a) == 2:
            return min(a)
        if f in ("maximum", "fmax", "max") and len(a) == 2:
            return max(a)
        if f in ("arctan2", "atan2", "hypot") and len(a) == 2:
            return {"arctan2": math.atan2, "atan2": math.atan2, "hypot": math.hypot}[f](*a)
    raise Undecided("the length is %s" % show(v))


def place_rules(repo, res, RULE="OCC-PLACE"):
    """occupancy_shape_from_state(shape, state), evaluated.

    exact state     the result is shape.rotate_translate_local(state.position, state.orientation), nothing else
    uncertain state the result is a Rectangle centred at (the centre of) the position, oriented at the reference
                    orientation (the given one / the middle of the interval), whose length and width — extracted as
                    symbolic terms and compared numerically on sample assignments — are at least what enclosing the
                    shape for every admissible position and orientation needs: extent of the position region measured
                    in the reference frame (the region turned by minus the reference orientation about the origin)
                    + extent of the shape turned by up to half the width of the orientation interval."""
    import math
    import random

    from ..strdom import PyFunc, Term, linear_of

    mod = repo.mod(SH)
    fn = mod.functions.get("occupancy_shape_from_state")
    if fn is None:
        raise AnalysisError("occupancy_shape_from_state missing")
    qn = "occupancy_shape_from_state"
    classes = {k: repo.cls(SH, k) for k in ("Rectangle", "Polygon", "Circle")}

    def region(kind, tag, log):
        """model of a Rectangle / Polygon / Circle with symbolic extents; placements are recorded in log"""
        f = {"center": Sym("%s.center" % tag, "num")}
        if kind == "Circle":
            f["radius"] = Sym("%s.radius" % tag, "num")
        b = TupV([Sym("%s.%s" % (tag, n), "num") for n in ("min_x", "min_y", "max_x", "max_y")])
        f["shapely_object"] = Obj(None, {"bounds": b}, closed=True, label="geometry of %s" % tag)

        def place(a, k, tag=tag):
            tr = k.get("translation", a[0] if a else None)
            an = k.get("angle", a[1] if len(a) > 1 else None)
            t2 = "%s placed" % tag
            o = Obj(classes[kind], {"center": Sym("%s.center" % t2, "num"), "shapely_object": Obj(None, {"bounds": TupV([Sym("%s.%s" % (t2, n), "num") for n in ("min_x", "min_y", "max_x", "max_y")])}, closed=True)}, label=t2)
            if kind == "Circle":
                o.fields["radius"] = f["radius"]
            log.append((tag, tr, an, o))
            return o

        f["rotate_translate_local"] = PyFunc(place, "rotate_translate_local")
        return Obj(classes[kind], f, label=tag)

    def run(label, skind, pkind, uncertain_o):
        log = []
        shape = region(skind, "shape", log)
        pos = region(pkind, "position", log) if pkind else Sym("position", "num")
        if uncertain_o:
            s_, e_ = Sym("orientation.start", "num"), Sym("orientation.end", "num")
            ori = Obj(None, {"start": s_, "end": e_, "length": Term("-", [e_, s_])}, closed=True, label="orientation interval")
        else:
            ori = Sym("orientation", "num")
        state = Obj(None, {"position": pos, "orientation": ori, "is_uncertain_position": bool(pkind), "is_uncertain_orientation": uncertain_o}, closed=True, label="state")
        ev = _ev(repo)
        ev.pure_modules = {"math", "np", "numpy"}
        bad = []
        try:
            r = ev.call_fn(FuncV(fn, mod=mod), [shape, state], {}, fn)
            if not pkind and not uncertain_o:
                hits = [x for x in log if x[0] == "shape"]
                if not (len(hits) >= 1 and r is hits[-1][3] and hits[-1][1] is pos and hits[-1][2] is ori):
                    bad.append("returns %s; the occupancy is the shape placed at (position, orientation) of the state" % show(r))
                return bad, label
            if not (isinstance(r, Ctor) and r.name == "Rectangle"):
                raise Undecided("the enclosing occupancy is %s" % show(r))
            a = r.args
            length, width, centre, psi = a.get("length"), a.get("width"), a.get("center"), a.get("orientation")
            want_c = pos.fields["center"] if pkind else pos
            if centre is not want_c:
                bad.append("the enclosing rectangle is centred at %s, the obstacle is at %s" % (show(centre), show(want_c)))
            lp = linear_of(psi) if not isinstance(psi, Sym) else {psi.name: 1.0}
            want_p = {"orientation.start": 0.5, "orientation.end": 0.5} if uncertain_o else {"orientation": 1.0}
            if lp is None or {k: round(v, 9) for k, v in lp.items() if abs(v) > 1e-12} != want_p:
                bad.append("the enclosing rectangle is oriented at %s, the reference orientation is %s" % (show(psi), "the middle of the interval" if uncertain_o else "the state's orientation"))
            placed = None
            if pkind in ("Rectangle", "Polygon"):
                hits = [x for x in log if x[0] == "position"]
                if not hits:
                    bad.append("the position region is measured without being turned into the reference frame")
                else:
                    _t, tr, an, placed = hits[-1]
                    la = linear_of(an)
                    if la is None or {k: round(v, 9) for k, v in la.items() if abs(v) > 1e-12} != {k: -v for k, v in want_p.items()}:
                        bad.append("the position region is turned by %s, not by minus the reference orientation" % show(an))
                    zero = tr
                    if isinstance(zero, Ctor) and zero.name in ("numpy.array", "numpy.asarray") and zero.args:
                        zero = list(zero.args.values())[0]
                    ok0 = (isinstance(zero, ListV) and len(zero.items) == 2 and all(x in (0, 0.0) for x in zero.items)) or (isinstance(tr, Ctor) and tr.name == "numpy.zeros" and list(tr.args.values()) == [2])
                    if not ok0:
                        bad.append("the position region is moved by %s while being turned" % show(tr))
            if bad:
                return bad, label
            rnd = random.Random(20240)
            for _i in range(40):
                env = {}
                lv, wv = rnd.uniform(0.5, 6), rnd.uniform(0.5, 6)
                if skind == "Circle":
                    lv = wv = 2 * rnd.uniform(0.3, 3)
                    env["shape.radius"] = lv / 2
                x0, y0 = rnd.uniform(-5, 5), rnd.uniform(-5, 5)
                env.update({"shape.min_x": x0, "shape.max_x": x0 + lv, "shape.min_y": y0, "shape.max_y": y0 + wv})
                ls = ws = 0.0
                if pkind:
                    ls, ws = rnd.uniform(0.2, 4), rnd.uniform(0.2, 4)
                    if pkind == "Circle":
                        ls = ws = 2 * rnd.uniform(0.2, 2)
                        env["position.radius"] = ls / 2
                    px, py = rnd.uniform(-5, 5), rnd.uniform(-5, 5)
                    # the extents of the region as given differ from those in the reference frame: using the wrong ones shows
                    env.update({"position.min_x": px, "position.max_x": px + ls * 0.37, "position.min_y": py, "position.max_y": py + ws * 0.41})
                    env.update({"position placed.min_x": px, "position placed.max_x": px + ls, "position placed.min_y": py, "position placed.max_y": py + ws})
                dpsi = 0.0
                if uncertain_o:
                    st_ = rnd.uniform(-3, 3)
                    dpsi = rnd.uniform(0.01, math.pi / 2)
                    env.update({"orientation.start": st_, "orientation.end": st_ + 2 * dpsi})
                else:
                    env["orientation"] = rnd.uniform(-3, 3)
                dl, dw = min(dpsi, math.atan(wv / lv)), min(dpsi, math.atan(lv / wv))
                need_l = ls + lv * math.cos(dl) + wv * math.sin(dl)
                need_w = ws + wv * math.cos(dw) + lv * math.sin(dw)
                got_l, got_w = _num(length, env), _num(width, env)
                if got_l < need_l - 1e-9 or got_w < need_w - 1e-9:
                    bad.append("for a %.2f x %.2f shape, a position region of %.2f x %.2f in the reference frame and orientations within +-%.3f the rectangle is %.3f x %.3f; enclosing every admissible placement needs %.3f x %.3f" % (lv, wv, ls, ws, dpsi, got_l, got_w, need_l, need_w))
                    break
        except _Raise as x:
            bad.append("raises %s" % x.what)
        return bad, label

    cases = [("exact state", "Rectangle", None, False)]
    for sk in ("Rectangle", "Polygon", "Circle"):
        for pk in (None, "Rectangle", "Polygon", "Circle"):
            for uo in (False, True):
                if pk or uo:
                    cases.append(("%s-shaped obstacle, %s, %s" % (sk.lower(), "position within a %s" % pk.lower() if pk else "exact position", "orientation within an interval" if uo else "exact orientation"), sk, pk, uo))
    cases += [("exact state", "Polygon", None, False), ("exact state", "Circle", None, False)]
    for label, sk, pk, uo in cases:
        lab = label if label != "exact state" else "exact state, %s-shaped obstacle" % sk.lower()
        try:
            bad, _l = run(lab, sk, pk, uo)
        except Undecided as x:
            raise AnalysisError("%s [%s]: %s" % (qn, lab, x))
        res.check(RULE, "%s [%s]" % (qn, lab), not bad, mod, fn, "%s [%s]: %s" % (qn, lab, "; ".join(bad[:2])), "the occupancy is not the shape placed at the state / does not enclose the shape for every admissible position and orientation", qualname=qn)


def initial_state_rule(repo, res, RULE="OCC-PLACE"):
    """Obstacle.initial_state = s, evaluated: afterwards the obstacle holds s and its initial occupancy is the
    occupancy of (its own shape, s) — for an obstacle with wheelbase lengths the articulated shape group of
    (its shapes, s, its wheelbase lengths)."""
    ocls = repo.cls(O, "Obstacle")
    owner, pr = repo.find_prop(ocls, "initial_state")
    fn = pr.get("set") if pr else None
    if fn is None:
        raise AnalysisError("Obstacle.initial_state setter missing")
    qn = "Obstacle.initial_state[set]"
    for label, wheelbase in (("plain obstacle", False), ("obstacle with wheelbase lengths", True)):
        ev = _ev(repo, opaque={"occupancy_shape_from_state", "shape_group_occupancy_shape_from_state"})
        ev.assume_valid = True
        shapes = ListV([Obj(None, {}, closed=True, label="member shape")])
        shape = Obj(None, {"shapes": shapes, "_shapes": shapes}, closed=True, label="the obstacle's shape")
        old = Obj(None, {"time_step": 0}, closed=True, label="old initial state")
        new = Obj(repo.cls("commonroad/scenario/state.py", "InitialState"), {"time_step": 3}, label="new initial state")
        f = {"_obstacle_shape": shape, "_initial_state": old, "_initial_occupancy_shape": Obj(None, {}, closed=True, label="old occupancy"), "_obstacle_id": 9}
        wb = ListV([Sym("wheelbase", "num")])
        if wheelbase:
            f["wheelbase_lengths"] = wb
        me = Obj(repo.cls(O, "StaticObstacle"), f, closed=True, label="obstacle")
        bad = []
        try:
            ev.call_fn(FuncV(fn, self_val=me, cls=owner, mod=owner.mod), [new], {}, fn)
            if me.fields.get("_initial_state") is not new:
                bad.append("the obstacle holds %s as its initial state" % show(me.fields.get("_initial_state")))
            occ = me.fields.get("_initial_occupancy_shape")
            if not isinstance(occ, Ctor):
                bad.append("the initial occupancy is %s" % show(occ))
            else:
                a = list(occ.args.values())
                if wheelbase:
                    if not (occ.name == "shape_group_occupancy_shape_from_state" and len(a) == 3 and a[0] is shapes and a[1] is new and a[2] is wb):
                        bad.append("the initial occupancy is %s, expected the shape group of (own shapes, new state, own wheelbase lengths)" % show(occ))
                elif not (occ.name == "occupancy_shape_from_state" and len(a) == 2 and a[0] is shape and a[1] is new):
                    bad.append("the initial occupancy is %s, expected the occupancy of (own shape, new state)" % show(occ))
        except _Raise as x:
            bad.append("raises %s" % x.what)
        except Undecided as x:
            raise AnalysisError("%s [%s]: %s" % (qn, label, x))
        res.check(RULE, "%s [%s]: stores the state, initial occupancy = occupancy of (own shape, that state)" % (qn, label), not bad, owner.mod, fn, "%s [%s]: %s" % (qn, label, "; ".join(bad[:2])), "the initial occupancy is not the obstacle's shape placed at the initial state being stored", qualname=qn)


def time_independent_rule(repo, res, RULE="OCC-PLACE"):
    """StaticObstacle / EnvironmentObstacle.occupancy_at_time(t), evaluated: Occupancy(t, <the placed shape the obstacle
    holds>) — the shape placed at the initial state for a static obstacle, the shape itself for an environment
    obstacle — whatever the time step."""
    for cname, slot in (("StaticObstacle", "_initial_occupancy_shape"), ("EnvironmentObstacle", "_obstacle_shape")):
        cls = repo.cls(O, cname)
        owner, fn = repo.find_method(cls, "occupancy_at_time")
        if fn is None:
            raise AnalysisError("%s.occupancy_at_time missing" % cname)
        qn = "%s.occupancy_at_time" % cname
        ev = _ev(repo)
        ev.assume_valid = True
        shapes = {"_initial_occupancy_shape": Obj(None, {}, closed=True, label="shape placed at the initial state"), "_obstacle_shape": Obj(None, {}, closed=True, label="shape of the obstacle")}
        me = Obj(cls, dict(shapes, _obstacle_id=3, _initial_state=Obj(None, {"time_step": 0}, closed=True, label="initial state")), label=cname)
        t = Sym("time_step", "int")
        bad = None
        try:
            r = ev.call_fn(ev.bind(fn, owner, me), [t], {}, fn)
            a = r.args if isinstance(r, Ctor) and r.name == "Occupancy" else None
            if a is None or a.get("time_step") is not t or a.get("shape") is not shapes[slot]:
                bad = "answers %s, expected Occupancy(time step, %s)" % (show(r), shapes[slot].label)
        except _Raise as x:
            bad = "raises %s" % x.what
        except Undecided as x:
            raise AnalysisError("%s: %s" % (qn, x))
        res.check(RULE, "%s = Occupancy(t, %s)" % (qn, shapes[slot].label), bad is None, cls.mod, fn, "%s %s" % (qn, bad), "the occupancy of a static object depends on something else than its placed shape", qualname=qn)

"""C20 merge decided by abstract evaluation: Lanelet.merge_lanelets(a, b).

Two lanelets with symbolic boundary arrays, linked in one of the four ways the code accepts (a lists b as successor,
b lists a as predecessor, and the two mirrored ones), whose joint vertices coincide or not (the answer of
`np.isclose(..).all()` is the case).  The constructor of the merged lanelet is kept uninterpreted; it must receive, for
each of left / center / right in its own parameter, concatenate(predecessor's polyline, successor's polyline from
index 1 (joint coincides) or 0 (it does not)) — one index for all three — with the predecessor decided by the links.
"""
from ..core import AnalysisError
from ..strdom import NONE, ClassRef, Ctor, DictV, Ev, ListV, Obj, SetV, Sym, Term, Undecided, _Raise, show

L = "commonroad/scenario/lanelet.py"


def merge_rule(repo, res, RULE="MERGE"):
    lan = repo.cls(L, "Lanelet")
    owner, fn = repo.find_method(lan, "merge_lanelets")
    if fn is None:
        raise AnalysisError("Lanelet.merge_lanelets missing")
    qn = "Lanelet.merge_lanelets"

    def lanelet(k, pred, succ):
        f = {"_lanelet_id": k, "_predecessor": ListV(pred), "_successor": ListV(succ), "_static_obstacles_on_lanelet": SetV([]), "_dynamic_obstacles_on_lanelet": DictV(), "_distance": Ctor("numpy.array", {"arg0": Sym("cumulative distance of lanelet %d" % k, "num")}, kind="call"), "_inner_distance": NONE}
        for side in ("left", "center", "right"):
            f["_%s_vertices" % side] = Ctor("numpy.array", {"arg0": Sym("%s boundary of lanelet %d" % (side, k), "num")}, kind="call")
        return Obj(lan, f, label="lanelet %d" % k)

    # (label, predecessors / successors of lanelet 1, of lanelet 2, which one is the predecessor of the merge)
    links = [
        ("1 lists 2 as successor", ([], [2]), ([], []), 1),
        ("2 lists 1 as predecessor", ([], []), ([1], []), 1),
        ("2 lists 1 as successor", ([], []), ([], [1]), 2),
        ("1 lists 2 as predecessor", ([2], []), ([], []), 2),
        ("both record the link 1 -> 2", ([], [2]), ([1], []), 1),
    ]
    for llabel, (p1, s1), (p2, s2), first in links:
        for joint in (True, False):
            for order in ((1, 2), (2, 1)):
                ls = {1: lanelet(1, p1, s1), 2: lanelet(2, p2, s2)}
                pred, suc = ls[first], ls[3 - first]
                ev = Ev(repo)
                ev.pure_modules = {"np", "numpy", "math"}
                ev.assume_valid = True
                ev.stubs["Lanelet._merge_static_obstacles_on_lanelet"] = lambda a: SetV([])
                ev.stubs["Lanelet._merge_dynamic_obstacles_on_lanelet"] = lambda a: DictV()
                ev.oracle = lambda kind, a, b, joint=joint: joint if kind == "truth" and isinstance(a, Ctor) and ".all" in a.name else None
                ev.ctor_models["Lanelet"] = lambda a, k, ev=ev: Obj(lan, dict(ev.bind_args(repo.find_method(lan, "__init__")[1], a, k, drop_first=True, mod=lan.mod)), label="merged lanelet")
                label = "%s, joint vertices %s, called as (%d, %d)" % (llabel, "coincide" if joint else "differ", order[0], order[1])
                bad = []
                try:
                    r = ev.call_fn(ev.bind(fn, owner, None, via_class=ClassRef(lan)), [ls[order[0]], ls[order[1]]], {}, fn)
                    if not isinstance(r, Obj):
                        raise Undecided("the result is %s" % show(r))
                    for side in ("left", "center", "right"):
                        v = r.fields.get("%s_vertices" % side)
                        if not (isinstance(v, Ctor) and v.name in ("numpy.concatenate", "numpy.vstack", "numpy.row_stack") and v.args):
                            raise Undecided("the %s boundary of the result is %s" % (side, show(v)))
                        parts = list(v.args.values())[0]
                        items = parts.items if isinstance(parts, ListV) else None
                        if items is None or len(items) != 2:
                            raise Undecided("the %s boundary is built from %s" % (side, show(parts)))
                        a0, a1 = items
                        if a0 is not pred.fields["_%s_vertices" % side]:
                            bad.append("the %s boundary starts with %s, not with the %s boundary of the predecessor (lanelet %d)" % (side, show(a0), side, first))
                            continue
                        want_lo = 1 if joint else 0
                        if isinstance(a1, Ctor) and a1.name == ".slice" and a1.args.get("of") is suc.fields["_%s_vertices" % side] and a1.args.get("hi") is NONE and a1.args.get("step") is NONE:
                            lo = a1.args.get("lo")
                            lo = 0 if lo is NONE else lo
                            if lo != want_lo:
                                bad.append("the %s boundary continues with the successor's from index %s, the joint vertices %s" % (side, show(lo), "coincide (index 1)" if joint else "differ (index 0)"))
                        elif a1 is suc.fields["_%s_vertices" % side] and not joint:
                            pass
                        else:
                            bad.append("the %s boundary continues with %s, not with the %s boundary of the successor (lanelet %d)" % (side, show(a1), side, 3 - first))
                    # a cumulative distance handed to the merged lanelet (instead of leaving it to be computed from its own
                    # centre line) must be the predecessor's, continued by the successor's shifted by the predecessor's length
                    dist = r.fields.get("_distance", r.fields.get("distance", NONE))
                    if dist is not NONE and dist is not None:
                        dp, ds = pred.fields["_distance"], suc.fields["_distance"]
                        okd = False
                        if isinstance(dist, Ctor) and dist.name == "numpy.concatenate" and dist.args:
                            pr_ = list(dist.args.values())[0]
                            it_ = pr_.items if isinstance(pr_, ListV) else []
                            if len(it_) == 2 and it_[0] is dp and isinstance(it_[1], Term) and it_[1].op == "+":
                                x, y = it_[1].args
                                if isinstance(y, Ctor) and y.name == ".item":
                                    x, y = y, x
                                last_ok = isinstance(x, Ctor) and x.name == ".item" and x.args.get("of") is dp and show(x.args.get("index")).strip("'") == "-1"
                                rest_ok = isinstance(y, Ctor) and y.name == ".slice" and y.args.get("of") is ds and (0 if y.args.get("lo") is NONE else y.args.get("lo")) == (1 if joint else 0)
                                okd = last_ok and rest_ok
                        if not okd:
                            bad.append("the merged lanelet is given the cumulative distance %s; it is the predecessor's (lanelet %d) continued by the successor's shifted by the predecessor's length" % (show(dist)[:160], first))
                    if r.fields.get("predecessor") is not pred.fields["_predecessor"] or r.fields.get("successor") is not suc.fields["_successor"]:
                        bad.append("the merged lanelet does not take its predecessors from lanelet %d and its successors from lanelet %d" % (first, 3 - first))
                except _Raise as x:
                    bad.append("raises %s" % x.what)
                except Undecided as x:
                    raise AnalysisError("%s [%s]: %s" % (qn, label, x))
                res.check(RULE, "%s [%s]: each boundary = predecessor's + successor's (joint vertex kept once)" % (qn, label), not bad, lan.mod, fn, "%s [%s]: %s" % (qn, label, "; ".join(bad[:2])), "the merged lanelet's boundaries are not the concatenation of both parts in driving direction (wrong order, wrong polyline, or the joint vertex doubled / dropped)", qualname=qn)


# --------------------------------------------------------------------------- route enumeration
def route_rules(repo, res, RULE="ROUTE-FLOW"):
    """find_lanelet_successors_in_range / find_lanelet_predecessors_in_range, evaluated on small directed graphs
    (chain, fork and merge, cycles through and beside the start lanelet, dead end) whose lanelet lengths are atoms;
    every comparison of an accumulated length with the range is answered by the valuation of the case (lengths 1 and
    10 alternating, inner boundaries half as long; ranges below the first lanelet, between, exactly on an accumulated
    length, beyond everything).  The result must

      * come at all (a loop that has not ended after 200 rounds is reported),
      * consist of chains along the links, each starting at a direct successor (predecessor), without a lanelet twice
        and without the start lanelet,
      * cover every direct successor (predecessor),
      * extend a chain only while the length accumulated so far is below the range."""
    from ..strdom import NonTermination, PyFunc
    from .c04ev import _num

    lan = repo.cls(L, "Lanelet")
    GRAPHS = [
        ("chain 1-2-3-4", {1: [2], 2: [3], 3: [4], 4: []}),
        ("fork and merge 1-{2,3}-4-5", {1: [2, 3], 2: [4], 3: [4], 4: [5], 5: []}),
        ("cycle through the start 1-2-3-1", {1: [2], 2: [3], 3: [1]}),
        ("cycle beside the start 1-2-3-{2,4}", {1: [2], 2: [3], 3: [2, 4], 4: []}),
        ("fork on the way 1-2-{3,4}", {1: [2], 2: [3, 4], 3: [], 4: []}),
        ("no link at all", {1: []}),
    ]
    LENGTH = {1: 10.0, 2: 1.0, 3: 10.0, 4: 1.0, 5: 7.0}  # centre-line lengths; the inner boundary is half as long
    RANGES = [0.5, 1, 5, 11, 11.5, 12, 1000]
    for mname, fwd in (("find_lanelet_successors_in_range", True), ("find_lanelet_predecessors_in_range", False)):
        owner, fn = repo.find_method(lan, mname)
        if fn is None:
            raise AnalysisError("Lanelet.%s missing" % mname)
        qn = "Lanelet.%s" % mname
        for glabel, graph in GRAPHS:
            for rng in RANGES:
                vals = {"range": float(rng)}
                objs = {}
                for k in graph:
                    succ = graph[k]
                    pred = [a for a, bs in graph.items() if k in bs]
                    ln, inner = Sym("length of lanelet %d" % k, "num"), Sym("inner length of lanelet %d" % k, "num")
                    vals[ln.name], vals[inner.name] = LENGTH[k], LENGTH[k] / 2
                    objs[k] = Obj(lan, {"_lanelet_id": k, "_successor": ListV(list(succ if fwd else pred)), "_predecessor": ListV(list(pred if fwd else succ)), "_distance": ListV([0.0, ln]), "_inner_distance": ListV([0.0, inner])}, label="lanelet %d" % k)
                    objs[k].fields["distance"] = objs[k].fields["_distance"]
                    objs[k].fields["inner_distance"] = objs[k].fields["_inner_distance"]
                net = Obj(None, {"find_lanelet_by_id": PyFunc(lambda a, k_, objs=objs: objs.get(a[0] if a else k_.get("lanelet_id"), NONE), "find_lanelet_by_id")}, closed=True, label="lanelet network")
                ev = Ev(repo)
                ev.pure_modules = {"np", "numpy", "math"}

                def oracle(kind, a, b, vals=vals):
                    if kind not in ("Lt", "LtE", "Gt", "GtE", "Eq", "NotEq"):
                        return None
                    try:
                        x, y = _num(a, vals), _num(b, vals)
                    except Undecided:
                        return None
                    return {"Lt": x < y, "LtE": x <= y, "Gt": x > y, "GtE": x >= y, "Eq": x == y, "NotEq": x != y}[kind]

                ev.oracle = oracle
                label = "%s, range %s" % (glabel, rng)
                links = graph  # for the predecessor search the graph is mirrored: its links are the predecessor links
                bad = []
                try:
                    r = ev.call_fn(ev.bind(fn, owner, objs[1]), [net, Sym("range", "num")], {}, fn)
                    chains = []
                    for c in (r.items if isinstance(r, ListV) else []):
                        ids = c.items if isinstance(c, ListV) else None
                        if ids is None and hasattr(c, "fields") and isinstance(c.fields.get("ids"), ListV):
                            ids = c.fields["ids"].items
                        if ids is None or not all(isinstance(i, int) for i in ids):
                            raise Undecided("the result holds %s" % show(c))
                        chains.append(list(ids))
                    if not isinstance(r, ListV):
                        raise Undecided("the result is %s" % show(r))
                    for ch in chains:
                        if not ch or ch[0] not in links[1]:
                            bad.append("chain %s does not start at a direct %s of the start lanelet" % (ch, "successor" if fwd else "predecessor"))
                        elif any(b_ not in links[a_] for a_, b_ in zip(ch, ch[1:])):
                            bad.append("chain %s does not follow the links" % ch)
                        elif len(set(ch)) != len(ch) or 1 in ch:
                            bad.append("chain %s visits a lanelet twice or returns to the start lanelet" % ch)
                        else:
                            for i in range(1, len(ch)):
                                so_far = sum(LENGTH[x] for x in ch[:i])
                                if so_far >= rng:
                                    bad.append("chain %s was extended by lanelet %d although %s has length %g, which reaches the range %s" % (ch, ch[i], ch[:i], so_far, rng))
                                    break
                    missing = [s_ for s_ in links[1] if not any(ch and ch[0] == s_ for ch in chains)]
                    if missing:
                        bad.append("no chain starts at the direct %s %s" % ("successor" if fwd else "predecessor", missing))
                except NonTermination as x:
                    bad.append("does not terminate: %s" % x)
                except _Raise as x:
                    bad.append("raises %s" % x.what)
                except Undecided as x:
                    raise AnalysisError("%s [%s]: %s" % (qn, label, x))
                res.check(RULE, "%s [%s]: loop-free chains of links from every direct neighbour, extended only below the range" % (qn, label), not bad, lan.mod, fn, "%s [%s]: %s" % (qn, label, "; ".join(bad[:2])), "the range search does not terminate, returns something that is not a loop-free chain of links, misses a direct neighbour, or extends a chain beyond the range", qualname=qn)

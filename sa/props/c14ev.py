"""C14 rules decided by abstract evaluation against an element model (sa/strdom.ElemV): the writer builds the element,
the reader is evaluated on that very element, and what comes back is compared with what went in.

  header      CommonRoadSolutionWriter._create_root_node  ->  CommonRoadSolutionReader._parse_header
  trajectory  _create_trajectory_node (tag, planningProblem, state nodes in order)  ->  _parse_trajectory
"""
from ..core import AnalysisError
from ..strdom import MAXREP, NONE, ClassRef, Ctor, DictV, ElemV, Ev, ListV, Obj, PyFunc, Str, Sym, TupV, Undecided, _Raise, same, show

SO = "commonroad/common/solution.py"


def _S(sym):
    return Str([("sym", sym)])


def header_rule(repo, res, schema_attrs, schema_root):
    wr = repo.cls(SO, "CommonRoadSolutionWriter")
    rd = repo.cls(SO, "CommonRoadSolutionReader")
    sol = repo.cls(SO, "Solution")
    crn, ph = wr.methods.get("_create_root_node"), rd.methods.get("_parse_header")
    if crn is None or ph is None:
        raise AnalysisError("_create_root_node / _parse_header missing")
    qn = "CommonRoadSolutionWriter._create_root_node"
    import itertools as _it

    for has_date, has_ct, pkind in _it.product((True, False), (True, False), ("given", "none", "auto")):
        auto = pkind == "auto"
        label = "date %s, computation time %s, processor name %s" % ("given" if has_date else "None", "given" if has_ct else "None", {"given": "given", "none": "None", "auto": "'auto'"}[pkind])
        bid = _S(Sym("benchmark_id", lang=[(frozenset("abcdefghijklmnopqrstuvwxyzABCDEFGHIJKLMNOPQRSTUVWXYZ0123456789_-:[],"), 1, MAXREP)]))
        fmts = []

        def strftime(a, k):
            f = a[0] if a else k.get("format")
            fmts.append(f)
            return Ctor("strftime", {"of": date, "fmt": f}, kind="call")

        date = Obj(None, {"strftime": PyFunc(strftime, "strftime")}, closed=True, label="date") if has_date else NONE
        ct = Sym("computation_time", "num") if has_ct else NONE
        cpu = _S(Sym("cpu_name", lang=[(frozenset("abcdefghijklmnopqrstuvwxyz"), 1, MAXREP)]))
        pname = Str.lit("auto") if auto else (Str.lit("Intel(R) Core(TM) i7-8650U CPU @ 1.90GHz") if pkind == "given" else NONE)
        s_obj = Obj(sol, {"benchmark_id": bid, "date": date, "_date": date, "computation_time": ct, "_computation_time": ct, "processor_name": pname, "_processor_name": pname}, label="solution")
        ev = Ev(repo)
        ev.pure_modules = {"np", "numpy", "math"}
        ev.stubs["CommonRoadSolutionWriter._get_processor_name"] = lambda a: cpu
        bad = []
        try:
            root = ev.call_fn(ev.bind(crn, wr, None, via_class=ClassRef(wr)), [s_obj], {}, crn)
            if not isinstance(root, ElemV):
                bad.append("the root node is %s" % show(root))
            else:
                tag = root.tag.text() if isinstance(root.tag, Str) and root.tag.is_lit() else None
                if tag != schema_root:
                    bad.append("root element <%s>, the schema's is <%s>" % (tag, schema_root))
                names = sorted(k for k in root.attrib.d)
                want = sorted(["benchmark_id"] + (["date"] if has_date else []) + (["computation_time"] if has_ct else []) + (["processor_name"] if pkind != "none" else []))
                if not set(want) <= set(schema_attrs):
                    bad.append("the schema's attributes are %s" % sorted(schema_attrs))
                if names != want:
                    bad.append("attributes %s, expected %s" % (names, want))
                if has_date and fmts and not all(isinstance(f, Str) and f.is_lit() and all(x in f.text() for x in ("%Y", "%m", "%d", "%H", "%M", "%S")) for f in fmts):
                    bad.append("date written with format %s: not to the second" % [show(f) for f in fmts])
                ev2 = Ev(repo)
                ev2.pure_modules = {"np", "numpy", "math"}
                back = ev2.call_fn(ev2.bind(ph, rd, None, via_class=ClassRef(rd)), [root], {}, ph)
                exp = [bid, date, ct, cpu if auto else pname]
                got = back.items if isinstance(back, ListV) else None
                if got is None or len(got) != 4 or not all(same(g, x) or g is x for g, x in zip(got, exp)):
                    bad.append("read back %s, written %s" % (show(back), "[%s]" % ", ".join(show(x) for x in exp)))
        except _Raise as x:
            bad.append("raises %s" % x.what)
        except Undecided as x:
            res.refuse("%s [%s]: %s" % (qn, label, x))
            continue
        res.check("TAB-XSD", "header [%s]: root element and attributes follow the schema and are read back unchanged" % label, not bad, wr.mod, crn, "solution header [%s]: %s" % (label, "; ".join(bad[:3])), "meta data is written under a name the reader (or the schema) does not know, is dropped, or does not come back as written (date to the second, computation time exactly)", qualname=qn)


def trajectory_rule(repo, res):
    wr = repo.cls(SO, "CommonRoadSolutionWriter")
    rd = repo.cls(SO, "CommonRoadSolutionReader")
    tt_cls = repo.cls(SO, "TrajectoryType")
    ctn, pt = wr.methods.get("_create_trajectory_node"), rd.methods.get("_parse_trajectory")
    if ctn is None or pt is None:
        raise AnalysisError("_create_trajectory_node / _parse_trajectory missing")
    qn = "CommonRoadSolutionWriter._create_trajectory_node"
    ev0 = Ev(repo)
    for tt in ev0.iterate(ClassRef(tt_cls), None):
        ppid = Sym("planning_problem_id", "int", positive=True)
        states = [Obj(None, {"time_step": t}, closed=True, label="state at %d" % t) for t in (7, 3, 15)]
        traj = Obj(None, {"state_list": ListV(states), "_state_list": ListV(states)}, closed=True, label="trajectory")
        ev = Ev(repo)
        ev.pure_modules = {"np", "numpy", "math"}
        made = []

        def state_node(a):
            el = ElemV(Str.lit("state"))
            tm = ElemV(Str.lit("time"))
            tm.text = Str.lit(str(a.get("state").fields["time_step"]))  # as the real writer does: the time step as decimal text
            el.children.items.append(tm)
            made.append((el, a.get("state"), a.get("state_type")))
            return el

        ev.stubs["CommonRoadSolutionWriter._create_state_node"] = state_node
        bad = []
        try:
            node = ev.call_fn(ev.bind(ctn, wr, None, via_class=ClassRef(wr)), [tt, ppid, traj], {}, ctn)
            if not isinstance(node, ElemV):
                bad.append("the trajectory node is %s" % show(node))
            else:
                if not same(node.tag, tt.value):
                    bad.append("tag %s, the trajectory type's is %s" % (show(node.tag), show(tt.value)))
                if [c for c in node.children.items] != [m[0] for m in made] or [m[1] for m in made] != states:
                    bad.append("state nodes are not one per state in list order")
                parsed = []

                def parse_state(a):
                    n = [v for v in a.values() if isinstance(v, ElemV)]
                    st = [m[1] for m in made if n and m[0] is n[0]]
                    parsed.append((st[0] if st else None, [v for k, v in a.items() if not isinstance(v, (ElemV, ClassRef))]))
                    return st[0] if st else NONE

                ev2 = Ev(repo)
                ev2.pure_modules = {"np", "numpy", "math"}
                ev2.stubs["CommonRoadSolutionReader._parse_state"] = parse_state
                back = ev2.call_fn(ev2.bind(pt, rd, None, via_class=ClassRef(rd)), [node], {}, pt)
                got = back.items if isinstance(back, ListV) else None
                if got is None or len(got) != 2 or not same(got[0], ppid):
                    bad.append("planning problem id read back as %s" % (show(got[0]) if got else show(back)))
                else:
                    tr = got[1]
                    sl = tr.args.get("state_list") if isinstance(tr, Ctor) else None
                    order = [s.fields["time_step"] for s in sl.items] if isinstance(sl, ListV) and all(isinstance(s, Obj) for s in sl.items) else None
                    if order != [3, 7, 15]:
                        bad.append("states come back in time order %s, expected [3, 7, 15]" % order)
                    elif not same(tr.args.get("initial_time_step"), 3):
                        bad.append("trajectory starts at %s, its first state is at 3" % show(tr.args.get("initial_time_step")))
                want_st = ev2.getattr(tt, "state_type", pt, rd.mod)
                if any(not any(same(x, want_st) for x in extra) for _s, extra in parsed):
                    bad.append("states are parsed as another state type than %s" % show(want_st))
        except _Raise as x:
            bad.append("raises %s" % x.what)
        except Undecided as x:
            res.refuse("%s [%s]: %s" % (qn, tt.name, x))
            continue
        res.check("NUMFMT", "trajectory node [%s]: tag, planning problem id and states (in time order) are read back" % tt.name, not bad, wr.mod, ctn, "trajectory node [%s]: %s" % (tt.name, "; ".join(bad[:3])), "planning-problem id, trajectory type or the states of a trajectory do not survive writing and reading", qualname=qn)


def state_rule(repo, res):
    """every state type: _create_state_node -> _parse_state gives back every field (position as its two coordinates,
    the time step as an integer), evaluated against the element model"""
    wr = repo.cls(SO, "CommonRoadSolutionWriter")
    rd = repo.cls(SO, "CommonRoadSolutionReader")
    st_cls = repo.cls(SO, "StateType")
    csn, ps = wr.methods.get("_create_state_node"), rd.methods.get("_parse_state")
    if csn is None or ps is None:
        raise AnalysisError("_create_state_node / _parse_state missing")
    ev0 = Ev(repo)
    for st in ev0.iterate(ClassRef(st_cls), None):
        qn = "CommonRoadSolutionWriter._create_state_node"
        bad = []
        try:
            fields = ev0.getattr(st, "fields", csn, wr.mod)
            names = [f.text() for f in fields.items]
            vals = {}
            for n in names:
                if n == "position":
                    vals[n] = ListV([Sym("position_x", "num"), Sym("position_y", "num")])
                elif n == "time_step":
                    vals[n] = Sym("time_step", "int", positive=True)
                else:
                    vals[n] = Sym(n, "num")
            state = Obj(None, dict(vals), closed=True, label="%s state" % st.name)
            ev = Ev(repo)
            ev.pure_modules = {"math", "np", "numpy"}
            node = ev.call_fn(ev.bind(csn, wr, None, via_class=ClassRef(wr)), [st, state], {}, csn)
            if not isinstance(node, ElemV) or not same(node.tag, st.value):
                bad.append("state node %s, expected tag %s" % (show(node), show(st.value)))
            else:
                ev2 = Ev(repo)
                ev2.pure_modules = {"math", "np", "numpy"}
                back = ev2.call_fn(ev2.bind(ps, rd, None, via_class=ClassRef(rd)), [st, node], {}, ps)
                got = back.args if isinstance(back, Ctor) else None
                if got is None:
                    bad.append("read back %s" % show(back))
                else:
                    for n in names:
                        g = got.get(n)
                        if isinstance(g, Ctor) and g.name in ("np.array", "numpy.array", "np.asarray"):
                            g = list(g.args.values())[0]
                        if not same(g, vals[n]):
                            bad.append("%s read back as %s" % (n, show(g)))
                    extra = sorted(set(got) - set(names))
                    if extra:
                        bad.append("unexpected fields %s" % extra)
        except _Raise as x:
            bad.append("raises %s" % x.what)
        except Undecided as x:
            res.refuse("%s [%s]: %s" % (qn, st.name, x))
            continue
        res.check("TAB-CLASS", "state [%s]: every field written is read back into the same field, unchanged" % st.name, not bad, wr.mod, csn, "state [%s]: %s" % (st.name, "; ".join(bad[:3])), "a state value does not survive writing and reading (paired with another field, dropped, or converted)", qualname=qn)


def trajectory_type_rule(repo, res):
    """the trajectory type a solution is written under is the type of its *current* trajectory: replacing the
    trajectory through the setter must make `trajectory_type` the type of the new trajectory (the writer takes the
    element name and the state fields from it)"""
    pps = repo.cls(SO, "PlanningProblemSolution")
    tt_cls = repo.cls(SO, "TrajectoryType")
    owner, pr = repo.find_prop(pps, "trajectory")
    if not pr or pr.get("set") is None:
        raise AnalysisError("PlanningProblemSolution.trajectory setter missing")
    st = pr["set"]
    ev0 = Ev(repo)
    members = ev0.iterate(ClassRef(tt_cls), None)
    old_t, new_t = members[0], members[-1]
    old_traj = Obj(None, {}, closed=True, label="old trajectory")
    new_traj = Obj(None, {}, closed=True, label="new trajectory")
    me = Obj(pps, {"_trajectory": old_traj, "_trajectory_type": old_t, "_vehicle_model": Obj(None, {}, label="vehicle model"), "_cost_function": Obj(None, {}, label="cost function")}, label="planning problem solution")
    ev = Ev(repo)
    ev.stubs["TrajectoryType.get_trajectory_type"] = lambda a: new_t if any(v is new_traj for v in a.values()) else old_t
    ev.stubs["PlanningProblemSolution._check_trajectory_supported"] = lambda a: True
    ev.stubs["TrajectoryType.valid_vehicle_model"] = lambda a: True
    bad = []
    try:
        ev.call_fn(ev.bind(st, owner, me), [new_traj], {}, st)
        if ev.getattr(me, "trajectory", st, owner.mod) is not new_traj:
            bad.append("the new trajectory is not stored")
        tt = ev.getattr(me, "trajectory_type", st, owner.mod)
        if not same(tt, new_t):
            bad.append("trajectory_type is %s after assigning a trajectory of type %s" % (show(tt), show(new_t)))
    except _Raise as x:
        bad.append("raises %s" % x.what)
    except Undecided as x:
        raise AnalysisError("PlanningProblemSolution.trajectory setter: %s" % x)
    res.check("TAB-ALIGN", "assigning a trajectory updates the trajectory type the solution is written under", not bad, pps.mod, st, "PlanningProblemSolution.trajectory setter: %s" % "; ".join(bad), "the solution is written under the element name and state fields of the previous trajectory's type: the file is invalid, cannot be written, or reads back as another trajectory type", qualname="PlanningProblemSolution.trajectory")


def optional_metadata_rule(repo, res, RULE="TAB-XSD"):
    """Solution(..) keeps the optional meta data it is given: a date / computation time / processor name that is None
    (what the reader passes for a file without that attribute) stays None, a given value stays that value — so a
    solution without a date reads back without one."""
    from ..strdom import ClassRef, Ev, Obj, Undecided, _Raise, show

    SO = "commonroad/common/solution.py"
    sol = repo.cls(SO, "Solution")
    init = sol.methods.get("__init__")
    if init is None:
        raise AnalysisError("Solution.__init__ missing")
    for label, given in (("nothing optional given", {"date": NONE, "computation_time": NONE, "processor_name": NONE}), ("all given", {"date": Sym("date", "num"), "computation_time": Sym("computation_time", "num"), "processor_name": Str.lit("cpu")})):
        ev = Ev(repo)
        ev.pure_modules = {"np", "numpy", "math", "datetime", "platform", "warnings"}
        ev.instantiate = {"Solution"}
        ev.assume_valid = True
        bad = []
        try:
            o = ev.apply(ClassRef(sol), [Obj(None, {}, closed=True, label="scenario id"), ListV([])], dict(given), sol.node, sol.mod)
            for k, v in given.items():
                got = ev.getattr(o, k, sol.node, sol.mod)
                same_ = (got is v) or (isinstance(v, Str) and isinstance(got, Str) and got.is_lit() and got.text() == v.text())
                if not same_:
                    bad.append("%s=%s is held as %s" % (k, show(v), show(got)))
        except _Raise as x:
            bad.append("raises %s" % x.what)
        except Undecided as x:
            raise AnalysisError("Solution.__init__ [%s]: %s" % (label, x))
        res.check(RULE, "Solution(..) [%s]: optional meta data is kept as given (None stays None)" % label, not bad, sol.mod, init, "Solution.__init__ [%s]: %s" % (label, "; ".join(bad)), "a solution read from a file without this attribute carries a value that was never in the file", qualname="Solution.__init__")


def number_text_rule(repo, res, RULE="NUMFMT"):
    """_create_sub_element(name, value), evaluated for a float and for an integer value: the text of the element is the
    text of the value itself (str / repr of the value, through float / np.float64 at most) — nothing rounded, cut or
    formatted to a number of digits."""
    from ..strdom import ClassRef, ElemV, Ev, Undecided, _Raise, show

    SO = "commonroad/common/solution.py"
    wr = repo.cls(SO, "CommonRoadSolutionWriter")
    fn = wr.methods.get("_create_sub_element")
    if fn is None:
        raise AnalysisError("CommonRoadSolutionWriter._create_sub_element missing")
    qn = "CommonRoadSolutionWriter._create_sub_element"
    for kind, exponent in (("float", False), ("float", True), ("int", False)):
        v = Sym("value", kind)
        ev = Ev(repo)
        ev.pure_modules = {"math"}
        # whether the text of the value holds a given character is a property of the case (a float printed with an
        # exponent, or without)
        ev.oracle = lambda k, a, b, exponent=exponent: (exponent if a.text() in ("e", "E", "e-", "e+") else False if a.text() in ("inf", "nan", "n", "i") else None) if k == "In" and isinstance(a, Str) and a.is_lit() and isinstance(b, Str) and [p[0] for p in b.pieces] == ["sym"] else None
        ident = lambda a, k: a[0]
        for f in ("float64", "float_", "double", "asarray"):
            ev.model_calls["np.%s" % f] = ev.model_calls["numpy.%s" % f] = ident
        bad = None
        try:
            node = ev.call_fn(ev.bind(fn, wr, None, via_class=ClassRef(wr)), [Str.lit("x"), v], {}, fn)
            text = node.text if isinstance(node, ElemV) else None
            if not isinstance(text, Str):
                bad = "gives %s" % show(node)
            elif [p for p in text.pieces] != [("sym", v)]:
                bad = "writes %s" % show(text)
        except _Raise as x:
            bad = "raises %s" % x.what
        except Undecided as x:
            raise AnalysisError("%s [%s value]: %s" % (qn, kind, x))
        kind = kind + (" printed with an exponent" if exponent else "")
        res.check(RULE, "%s [%s value]: the text is the shortest round-trip text of the value" % (qn, kind), bad is None, wr.mod, fn, "%s [%s value] %s" % (qn, kind, bad), "values are rounded or formatted with limited precision: read-back values are not bit-identical", qualname=qn)

"""C16 — Interval and AngleInterval behave as the closed sets they denote.

  RANGE     interval abstract interpretation of AngleInterval.contains / __contains__ under the
            class invariant (start, end in [-2pi, 2pi], 0 <= end - start < 2pi): every assert is
            proved, every compared quantity is non-negative (an offset modulo 2pi, not a value
            wrapped to [-pi, pi]) and the bound it is compared with can reach up to 2pi
  DISPATCH  contains() of both classes evaluated for an int, a float and an interval argument: each reaches the
            branch of its kind (shared with C08 Q2)
  CLOSED    Interval.contains / `in` / overlaps evaluated on order cases of the end points (closed-interval tests);
            intersection is [max(starts), min(ends)] under the overlap test
  IMAGE     * and / swap the ends exactly in the non-positive branch; + - round keep the order;
            every arithmetic result is constructed through the (re-checking) constructor
  REJECT    constructor and setters reject start > end; AngleInterval normalises then checks < 2pi
"""
import ast
import math

from ..core import AnalysisError, Finding, attr_chain, call_name, canon, dominating_guards, helper_table, norm, walk_no_nested
from ..dataflow import ReachingDefs
from ..flowtools import result_cases
from ..ranges import TOP, Interp

U = "commonroad/common/util.py"
TWO_PI = 2 * math.pi


def C(e, fn):
    return canon(e, ReachingDefs(fn), None, [a.arg for a in fn.args.args])






def ineq_set(e, atoms):
    """conjunction of comparisons -> {(linear form as frozenset, strict)} meaning form > 0 / form >= 0;
    None when some conjunct is not a comparison over the recognised atoms.  `not (a or b)` and negated single
    comparisons are seen through."""
    from .c04 import inequalities

    def pack(fs):
        return {(frozenset(f.items()), st) for f, st in fs}

    if isinstance(e, ast.BoolOp) and isinstance(e.op, ast.And):
        out = set()
        for v in e.values:
            s_ = ineq_set(v, atoms)
            if s_ is None:
                return None
            out |= s_
        return out
    if isinstance(e, ast.UnaryOp) and isinstance(e.op, ast.Not):
        o = e.operand
        if isinstance(o, ast.BoolOp) and isinstance(o.op, ast.Or):
            out = set()
            for v in o.values:
                s_ = ineq_set(ast.UnaryOp(op=ast.Not(), operand=v), atoms)
                if s_ is None:
                    return None
                out |= s_
            return out
        if isinstance(o, ast.Compare) and len(o.ops) == 1:
            fs = inequalities(o, False, atoms)
            return pack(fs) if len(fs) == 1 else None
        if isinstance(o, ast.UnaryOp) and isinstance(o.op, ast.Not):
            return ineq_set(o.operand, atoms)
        return None
    if isinstance(e, ast.Compare):
        fs = inequalities(e, True, atoms)
        return pack(fs) if len(fs) == len(e.ops) else None
    return None


def normalise_rule(fn):
    """(ok,) for make_valid_orientation_interval(start, end): every loop shifts both parameters by the same multiple of
    2pi, and the negated loop conditions give  end <= 2pi  and  start >= -2pi  (start <= end bounds the other two)"""
    from .c04 import inequalities

    ps = [a.arg for a in fn.args.args]
    if len(ps) != 2:
        return (False,)
    s_, e_ = ps

    def atoms(x):
        t = norm(x)
        if t == s_:
            return "s"
        if t == e_:
            return "e"
        if t in ("TWO_PI", "2 * math.pi", "2 * np.pi", "2.0 * math.pi", "2.0 * np.pi", "math.tau"):
            return "T"
        return None

    loops = [n for n in fn.body if isinstance(n, ast.While)]
    others = [n for n in fn.body if not isinstance(n, (ast.While, ast.Return)) and not (isinstance(n, ast.Expr) and isinstance(n.value, ast.Constant))]
    if not loops or others:
        raise AnalysisError("make_valid_orientation_interval is not a sequence of shifting loops: outside the analysed vocabulary")
    exit_facts = set()
    for lp in loops:
        shifts = {}
        for st in lp.body:
            if isinstance(st, ast.AugAssign) and isinstance(st.target, ast.Name) and isinstance(st.op, (ast.Add, ast.Sub)) and atoms(st.value) == "T":
                shifts[st.target.id] = "+" if isinstance(st.op, ast.Add) else "-"
            elif isinstance(st, ast.AugAssign) and isinstance(st.target, ast.Name) and isinstance(st.op, (ast.Add, ast.Sub)) and isinstance(st.value, ast.UnaryOp) and isinstance(st.value.op, ast.USub) and atoms(st.value.operand) == "T":
                # x += -T is x -= T
                shifts[st.target.id] = "-" if isinstance(st.op, ast.Add) else "+"
            elif isinstance(st, ast.Assign) and len(st.targets) == 1 and isinstance(st.targets[0], ast.Name) and isinstance(st.value, ast.BinOp) and isinstance(st.value.op, (ast.Add, ast.Sub)) and norm(st.value.left) == st.targets[0].id and atoms(st.value.right) == "T":
                shifts[st.targets[0].id] = "+" if isinstance(st.value.op, ast.Add) else "-"
            else:
                raise AnalysisError("make_valid_orientation_interval: loop statement %s outside the analysed vocabulary" % norm(st)[:60])
        if set(shifts) != {s_, e_} or len(set(shifts.values())) != 1:
            return (False,)
        conds = lp.test.values if isinstance(lp.test, ast.BoolOp) and isinstance(lp.test.op, ast.Or) else [lp.test]
        if isinstance(lp.test, ast.BoolOp) and isinstance(lp.test.op, ast.And):
            raise AnalysisError("make_valid_orientation_interval: conjunctive loop condition outside the analysed vocabulary")
        for c in conds:
            neg = ineq_set(ast.UnaryOp(op=ast.Not(), operand=c), atoms)
            if neg is None:
                raise AnalysisError("make_valid_orientation_interval: loop condition %s outside the analysed vocabulary" % norm(c))
            exit_facts |= neg
    rets = [n for n in fn.body if isinstance(n, ast.Return)]
    if len(rets) != 1 or not isinstance(rets[0].value, ast.Tuple) or [norm(x) for x in rets[0].value.elts] != [s_, e_]:
        return (False,)
    need_hi = (frozenset({"T": 1, "e": -1}.items()), False)  # 2pi - end >= 0
    need_lo = (frozenset({"s": 1, "T": 1}.items()), False)  # start + 2pi >= 0
    return (need_hi in exit_facts and need_lo in exit_facts,)




def numeric_isinstance_ok(test):
    """isinstance(x, T): T must admit int and float (tuple with both, ValidTypes.NUMBERS, numbers.Real/Number)."""
    t = norm(test.args[1])
    if "NUMBERS" in t or "numbers.Real" in t or "numbers.Number" in t:
        return True
    names = {n.id for n in ast.walk(test.args[1]) if isinstance(n, ast.Name)}
    return {"int", "float"} <= names


def dispatch_rule(repo, res, RULE):
    """contains() of Interval and AngleInterval, evaluated for an int, a float and an interval argument: whatever the
    dispatch looks like, a number must reach the number branch (nothing reads .start / .end / .length of it) and an
    interval the interval branch (nothing compares the object itself) — shared with C08 (Q2)."""
    from ..strdom import Ev, FuncV, Obj, Sym, Undecided, _Raise, show

    mod = repo.mod(U)
    for cn in ("Interval", "AngleInterval"):
        cls = repo.cls(U, cn)
        owner, fn = repo.find_method(cls, "contains")
        if fn is None:
            raise AnalysisError("%s.contains missing" % cn)
        qn = "%s.contains" % cn
        for label, arg in (("an int", Sym("x", "int")), ("a float", Sym("x", "float")), ("an interval", Obj(cls, {"_start": Sym("s2", "num"), "_end": Sym("e2", "num")}, label="other interval"))):
            ev = Ev(repo)
            ev.pure_modules = {"np", "numpy", "math", "warnings"}
            compared = []

            def oracle(kind, a, b, compared=compared):
                if kind in ("Lt", "LtE", "Gt", "GtE"):
                    compared.append((a, b))
                    return True
                return None

            ev.oracle = oracle
            # how an angle is measured is the subject of RANGE; here only which branch is taken
            ev.stubs["AngleInterval._offset"] = lambda a: Sym("offset", "num")
            ev.model_calls["vectorized_angle_difference"] = lambda a, k: Sym("difference", "num")
            me = Obj(cls, {"_start": Sym("s1", "num"), "_end": Sym("e1", "num")}, label="interval")
            bad = None
            try:
                ev.call_fn(FuncV(fn, self_val=me, cls=owner, mod=owner.mod), [arg], {}, fn)
                if isinstance(arg, Obj) and any(x is arg or y is arg for x, y in compared):
                    bad = "compares the interval object itself with a number"
            except _Raise as x:
                bad = "raises %s" % x.what
            except Undecided as x:
                raise AnalysisError("%s [%s]: %s" % (qn, label, x))
            except AnalysisError as x:
                if isinstance(arg, Sym) and ("attribute" in str(x) or "<x>" in str(x)):
                    bad = "treats the number as an interval (%s)" % x
                else:
                    raise
            res.check(RULE, "%s [%s]: reaches the branch for its kind" % (qn, label), bad is None, mod, fn, "%s [%s] %s" % (qn, label, bad), "integers (or floats) are sent to the interval branch and raise AttributeError, or an interval is compared like a number", qualname=qn)


def verdict_compares(val):
    """the comparisons a returned truth value is made of (through and / or / not and the arms of a conditional
    expression; the test of a conditional expression selects, it is not part of the verdict)"""
    if isinstance(val, ast.Compare):
        return [val]
    if isinstance(val, ast.BoolOp):
        return [c for v in val.values for c in verdict_compares(v)]
    if isinstance(val, ast.UnaryOp) and isinstance(val.op, ast.Not):
        return verdict_compares(val.operand)
    if isinstance(val, ast.IfExp):
        return verdict_compares(val.body) + verdict_compares(val.orelse)
    return []


def range_rule(repo, res, RULE="RANGE"):
    """interval abstract interpretation of AngleInterval.contains / __contains__ under the class invariant (shared with
    C08, whose orientation clause is exactly this containment)"""
    mod = repo.mod(U)
    av = repo.cls(U, "AngleInterval")
    facts = {}
    for who in ("self", "other"):
        facts["%s.start" % who] = (-TWO_PI, TWO_PI)
        facts["%s.end" % who] = (-TWO_PI, TWO_PI)
        facts["%s.end - %s.start" % (who, who)] = (0.0, TWO_PI)
    n_cmp = 0
    for mn in ("__contains__", "contains"):
        fn = av.methods.get(mn)
        if fn is None:
            raise AnalysisError("AngleInterval.%s missing" % mn)
        it = Interp(repo, mod, av, facts)
        env = {a.arg: TOP for a in fn.args.args[1:]}
        it.run_body(fn.body, env, 0)
        qn = "AngleInterval." + mn
        for node, text, proved in it.asserts:
            res.check(RULE, "%s: assert %s" % (qn, text), proved, mod, node, "%s: assert %s" % (qn, text), "the assertion can fail for an admissible interval (e.g. one longer than pi): containment raises AssertionError", qualname=qn)
        for node, val, e in it.returns:
            for c in verdict_compares(val):
                operands = [c.left] + list(c.comparators)
                if not all(isinstance(o, (ast.LtE, ast.Lt, ast.GtE, ast.Gt)) for o in c.ops):
                    continue
                n_cmp += 1
                rng = [it.eval(o, e, 0) for o in operands]
                asc = all(isinstance(o, (ast.LtE, ast.Lt)) for o in c.ops)
                bound = rng[-1] if asc else rng[0]
                inner = [(o, r) for o, r in zip(operands, rng) if not isinstance(o, ast.Constant)]
                nonneg = all(r[0] >= 0 and r[1] >= TWO_PI - 1e-9 for _o, r in inner)
                res.check(
                    RULE,
                    "%s: %s operands range over [0, 2pi) %s" % (qn, norm(c), [(norm(o), (round(r[0], 3), round(r[1], 3))) for o, r in inner]),
                    nonneg,
                    mod,
                    node,
                    "%s: %s" % (qn, norm(c)),
                    "a compared quantity does not range over [0, 2pi): it is an angle difference wrapped to [-pi, pi] (or otherwise folded) instead of an offset modulo 2pi, so angles more than pi beyond the start are classified wrongly",
                    qualname=qn,
                )
                res.check(
                    RULE,
                    "%s: bound of %s reaches 2pi (range %s)" % (qn, norm(c), (round(bound[0], 3), round(bound[1], 3))),
                    bound[1] >= TWO_PI - 1e-9 and not all(isinstance(o, (ast.Lt, ast.Gt)) for o in c.ops),
                    mod,
                    node,
                    "%s: bound of %s has range [%.3f, %.3f]" % (qn, norm(c), bound[0], bound[1]),
                    "the length the offset is compared with cannot exceed %.3f: intervals longer than that are not represented (or the comparison is strict and excludes the end point)" % bound[1],
                    qualname=qn,
                )
    if n_cmp < 2:
        raise AnalysisError("AngleInterval containment comparisons not found")



def run(repo, res, tier):
    res.rule("RANGE", "AngleInterval containment: asserts proved, offsets non-negative, bound reaches 2pi (interval abstract interpretation)", 4)
    res.rule("DISPATCH", "number/interval dispatch admits int and float (evaluated for an int, a float and an interval argument)", 6)
    res.rule("CLOSED", "Interval predicates are closed and compare the right operands", 5)
    res.rule("IMAGE", "interval arithmetic yields the image set with start <= end through the checking constructor", 5)
    res.rule("REJECT", "start > end is rejected; AngleInterval normalises and bounds the length", 5)
    res.rule("SUBSET", "AngleInterval.contains(interval) compares start offset + argument length with the own length", 1)
    mod = repo.mod(U)
    iv = repo.cls(U, "Interval")
    av = repo.cls(U, "AngleInterval")

    range_rule(repo, res)

    # ------------------------------------------------------------- SUBSET
    from .c04 import inequalities, linear

    fn = av.methods["contains"]
    op = fn.args.args[1].arg
    n_sub = 0
    rd_c = ReachingDefs(fn)
    params_c = [a.arg for a in fn.args.args]
    helpers_c = {k: v for k, v in helper_table(cls_info=av, repo=repo).items() if k[1] not in ("_offset", "offset")}

    def scalar_side(guards):
        """the case stands under `isinstance(op, <numbers>)` (or the false side of its negation)"""
        for _t, pol, t in guards:
            neg = isinstance(t, ast.UnaryOp) and isinstance(t.op, ast.Not)
            t_ = t.operand if neg else t
            if isinstance(t_, ast.Call) and call_name(t_) == "isinstance" and norm(t_.args[0]) == op and "Interval" not in norm(t_.args[1]) and pol != neg:
                return True
        return False

    for case in result_cases(mod, fn, rd_c, params_c):
        if case.value is None or scalar_side(case.guards):
            continue
        r = case.stmt
        if not any(isinstance(x, ast.Attribute) and isinstance(x.value, ast.Name) and x.value.id == op for x in ast.walk(case.value)) and not any(isinstance(x, ast.Call) for x in ast.walk(case.value) if isinstance(x, ast.Call) and isinstance(x.func, ast.Attribute) and isinstance(x.func.value, ast.Name) and x.func.value.id == "self" and x.func.attr not in ("_offset", "offset")):
            continue  # the argument is used as a number here (no start / end / length of it is read): the number side
        n_sub += 1

        def atoms(e):
            t = norm(e)
            if isinstance(e, ast.Call) and norm(e.func) in ("self._offset", "self.offset") and len(e.args) == 1 and norm(e.args[0]) in ("%s.start" % op, "%s._start" % op):
                return "o"
            if t in ("%s.length" % op,):
                return "L2"
            if t in ("self.length",):
                return "L1"
            if t in ("self.end", "self._end"):
                return "e1"
            if t in ("self.start", "self._start"):
                return "s1"
            if t in ("%s.end" % op, "%s._end" % op):
                return "e2"
            if t in ("%s.start" % op, "%s._start" % op):
                return "s2"
            return None

        # locals (start_offset = self._offset(other.start)) and one-return helpers of the class are seen through
        try:
            val = ast.parse(canon(case.value, rd_c, r, params_c, helpers_c), mode="eval").body
        except SyntaxError:
            val = case.value
        if not any(isinstance(x, ast.Attribute) and isinstance(x.value, ast.Name) and x.value.id == op for x in ast.walk(val)):
            n_sub -= 1
            continue  # the argument is used as a number here (no start / end / length of it is read): the number side
        facts = inequalities(val, True, atoms) if isinstance(val, ast.Compare) else []
        # the own length and the length of the argument may be written out as end - start
        want = [{"L1": 1, "o": -1, "L2": -1}, {"L1": 1, "o": -1, "e2": -1, "s2": 1}, {"e1": 1, "s1": -1, "o": -1, "L2": -1}, {"e1": 1, "s1": -1, "o": -1, "e2": -1, "s2": 1}]
        ok = any(f in want and not strict for f, strict in facts)
        res.check("SUBSET", "AngleInterval.contains(interval): offset(start) + length(arg) <= own length", ok, mod, r, "AngleInterval.contains: %s" % norm(val)[:110], "containment of an interval is not decided from where it starts plus how long it is (e.g. only its two end points are tested): an argument that runs across the gap of the interval is reported as contained although its middle is outside", qualname="AngleInterval.contains")
    if n_sub < 1:
        raise AnalysisError("AngleInterval.contains: branch for interval arguments not found")

    # ------------------------------------------------------------- DISPATCH (evaluated)
    dispatch_rule(repo, res, "DISPATCH")

    # ------------------------------------------------------------- CLOSED

    def closed_forms(fn, p):
        """inequality sets of every value the predicate may return (locals, helpers of one return seen through)"""
        rd_ = ReachingDefs(fn)
        params_ = [a.arg for a in fn.args.args]

        def atoms(e):
            t = norm(e)
            return {"self.start": "s1", "self.end": "e1", "%s.start" % p: "s2", "%s.end" % p: "e2", p: "x"}.get(t)

        out = []
        for c in result_cases(mod, fn, rd_, params_):
            if c.value is None:
                continue
            try:
                v = ast.parse(canon(c.value, rd_, c.stmt, params_), mode="eval").body
            except SyntaxError:
                continue
            out.append((ineq_set(v, atoms), norm(v)))
        return out

    def F(**kw):
        return frozenset(kw.items())

    INV = {(F(e2=1, s2=-1), False), (F(e1=1, s1=-1), False)}  # start <= end of either interval: always true
    # contains / __contains__ / overlaps are decided on order cases by evaluation (below, after the helpers)
    # ------------------------------------------------------------- IMAGE  (abstract evaluation, sa/strdom.py)
    # The arithmetic methods are evaluated on an interval whose ends are atoms; the result must be a construction
    # through the class with the expected terms as arguments.  Helpers, lambdas, locals, unpacking, conditional
    # expressions and per-branch returns are all just evaluated.
    from ..strdom import ClassRef, Ctor, Ev, FuncV, Obj, Sym, Term, Undecided, _Raise, same, show

    def case_oracle(vals, extra=None):
        """decides comparisons between atoms (and with 0) by a representative valuation of the sign / order case;
        anything else stays undecided, so code that tests something the case does not determine is refused"""

        def num(v):
            if isinstance(v, Sym) and v.name in vals:
                return vals[v.name]
            if isinstance(v, (int, float)) and not isinstance(v, bool) and v == 0:
                return 0
            return None

        def oracle(kind, x, y):
            if extra is not None:
                r = extra(kind, x, y)
                if r is not None:
                    return r
            if kind == "truth":
                n = num(x)
                return None if n is None else n != 0
            n, m = num(x), num(y)
            if n is None or m is None:
                return None
            return {"Lt": n < m, "LtE": n <= m, "Gt": n > m, "GtE": n >= m, "Eq": n == m, "NotEq": n != m}.get(kind)

        return oracle

    def fresh(cls, start=None, end=None):
        o = Obj(cls, {})
        if start is not None:
            o.fields["_start"], o.fields["_end"] = start, end
        return o

    def evaluate(cls, mname, args, recv, vals=None, extra=None, stubs=None):
        ev = Ev(repo)
        ev.oracle = case_oracle(vals or {}, extra)
        ev.stubs.update(stubs or {})
        owner, fn = repo.find_method(cls, mname)
        if fn is None:
            raise AnalysisError("%s.%s missing" % (cls.name, mname))
        return ev.call_fn(FuncV(fn, self_val=recv, cls=owner, mod=owner.mod), args, {}, fn), ev

    S0, E0, O, N = Sym("start", "num"), Sym("end", "num"), Sym("other", "num"), Sym("ndigits", "num")

    def constructed(r, cls):
        return isinstance(r, Ctor) and r.name in (cls.name, "Interval") and set(r.args) == {"start", "end"}

    for cls in (iv, av):
        for mn, sym in (("__add__", "+"), ("__sub__", "-")):
            fn = repo.find_method(cls, mn)[1]
            try:
                r, _ev = evaluate(cls, mn, [O], fresh(cls, S0, E0))
                ok = constructed(r, cls) and same(r.args["start"], Term(sym, [S0, O])) and same(r.args["end"], Term(sym, [E0, O]))
                got = show(r)
            except _Raise as x:
                ok, got = False, "raises %s" % x.what
            if cls is iv or mn in av.methods:
                res.check("IMAGE", "%s.%s shifts both ends: %s" % (cls.name, mn, got), ok, mod, fn, "%s.%s gives %s" % (cls.name, mn, got), "shifting does not move both end points by the same amount, or the result bypasses the checking constructor", qualname="%s.%s" % (cls.name, mn))
    fn = iv.methods["__round__"]
    try:
        r, _ev = evaluate(iv, "__round__", [N], fresh(iv, S0, E0))
        ok = constructed(r, iv) and same(r.args["start"], Term("round", [S0, N])) and same(r.args["end"], Term("round", [E0, N]))
        got = show(r)
    except _Raise as x:
        ok, got = False, "raises %s" % x.what
    res.check("IMAGE", "Interval.__round__ rounds both ends: %s" % got, ok, mod, fn, "Interval.__round__ gives %s" % got, "rounding does not round both end points, or the result bypasses the checking constructor", qualname="Interval.__round__")
    for mn, sym in (("__mul__", "*"), ("__truediv__", "/")):
        fn = iv.methods[mn]
        bad = []
        for sign, val in (("positive", 2), ("negative", -2), ("zero", 0)):
            try:
                r, _ev = evaluate(iv, mn, [O], fresh(iv, S0, E0), vals={"other": val})
            except _Raise as x:
                if sign != "zero":
                    bad.append("%s factor: raises %s" % (sign, x.what))
                continue
            keep = constructed(r, iv) and same(r.args["start"], Term(sym, [S0, O])) and same(r.args["end"], Term(sym, [E0, O]))
            swap = constructed(r, iv) and same(r.args["start"], Term(sym, [E0, O])) and same(r.args["end"], Term(sym, [S0, O]))
            if not ((sign == "positive" and keep) or (sign == "negative" and swap) or (sign == "zero" and (keep or swap))):
                bad.append("%s factor: %s" % (sign, show(r)))
        res.check("IMAGE", "Interval.%s keeps the order for positive and swaps the ends for negative factors" % mn, not bad, mod, fn, "Interval.%s: %s" % (mn, "; ".join(bad)), "scaling by a negative number yields start > end (rejected by the constructor) or the wrong set, or the result bypasses the checking constructor", qualname="Interval." + mn)

    # ------------------------------------------------------------- CLOSED: intersection (abstract evaluation)
    # order cases of the four end points; the result is compared through the case's valuation (max / min terms and
    # objects selected by a key are both just values there)
    from .c04ev import _num

    fn = iv.methods.get("intersection")
    if fn is None:
        raise AnalysisError("Interval.intersection missing")
    s1, e1, s2, e2 = Sym("s1", "num"), Sym("e1", "num"), Sym("s2", "num"), Sym("e2", "num")
    for label, v in (("disjoint, other to the right", (0, 2, 3, 5)), ("touching in one point", (0, 3, 3, 5)), ("overlapping", (0, 4, 3, 5)), ("other inside", (0, 6, 3, 5)), ("overlapping, other to the left", (3, 5, 0, 4)), ("disjoint, other to the left", (3, 5, 0, 2)), ("equal", (1, 2, 1, 2))):
        vals = dict(zip(("s1", "e1", "s2", "e2"), v))
        bad = None
        try:
            r, _ev = evaluate(iv, "intersection", [fresh(iv, s2, e2)], fresh(iv, s1, e1), vals=vals)
            lo, hi = max(v[0], v[2]), min(v[1], v[3])
            from ..strdom import NONE as _NONE

            if lo > hi:
                if r is not _NONE:
                    bad = "gives %s for disjoint intervals" % show(r)
            elif not constructed(r, iv):
                bad = "gives %s" % show(r)
            else:
                got = (_num(r.args["start"], vals), _num(r.args["end"], vals))
                if got != (float(lo), float(hi)):
                    bad = "gives [%s, %s] = [%g, %g] for [%d, %d] and [%d, %d]" % (show(r.args["start"]), show(r.args["end"]), got[0], got[1], v[0], v[1], v[2], v[3])
        except _Raise as x:
            bad = "raises %s" % x.what
        except Undecided as x:
            raise AnalysisError("Interval.intersection [%s]: %s" % (label, x))
        res.check("CLOSED", "Interval.intersection [%s] = [max(starts), min(ends)] unless disjoint" % label, bad is None, mod, fn, "Interval.intersection [%s] %s" % (label, bad), "the intersection is not exactly the set intersection", qualname="Interval.intersection")

    # ------------------------------------------------------------- CLOSED: contains / in / overlaps (abstract evaluation)
    # a number against [s1, e1] in every order case; an interval [s2, e2] in every order case of the four ends
    xs = Sym("x", "num")
    NUM_CASES = (("below the start", -1, False), ("on the start", 0, True), ("inside", 2, True), ("on the end", 4, True), ("beyond the end", 5, False))
    for mn in ("contains", "__contains__"):
        fn = iv.methods.get(mn)
        if fn is None:
            raise AnalysisError("Interval.%s missing" % mn)
        for label, xv, want in NUM_CASES:
            vals = {"s1": 0, "e1": 4, "x": xv}
            bad = None
            try:
                r, ev_ = evaluate(iv, mn, [xs], fresh(iv, s1, e1), vals=vals)
                got = ev_.truth(r, fn)
                if got is not want:
                    bad = "answers %s for x = %d and [0, 4]" % (got, xv)
            except _Raise as x:
                bad = "raises %s" % x.what
            except Undecided as x:
                raise AnalysisError("Interval.%s [number %s]: %s" % (mn, label, x))
            res.check("CLOSED", "Interval.%s(number) [%s]: start <= x <= end" % (mn, label), bad is None, mod, fn, "Interval.%s [number %s] %s" % (mn, label, bad), "number containment is not the closed interval test", qualname="Interval.%s" % mn)
    INT_CASES = (("other inside", (0, 6, 2, 4)), ("equal", (1, 3, 1, 3)), ("sharing the start", (0, 6, 0, 3)), ("sharing the end", (0, 6, 3, 6)), ("sticking out on the right", (0, 4, 2, 5)), ("sticking out on the left", (2, 6, 1, 4)), ("other around", (2, 4, 0, 6)), ("disjoint", (0, 2, 3, 5)), ("touching", (0, 3, 3, 5)), ("disjoint, other to the left", (3, 5, 0, 2)), ("touching, other to the left", (3, 5, 0, 3)), ("a point inside", (0, 4, 2, 2)), ("a point on the start", (0, 4, 0, 0)), ("a point on the end", (0, 4, 4, 4)))
    for mn, spec, msg in (("contains", lambda v: v[0] <= v[2] and v[3] <= v[1], "interval containment is not containment of both end points in the closed interval"), ("overlaps", lambda v: v[1] >= v[2] and v[3] >= v[0], "intervals that share only an end point (or overlap) are not reported as overlapping, or disjoint ones are")):
        fn = iv.methods.get(mn)
        if fn is None:
            raise AnalysisError("Interval.%s missing" % mn)
        for label, v in INT_CASES:
            vals = dict(zip(("s1", "e1", "s2", "e2"), v))
            bad = None
            try:
                r, ev_ = evaluate(iv, mn, [fresh(iv, s2, e2)], fresh(iv, s1, e1), vals=vals)
                got = ev_.truth(r, fn)
                if got is not spec(v):
                    bad = "answers %s for [%d, %d] and [%d, %d]" % ((got,) + v)
            except _Raise as x:
                bad = "raises %s" % x.what
            except Undecided as x:
                raise AnalysisError("Interval.%s [interval %s]: %s" % (mn, label, x))
            res.check("CLOSED", "Interval.%s(interval) [%s]" % (mn, label), bad is None, mod, fn, "Interval.%s [interval %s] %s" % (mn, label, bad), msg, qualname="Interval.%s" % mn)

    # ------------------------------------------------------------- REJECT  (abstract evaluation)
    ORDERS = [("both positive", 2, 1), ("positive / zero", 1, 0), ("positive / negative", 1, -1), ("zero / negative", 0, -1), ("both negative", -1, -2)]  # (label, larger, smaller)
    VALID = ORDERS + [("equal and zero", 0, 0), ("equal and positive", 1, 1), ("equal and negative", -1, -1)]
    X, LO, HI = Sym("value", "num"), Sym("start", "num"), Sym("end", "num")
    for cls in (iv, av):
        own = {k for k in ("start", "end") if repo.find_prop(cls, k)[0] is cls}
        init = repo.find_method(cls, "__init__")[1]
        if cls is iv:
            # constructor: start > end must raise, start <= end must store both
            bad = []
            for label, big, small in ORDERS:
                try:
                    evaluate(cls, "__init__", [LO, HI], fresh(cls), vals={"start": big, "end": small})
                    bad.append("start > end accepted (%s)" % label)
                except _Raise:
                    pass
            for label, big, small in VALID:
                o = fresh(cls)
                try:
                    evaluate(cls, "__init__", [LO, HI], o, vals={"start": small, "end": big})
                    if not (same(o.fields.get("_start"), LO) and same(o.fields.get("_end"), HI)):
                        bad.append("valid interval stored as %s, %s (%s)" % (show(o.fields.get("_start")), show(o.fields.get("_end")), label))
                except _Raise as x:
                    bad.append("valid interval rejected (%s): %s" % (label, x.what))
            res.check("REJECT", "Interval(start, end) raises exactly when start > end (all sign cases)", not bad, mod, init, "Interval.__init__: %s" % "; ".join(bad[:4]), "an interval with start > end can be created, or a valid one is rejected or stored wrongly", qualname="Interval.__init__")
        for pname in sorted(own):
            st = repo.find_prop(cls, pname)[1]["set"]
            bad = []
            for label, big, small in ORDERS:
                o = fresh(cls, LO, HI)
                vals = {"start": small - 1, "end": small, "value": big} if pname == "start" else {"start": big, "end": big + 1, "value": small}
                ev = Ev(repo)
                ev.oracle = case_oracle(vals)
                try:
                    ev.call_fn(FuncV(st, self_val=o, cls=cls, mod=mod), [X], {}, st)
                    bad.append("%s beyond the other end accepted (%s)" % (pname, label))
                except _Raise:
                    pass
            for label, big, small in VALID:
                o = fresh(cls, LO, HI)
                vals = {"start": small - 1, "end": big, "value": small} if pname == "start" else {"start": small, "end": big + 1, "value": big}
                ev = Ev(repo)
                ev.oracle = case_oracle(vals)
                try:
                    ev.call_fn(FuncV(st, self_val=o, cls=cls, mod=mod), [X], {}, st)
                    if not same(o.fields.get("_" + pname), X):
                        bad.append("valid %s not stored (%s)" % (pname, label))
                except _Raise as x:
                    bad.append("valid %s rejected (%s): %s" % (pname, label, x.what))
            res.check("REJECT", "%s.%s setter raises exactly when the order would be violated (all sign cases)" % (cls.name, pname), not bad, mod, st, "%s.%s setter: %s" % (cls.name, pname, "; ".join(bad[:4])), "an interval with start > end can be created through the setter, or a valid value is rejected", qualname="%s.%s" % (cls.name, pname))
    # AngleInterval(start, end): normalise, bound the length, then the ordered store of the *normalised* values
    ainit = av.methods["__init__"]
    NS, NE = Sym("normalised_start", "num"), Sym("normalised_end", "num")
    norm_calls = []

    def norm_stub(a):
        norm_calls.append(a)
        return TupV([NS, NE])

    def length_fact(too_long):
        # the case: the normalised interval is exactly one full turn long (too long: a length of 2pi is not admitted) /
        # just short of it.  Compared with a number, the length answers by its value; with anything else by the case.
        length = TWO_PI if too_long else TWO_PI - 1e-9

        def extra(kind, x, y):
            is_len = lambda v: isinstance(v, Term) and same(v, Term("-", [NE, NS]))
            numv = lambda v: isinstance(v, (int, float)) and not isinstance(v, bool)
            if kind in ("Lt", "LtE", "Gt", "GtE"):
                if is_len(x) and numv(y):
                    return {"Lt": length < y, "LtE": length <= y, "Gt": length > y, "GtE": length >= y}[kind]
                if is_len(y) and numv(x):
                    return {"Lt": x < length, "LtE": x <= length, "Gt": x > length, "GtE": x >= length}[kind]
                if is_len(x):
                    return {"Lt": not too_long, "LtE": not too_long, "Gt": too_long, "GtE": too_long}[kind]
                if is_len(y):
                    return {"Gt": not too_long, "GtE": not too_long, "Lt": too_long, "LtE": too_long}[kind]
            return None

        return extra

    from ..strdom import TupV

    bad = []
    stubs = {"make_valid_orientation_interval": norm_stub}
    try:
        try:
            evaluate(av, "__init__", [LO, HI], fresh(av), vals={"normalised_start": 0, "normalised_end": 1}, extra=length_fact(True), stubs=stubs)
            bad.append("an interval spanning 2pi or more is accepted")
        except _Raise:
            pass
        try:
            evaluate(av, "__init__", [LO, HI], fresh(av), vals={"normalised_start": 1, "normalised_end": 0}, extra=length_fact(False), stubs=stubs)
            bad.append("start > end accepted after normalisation")
        except _Raise:
            pass
        o = fresh(av)
        try:
            evaluate(av, "__init__", [LO, HI], o, vals={"normalised_start": 0, "normalised_end": 1}, extra=length_fact(False), stubs=stubs)
            if not (same(o.fields.get("_start"), NS) and same(o.fields.get("_end"), NE)):
                bad.append("stores %s, %s instead of the normalised ends" % (show(o.fields.get("_start")), show(o.fields.get("_end"))))
        except _Raise as x:
            bad.append("a valid angle interval is rejected: %s" % x.what)
        if not norm_calls or not all(same(list(c.values())[0], LO) and same(list(c.values())[1], HI) for c in norm_calls):
            bad.append("make_valid_orientation_interval is not applied to (start, end)")
    except Undecided as x:
        raise AnalysisError("AngleInterval.__init__: %s" % x)
    res.check("REJECT", "AngleInterval.__init__ normalises, bounds the length by 2pi and stores the normalised ends in order", not bad, mod, ainit, "AngleInterval.__init__: %s" % "; ".join(bad), "angle intervals are not brought into [-2pi, 2pi], may span 2pi or more, or skip the start <= end check", qualname="AngleInterval.__init__")
    # make_valid_orientation_interval: on exit end <= 2pi and start >= -2pi (with start <= end this bounds both)
    nf = mod.functions.get("make_valid_orientation_interval")
    if nf is None:
        raise AnalysisError("make_valid_orientation_interval missing")
    res.check("REJECT", "make_valid_orientation_interval leaves end <= 2pi and start >= -2pi, shifting both ends alike", *normalise_rule(nf), mod, nf, "make_valid_orientation_interval exit conditions", "an interval reaching beyond -2pi or 2pi is not shifted back: constructing or shifting the angle interval raises", qualname="make_valid_orientation_interval")
    return {"class_invariant": "start, end in [-2pi, 2pi]; 0 <= end - start < 2pi"}

"""C16 — Interval and AngleInterval behave as the closed sets they denote.

  RANGE     interval abstract interpretation of AngleInterval.contains / __contains__ under the
            class invariant (start, end in [-2pi, 2pi], 0 <= end - start < 2pi): every assert is
            proved, every compared quantity is non-negative (an offset modulo 2pi, not a value
            wrapped to [-pi, pi]) and the bound it is compared with can reach up to 2pi
  DISPATCH  number / interval dispatch accepts int and float alike
  CLOSED    Interval.contains / overlaps use non-strict comparisons on the right operands;
            intersection is [max(starts), min(ends)] under the overlap test
  IMAGE     * and / swap the ends exactly in the non-positive branch; + - round keep the order;
            every arithmetic result is constructed through the (re-checking) constructor
  REJECT    constructor and setters reject start > end; AngleInterval normalises then checks < 2pi
"""
import ast
import math

from ..core import AnalysisError, Finding, attr_chain, call_name, canon, dominating_guards, norm, walk_no_nested
from ..dataflow import ReachingDefs
from ..ranges import TOP, Interp

U = "commonroad/common/util.py"
TWO_PI = 2 * math.pi


def C(e, fn):
    return canon(e, ReachingDefs(fn), None, [a.arg for a in fn.args.args])


def _sign_conds(conds, p):
    """which of p > 0, p == 0, p < 0 the conditions (canonical text, polarity) admit; None when a condition is not a
    comparison of p with zero"""
    admit = {"pos", "zero", "neg"}
    table = {"0 < P": {"pos"}, "P < 0": {"neg"}, "0 <= P": {"pos", "zero"}, "P <= 0": {"neg", "zero"}, "P == 0": {"zero"}, "0 == P": {"zero"}, "P != 0": {"pos", "neg"}, "0 != P": {"pos", "neg"}}
    for t, pol in conds:
        k = t.replace("0.0", "0").replace(p, "P")
        if k not in table:
            return None
        admit &= table[k] if pol else ({"pos", "zero", "neg"} - table[k])
    return admit


def image_outcomes(mod, fn, p):
    """[(sign of the factor, (canonical first arg, canonical second arg))] over every way the method constructs its
    result: return per branch, locals assigned per branch, tuple unpacking, conditional expressions"""
    from ..flowtools import alternatives, canon_guards

    rd = ReachingDefs(fn)
    params = [a.arg for a in fn.args.args]

    def expand(e, at, depth=0):
        if isinstance(e, ast.IfExp):
            ct = canon(e.test, rd, at, params)
            return [(v, c + [(ct, True)]) for v, c in expand(e.body, at, depth)] + [(v, c + [(ct, False)]) for v, c in expand(e.orelse, at, depth)]
        if isinstance(e, ast.Name) and e.id not in params and depth < 3:
            alts = alternatives(mod, fn, rd, e.id, at, params)
            if alts and all(v is not None for v, _c in alts):
                out = []
                for v, c in alts:
                    d = [x for x in rd.defs(e.id, at) if x.node is not None]
                    out += [(v2, c + c2) for v2, c2 in expand(v, d[0].stmt if len(d) == 1 else at, depth + 1)] if len(d) == 1 else [(v, c)]
                return out
        return [(e, [])]

    outs = []
    for r in walk_no_nested(fn):
        if not (isinstance(r, ast.Return) and r.value is not None):
            continue
        rg = [(t, pol) for t, pol, _n in canon_guards(mod, r, fn, rd, params)]
        for v, c0 in expand(r.value, r):
            if not (isinstance(v, ast.Call) and len(v.args) == 2 and not v.keywords):
                outs.append((None, (norm(v), "")))
                continue
            for a0, c1 in expand(v.args[0], r):
                for a1, c2 in expand(v.args[1], r):
                    signs = _sign_conds(rg + c0 + c1 + c2, p)
                    if signs is None:
                        outs.append((None, (norm(a0), norm(a1))))
                        continue
                    at0 = rd.stmt_of(a0) or r
                    at1 = rd.stmt_of(a1) or r
                    for sgn in sorted(signs):
                        outs.append((sgn, (canon(a0, rd, at0, params), canon(a1, rd, at1, params))))
    return outs


def ineq_set(e, atoms):
    """conjunction of comparisons -> {(linear form as frozenset, strict)} meaning form > 0 / form >= 0;
    None when some conjunct is not a comparison over the recognised atoms.  `not (a or b)` and negated single
    comparisons are seen through."""
    from .c04 import inequalities

    def pack(fs):
        return {(frozenset(f.items()), st) for f, st in fs}

    if isinstance(e, ast.BoolOp) and isinstance(e.op, ast.And):
        out = set()
        for v in e.values:
            s_ = ineq_set(v, atoms)
            if s_ is None:
                return None
            out |= s_
        return out
    if isinstance(e, ast.UnaryOp) and isinstance(e.op, ast.Not):
        o = e.operand
        if isinstance(o, ast.BoolOp) and isinstance(o.op, ast.Or):
            out = set()
            for v in o.values:
                s_ = ineq_set(ast.UnaryOp(op=ast.Not(), operand=v), atoms)
                if s_ is None:
                    return None
                out |= s_
            return out
        if isinstance(o, ast.Compare) and len(o.ops) == 1:
            fs = inequalities(o, False, atoms)
            return pack(fs) if len(fs) == 1 else None
        if isinstance(o, ast.UnaryOp) and isinstance(o.op, ast.Not):
            return ineq_set(o.operand, atoms)
        return None
    if isinstance(e, ast.Compare):
        fs = inequalities(e, True, atoms)
        return pack(fs) if len(fs) == len(e.ops) else None
    return None


def _ifexp_leaves(e):
    if isinstance(e, ast.IfExp):
        return _ifexp_leaves(e.body) + _ifexp_leaves(e.orelse)
    return [e]


def numeric_isinstance_ok(test):
    """isinstance(x, T): T must admit int and float (tuple with both, ValidTypes.NUMBERS, numbers.Real/Number)."""
    t = norm(test.args[1])
    if "NUMBERS" in t or "numbers.Real" in t or "numbers.Number" in t:
        return True
    names = {n.id for n in ast.walk(test.args[1]) if isinstance(n, ast.Name)}
    return {"int", "float"} <= names


def run(repo, res, tier):
    res.rule("RANGE", "AngleInterval containment: asserts proved, offsets non-negative, bound reaches 2pi (interval abstract interpretation)", 4)
    res.rule("DISPATCH", "number/interval dispatch admits int and float", 2)
    res.rule("CLOSED", "Interval predicates are closed and compare the right operands", 5)
    res.rule("IMAGE", "interval arithmetic yields the image set with start <= end through the checking constructor", 8)
    res.rule("REJECT", "start > end is rejected; AngleInterval normalises and bounds the length", 5)
    res.rule("SUBSET", "AngleInterval.contains(interval) compares start offset + argument length with the own length", 1)
    mod = repo.mod(U)
    iv = repo.cls(U, "Interval")
    av = repo.cls(U, "AngleInterval")

    # ------------------------------------------------------------- RANGE
    facts = {}
    for who in ("self", "other"):
        facts["%s.start" % who] = (-TWO_PI, TWO_PI)
        facts["%s.end" % who] = (-TWO_PI, TWO_PI)
        facts["%s.end - %s.start" % (who, who)] = (0.0, TWO_PI)
    n_cmp = 0
    for mn in ("__contains__", "contains"):
        fn = av.methods.get(mn)
        if fn is None:
            raise AnalysisError("AngleInterval.%s missing" % mn)
        it = Interp(repo, mod, av, facts)
        env = {a.arg: TOP for a in fn.args.args[1:]}
        it.run_body(fn.body, env, 0)
        qn = "AngleInterval." + mn
        for node, text, proved in it.asserts:
            res.check("RANGE", "%s: assert %s" % (qn, text), proved, mod, node, "%s: assert %s" % (qn, text), "the assertion can fail for an admissible interval (e.g. one longer than pi): containment raises AssertionError", qualname=qn)
        for node, val, e in it.returns:
            cmps = [c for c in ast.walk(val) if isinstance(c, ast.Compare)]
            for c in cmps:
                operands = [c.left] + list(c.comparators)
                if not all(isinstance(o, (ast.LtE, ast.Lt, ast.GtE, ast.Gt)) for o in c.ops):
                    continue
                n_cmp += 1
                rng = [it.eval(o, e, 0) for o in operands]
                asc = all(isinstance(o, (ast.LtE, ast.Lt)) for o in c.ops)
                bound = rng[-1] if asc else rng[0]
                inner = [(o, r) for o, r in zip(operands, rng) if not isinstance(o, ast.Constant)]
                nonneg = all(r[0] >= 0 and r[1] >= TWO_PI - 1e-9 for _o, r in inner)
                res.check(
                    "RANGE",
                    "%s: %s operands range over [0, 2pi) %s" % (qn, norm(c), [(norm(o), (round(r[0], 3), round(r[1], 3))) for o, r in inner]),
                    nonneg,
                    mod,
                    node,
                    "%s: %s" % (qn, norm(c)),
                    "a compared quantity does not range over [0, 2pi): it is an angle difference wrapped to [-pi, pi] (or otherwise folded) instead of an offset modulo 2pi, so angles more than pi beyond the start are classified wrongly",
                    qualname=qn,
                )
                res.check(
                    "RANGE",
                    "%s: bound of %s reaches 2pi (range %s)" % (qn, norm(c), (round(bound[0], 3), round(bound[1], 3))),
                    bound[1] >= TWO_PI - 1e-9 and not all(isinstance(o, (ast.Lt, ast.Gt)) for o in c.ops),
                    mod,
                    node,
                    "%s: bound of %s has range [%.3f, %.3f]" % (qn, norm(c), bound[0], bound[1]),
                    "the length the offset is compared with cannot exceed %.3f: intervals longer than that are not represented (or the comparison is strict and excludes the end point)" % bound[1],
                    qualname=qn,
                )
    if n_cmp < 2:
        raise AnalysisError("AngleInterval containment comparisons not found")

    # ------------------------------------------------------------- SUBSET
    from .c04 import inequalities, linear

    fn = av.methods["contains"]
    op = fn.args.args[1].arg
    n_sub = 0
    for r in walk_no_nested(fn):
        if not (isinstance(r, ast.Return) and r.value is not None):
            continue
        g = dominating_guards(mod, r, stop=fn)
        if any(pol and isinstance(t, ast.Call) and call_name(t) == "isinstance" and norm(t.args[0]) == op and "Interval" not in norm(t.args[1]) for t, pol in g):
            continue  # the scalar branch
        n_sub += 1

        def atoms(e):
            t = norm(e)
            if isinstance(e, ast.Call) and norm(e.func) in ("self._offset", "self.offset") and len(e.args) == 1 and norm(e.args[0]) in ("%s.start" % op, "%s._start" % op):
                return "o"
            if t in ("%s.length" % op,):
                return "L2"
            if t in ("self.length",):
                return "L1"
            if t in ("%s.end" % op, "%s._end" % op):
                return "e2"
            if t in ("%s.start" % op, "%s._start" % op):
                return "s2"
            return None

        # locals (start_offset = self._offset(other.start)) are seen through
        rd_c = ReachingDefs(fn)
        try:
            val = ast.parse(canon(r.value, rd_c, r, [a.arg for a in fn.args.args]), mode="eval").body
        except SyntaxError:
            val = r.value
        facts = inequalities(val, True, atoms) if isinstance(val, ast.Compare) else []
        want = [{"L1": 1, "o": -1, "L2": -1}, {"L1": 1, "o": -1, "e2": -1, "s2": 1}]
        ok = any(f in want and not strict for f, strict in facts)
        res.check("SUBSET", "AngleInterval.contains(interval): offset(start) + length(arg) <= own length", ok, mod, r, "AngleInterval.contains: %s" % norm(r)[:110], "containment of an interval is not decided from where it starts plus how long it is (e.g. only its two end points are tested): an argument that runs across the gap of the interval is reported as contained although its middle is outside", qualname="AngleInterval.contains")
    if n_sub < 1:
        raise AnalysisError("AngleInterval.contains: branch for interval arguments not found")

    # ------------------------------------------------------------- DISPATCH
    for cls in (iv, av):
        fn = cls.methods.get("contains")
        if fn is None:
            continue
        p = fn.args.args[1].arg
        for n in walk_no_nested(fn):
            if isinstance(n, ast.Call) and call_name(n) == "isinstance" and norm(n.args[0]) == p:
                t = norm(n.args[1])
                if "Interval" in t:
                    res.ok("DISPATCH", "%s.contains dispatches on the interval side (%s)" % (cls.name, t))
                else:
                    res.check("DISPATCH", "%s.contains: %s admits int and float" % (cls.name, norm(n)), numeric_isinstance_ok(n), mod, n, "%s.contains: %s" % (cls.name, norm(n)), "integers (or floats) are sent to the interval branch and raise AttributeError", qualname="%s.contains" % cls.name)
            if isinstance(n, ast.Compare) and isinstance(n.left, ast.Call) and call_name(n.left) == "type" and norm(n.left.args[0]) == p:
                t = norm(n.comparators[0])
                res.check("DISPATCH", "%s.contains dispatches on %s" % (cls.name, norm(n)), "Interval" in t, mod, n, "%s.contains: %s" % (cls.name, norm(n)), "dispatch on a concrete numeric type excludes the other numeric types", qualname="%s.contains" % cls.name)

    # ------------------------------------------------------------- CLOSED
    from ..flowtools import result_cases

    def closed_forms(fn, p):
        """inequality sets of every value the predicate may return (locals, helpers of one return seen through)"""
        rd_ = ReachingDefs(fn)
        params_ = [a.arg for a in fn.args.args]

        def atoms(e):
            t = norm(e)
            return {"self.start": "s1", "self.end": "e1", "%s.start" % p: "s2", "%s.end" % p: "e2", p: "x"}.get(t)

        out = []
        for c in result_cases(mod, fn, rd_, params_):
            if c.value is None:
                continue
            try:
                v = ast.parse(canon(c.value, rd_, c.stmt, params_), mode="eval").body
            except SyntaxError:
                continue
            out.append((ineq_set(v, atoms), norm(v)))
        return out

    def F(**kw):
        return frozenset(kw.items())

    INV = {(F(e2=1, s2=-1), False), (F(e1=1, s1=-1), False)}  # start <= end of either interval: always true
    fn = iv.methods["contains"]
    p = fn.args.args[1].arg
    forms = closed_forms(fn, p)
    want_num = {(F(x=1, s1=-1), False), (F(e1=1, x=-1), False)}
    want_int = {(F(s2=1, s1=-1), False), (F(e1=1, e2=-1), False)}
    shown = [t for _s, t in forms]
    res.check("CLOSED", "Interval.contains(number): start <= x <= end", any(s is not None and s - INV == want_num for s, _t in forms), mod, fn, "Interval.contains number branch %s" % shown, "number containment is not the closed interval test", qualname="Interval.contains")
    res.check("CLOSED", "Interval.contains(interval): start <= o.start and o.end <= end", any(s is not None and s - INV == want_int for s, _t in forms), mod, fn, "Interval.contains interval branch %s" % shown, "interval containment is not containment of both end points in the closed interval", qualname="Interval.contains")
    fn = iv.methods["__contains__"]
    rets = [n for n in walk_no_nested(fn) if isinstance(n, ast.Return)]
    res.check("CLOSED", "Interval.__contains__ delegates to contains", len(rets) == 1 and C(rets[0].value, fn) == "self.contains(%s)" % fn.args.args[1].arg, mod, fn, "Interval.__contains__", "`in` and contains() disagree", qualname="Interval.__contains__")
    fn = iv.methods["overlaps"]
    p = fn.args.args[1].arg
    forms = closed_forms(fn, p)
    want_ov = {(F(e1=1, s2=-1), False), (F(e2=1, s1=-1), False)}
    ok = len(forms) == 1 and forms[0][0] is not None and forms[0][0] - INV == want_ov
    res.check("CLOSED", "Interval.overlaps: end >= o.start and o.end >= start (closed)", ok, mod, fn, "Interval.overlaps %s" % [t for _s, t in forms], "intervals that share only an end point (or overlap) are not reported as overlapping, or disjoint ones are", qualname="Interval.overlaps")
    fn = iv.methods["intersection"]
    p = fn.args.args[1].arg
    rets = [n for n in walk_no_nested(fn) if isinstance(n, ast.Return)]
    none_ret = [r for r in rets if isinstance(r.value, ast.Constant) and r.value.value is None]
    val_ret = [r for r in rets if not (isinstance(r.value, ast.Constant) and r.value.value is None)]
    ok = len(none_ret) == 1 and len(val_ret) == 1
    if ok:
        g = [(norm(t), pol) for t, pol in dominating_guards(mod, none_ret[0], stop=fn)]
        ok = ("self.overlaps(%s)" % p, False) in g
        v = val_ret[0].value
        ok = ok and isinstance(v, ast.Call) and norm(v.func) in ("Interval", "type(self)") and len(v.args) == 2
        if ok:
            a0, a1 = C(v.args[0], fn).replace("other._", "other."), C(v.args[1], fn).replace("other._", "other.")
            ok = a0 in ("max(self.start, %s.start)" % p, "max(%s.start, self.start)" % p) and a1 in ("min(self.end, %s.end)" % p, "min(%s.end, self.end)" % p)
    res.check("CLOSED", "Interval.intersection = [max(starts), min(ends)] unless disjoint", ok, mod, fn, "Interval.intersection", "the intersection is not exactly the set intersection", qualname="Interval.intersection")

    # ------------------------------------------------------------- IMAGE
    for mn, op in (("__mul__", "*"), ("__truediv__", "/")):
        fn = iv.methods[mn]
        p = fn.args.args[1].arg
        outs = image_outcomes(mod, fn, p)
        keep = ("self.start %s %s" % (op, p), "self.end %s %s" % (op, p))
        swap = (keep[1], keep[0])
        ok = bool(outs) and {s for s, _a in outs} >= {"pos", "neg"}
        for sign, args in outs:
            ok = ok and ((sign == "pos" and args == keep) or (sign == "neg" and args == swap) or (sign == "zero" and args in (keep, swap)))
        res.check("IMAGE", "Interval.%s keeps the order for positive and swaps the ends for non-positive factors" % mn, ok, mod, fn, "Interval.%s" % mn, "scaling by a negative number yields start > end (rejected by the constructor) or the wrong set", qualname="Interval." + mn)
    for mn, want in (("__add__", "type(self)(self.start + {p}, self.end + {p})"), ("__sub__", "type(self)(self.start - {p}, self.end - {p})")):
        fn = iv.methods[mn]
        p = fn.args.args[1].arg
        rets = [n for n in walk_no_nested(fn) if isinstance(n, ast.Return)]
        res.check("IMAGE", "Interval.%s shifts both ends" % mn, len(rets) == 1 and C(rets[0].value, fn) == want.format(p=p), mod, fn, "Interval.%s" % mn, "shifting does not move both end points by the same amount", qualname="Interval." + mn)
    fn = iv.methods["__round__"]
    rets = [n for n in walk_no_nested(fn) if isinstance(n, ast.Return)]
    pn = fn.args.args[1].arg
    res.check("IMAGE", "Interval.__round__ rounds both ends", len(rets) == 1 and C(rets[0].value, fn) == "type(self)(round(self.start, %s), round(self.end, %s))" % (pn, pn), mod, fn, "Interval.__round__", "rounding does not round both end points", qualname="Interval.__round__")
    # every arithmetic method constructs through the constructor
    for mn in ("__mul__", "__truediv__", "__add__", "__sub__", "__round__"):
        fn = iv.methods[mn]
        rets = [n for n in walk_no_nested(fn) if isinstance(n, ast.Return)]
        ok = bool(rets) and all(isinstance(v, ast.Call) and norm(v.func) in ("type(self)", "Interval", "self.__class__") for r in rets for v in _ifexp_leaves(r.value))
        res.check("IMAGE", "Interval.%s constructs its result through the constructor" % mn, ok, mod, fn, "Interval.%s result construction" % mn, "the result bypasses the constructor, so start <= end (and the angle range) is not re-checked", qualname="Interval." + mn)
    # AngleInterval must not override arithmetic with unchecked versions
    for mn in ("__add__", "__sub__"):
        if mn in av.methods:
            fn = av.methods[mn]
            rets = [n for n in walk_no_nested(fn) if isinstance(n, ast.Return)]
            ok = bool(rets) and all(isinstance(r.value, ast.Call) and norm(r.value.func) in ("type(self)", "AngleInterval", "self.__class__") for r in rets)
            res.check("IMAGE", "AngleInterval.%s constructs through the constructor" % mn, ok, mod, fn, "AngleInterval.%s" % mn, "shifted angle intervals are not normalised", qualname="AngleInterval." + mn)

    # ------------------------------------------------------------- REJECT
    for cls in (iv, av):
        for pname, cmp_ok in (("start", ("{v} <= self.end",)), ("end", ("{v} >= self.start", "self.start <= {v}"))):
            _c, p = repo.find_prop(cls, pname)
            if cls is av and _c is not av:
                continue
            st = p["set"]
            v = st.args.args[1].arg
            asserts = [C(a.test, st) for a in walk_no_nested(st) if isinstance(a, ast.Assert)]
            want = tuple(x.format(v=v) for x in cmp_ok) + (("%s <= self.end" % v,) if pname == "start" else ())
            ok = any(a in want for a in asserts)
            res.check("REJECT", "%s.%s setter asserts start <= end" % (cls.name, pname), ok, mod, st, "%s.%s setter asserts %s" % (cls.name, pname, asserts), "an interval with start > end can be created", qualname="%s.%s" % (cls.name, pname))
    init = iv.methods["__init__"]
    stores = [norm(n.targets[0]) for n in init.body if isinstance(n, ast.Assign)]
    ok = "self.start" in stores and "self.end" in stores and stores.index("self.end") > stores.index("self.start")
    res.check("REJECT", "Interval.__init__ assigns through the checking setters", ok, mod, init, "Interval.__init__ stores %s" % stores, "the constructor bypasses the start <= end check", qualname="Interval.__init__")
    ainit = av.methods["__init__"]
    body = [norm(s) for s in ainit.body if not (isinstance(s, ast.Expr) and isinstance(s.value, ast.Constant))]
    has_norm = any("make_valid_orientation_interval(start, end)" in b for b in body)
    asserts = [a for a in ainit.body if isinstance(a, ast.Assert)]
    has_len = any(C(a.test, ainit) in ("end - start < TWO_PI", "end - start < 2 * math.pi", "end - start < 2 * np.pi") for a in asserts)
    has_super = any("Interval.__init__(self, start, end)" in b or "super().__init__(start, end)" in b for b in body)
    res.check("REJECT", "AngleInterval.__init__ normalises, bounds the length by 2pi and delegates", has_norm and has_len and has_super, mod, ainit, "AngleInterval.__init__ %s" % body, "angle intervals are not brought into [-2pi, 2pi], may span 2pi or more, or skip the start <= end check", qualname="AngleInterval.__init__")
    return {"class_invariant": "start, end in [-2pi, 2pi]; 0 <= end - start < 2pi"}

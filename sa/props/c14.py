"""C14 — solution files round-trip exactly and follow the solution schema (engines E-TABLE, E-NUMFMT).

The writer and the reader are both driven by two index-aligned constant tables (StateFields,
XMLStateFields); the rules compare these tables with each other, with the enums that index them,
with the dataclasses the reader instantiates and with the shipped XSD.
"""
import ast

from ..core import canon, AnalysisError, Finding, attr_chain, call_name, norm, walk_no_nested
from ..schema import XSD

SO = "commonroad/common/solution.py"
ST = "commonroad/scenario/state.py"
XSD_REL = "commonroad/scenario_definition/xml_definition_files/CommonRoadSolution_schema.xsd"


def lit(node):
    """Python value of a literal list / tuple / str / number AST."""
    return ast.literal_eval(node)


def flat(xs):
    out = []
    for x in xs:
        out += list(x) if isinstance(x, tuple) else [x]
    return out


def letters(name):
    return "".join(sorted(name.replace("_", "").lower()))


def run(repo, res, tier):
    res.rule("TAB-ALIGN", "StateFields / XMLStateFields / StateType / TrajectoryType are keyed alike and index-aligned", 20)
    res.rule("TAB-XSD", "XML names and header attributes equal the solution schema's elements, attributes and numeric types", 12)
    res.rule("TAB-CLASS", "every state type is readable: the reader's class table covers it and the class has all its fields", 14)
    res.rule("NUMFMT", "numbers are written losslessly and read back with the matching parser; states are ordered by time", 8)
    res.rule("ID-ROUNDTRIP", "vehicle models, vehicle types, cost functions, planning problem ids and trajectories of a written solution are read back for the same planning problem (abstract evaluation of writer and reader, shared with C13)", 5)
    from .c13 import solution_roundtrip_rules

    solution_roundtrip_rules(repo, res, "ID-ROUNDTRIP")
    mod = repo.mod(SO)

    def enum_table(name):
        """member name -> value as python data; the member expressions are folded with the abstract evaluator, so
        tables built from shared prefixes, unpacking or comprehensions over constants are read like literal ones"""
        from ..strdom import Ev, ListV, Str

        c = repo.cls(SO, name)

        def py(v):
            if isinstance(v, Str) and v.is_lit():
                return v.text()
            if isinstance(v, ListV):
                return tuple(py(x) for x in v.items) if type(v).__name__ == "TupV" else [py(x) for x in v.items]
            if isinstance(v, (int, float, bool)):
                return v
            raise AnalysisError("%s: member value %r is not a constant table" % (name, v))

        out = {}
        for k, v in c.enum_members().items():
            try:
                out[k] = lit(v)
            except (ValueError, SyntaxError):
                out[k] = py(Ev(repo).ev(v, {"__mod__": c.mod}, c.mod))
        return out

    sf = enum_table("StateFields")
    xf = enum_table("XMLStateFields")
    stype = enum_table("StateType")
    ttype = enum_table("TrajectoryType")
    keys = set(sf)
    for nm, tab in (("XMLStateFields", xf), ("StateType", stype), ("TrajectoryType", ttype)):
        res.check("TAB-ALIGN", "%s has the same member names as StateFields" % nm, set(tab) == keys, mod, repo.cls(SO, nm).node, "%s members %s vs StateFields %s" % (nm, sorted(tab), sorted(keys)), "a trajectory/state type exists in one table only: writing or reading it raises KeyError", qualname=nm)
    # lookups by self.name
    stc = repo.cls(SO, "StateType")
    for prop, table in (("fields", "StateFields"), ("xml_fields", "XMLStateFields")):
        g = stc.props[prop]["get"]
        rets = [n for n in walk_no_nested(g) if isinstance(n, ast.Return)]
        ok = len(rets) == 1 and norm(rets[0].value) == "%s[self.name].value" % table
        res.check("TAB-ALIGN", "StateType.%s = %s[self.name]" % (prop, table), ok, mod, g, "StateType.%s" % prop, "the field table is not looked up by the state type's own name", qualname="StateType." + prop)
    g = repo.cls(SO, "TrajectoryType").props["state_type"]["get"]
    rets = [n for n in walk_no_nested(g) if isinstance(n, ast.Return)]
    res.check("TAB-ALIGN", "TrajectoryType.state_type = StateType[self.name]", len(rets) == 1 and norm(rets[0].value) == "StateType[self.name]", mod, g, "TrajectoryType.state_type", "trajectory and state type are not paired by name", qualname="TrajectoryType.state_type")
    for k in sorted(keys):
        a, b = sf[k], xf.get(k, [])
        res.check("TAB-ALIGN", "%s: %d fields, %d xml names" % (k, len(a), len(b)), len(a) == len(b), mod, repo.cls(SO, "XMLStateFields").enum_members().get(k), "StateFields.%s has %d entries, XMLStateFields.%s has %d" % (k, len(a), k, len(b)), "zip() silently drops the surplus fields: they are neither written nor read", qualname="XMLStateFields")
        for i, (f, x) in enumerate(zip(a, b)):
            if isinstance(x, tuple):
                ok = f == "position" and x == ("x", "y")
            elif f == "time_step":
                ok = x == "time"
            else:
                xs = x[1:] if len(x) > 1 and x[0] == "x" and x[1].isupper() else x
                ok = letters(xs) == letters(f)
            res.check("TAB-ALIGN", "%s[%d]: %s <-> %s" % (k, i, f, x), ok, mod, repo.cls(SO, "XMLStateFields").enum_members().get(k), "%s[%d]: field %s paired with xml name %s" % (k, i, f, x), "the tables are not index-aligned: a value is written under (and read from) the element of another quantity", qualname="XMLStateFields")
        res.check("TAB-ALIGN", "%s: no duplicate fields / xml names" % k, len(set(a)) == len(a) and len(set(flat(b))) == len(flat(b)), mod, repo.cls(SO, "StateFields").node, "duplicates in %s tables" % k, "two values share one element name", qualname="StateFields")

    # ---------------------------------------------------------------- XSD
    xsd = XSD(repo.read_data_file(XSD_REL), XSD_REL)
    root = xsd.elements.get("CommonRoadSolution")
    if root is None or root[4] is None:
        raise AnalysisError("CommonRoadSolution element not found in the solution schema")
    rt = root[4]
    xsd_traj = {}
    for cname, _t, _mn, _mx, ct in rt.children:
        if ct is None or not ct.children:
            raise AnalysisError("solution schema: trajectory %s has no inline state type" % cname)
        sname, _st, _a, _b, sct = ct.children[0]
        xsd_traj[cname] = (sname, sct, ct)
    inv_t = {v: k for k, v in ttype.items()}
    for cname, (sname, sct, ct) in xsd_traj.items():
        k = inv_t.get(cname)
        res.check("TAB-XSD", "schema trajectory <%s> is a TrajectoryType value" % cname, k is not None, mod, repo.cls(SO, "TrajectoryType").node, "schema element %s" % cname, "the writer never produces this schema element under that name", qualname="TrajectoryType")
        if k is None:
            continue
        res.check("TAB-XSD", "%s: state element <%s> = StateType.%s" % (cname, sname, k), stype.get(k) == sname, mod, repo.cls(SO, "StateType").node, "StateType.%s = %s, schema says %s" % (k, stype.get(k), sname), "state elements are written under a name the schema does not allow inside <%s>" % cname, qualname="StateType")
        names = sorted(c[0] for c in sct.children)
        res.check("TAB-XSD", "%s: xml names = schema children %s" % (k, names), sorted(flat(xf[k])) == names, mod, repo.cls(SO, "XMLStateFields").enum_members().get(k), "XMLStateFields.%s %s vs schema %s" % (k, sorted(flat(xf[k])), names), "the written state elements differ from what the solution schema requires", qualname="XMLStateFields")
        ints = sorted(c[0] for c in sct.children if xsd.numeric_kind(c[1]) == "int")
        res.check("TAB-XSD", "%s: schema integer elements = ['time']" % k, ints == ["time"], mod, None, "schema int elements of %s: %s" % (sname, ints), "reader parses only 'time' as int", qualname=sname)
        attrs = sorted(a[0] for a in ct.attributes)
        res.check("TAB-XSD", "%s: trajectory attributes %s" % (k, attrs), attrs == ["planningProblem"], mod, None, "schema attributes of %s: %s" % (cname, attrs), "the writer sets planningProblem only", qualname=cname)
    hdr_schema = sorted(a[0] for a in rt.attributes)
    wr = repo.cls(SO, "CommonRoadSolutionWriter")
    crn = wr.methods["_create_root_node"]
    rdr = repo.cls(SO, "CommonRoadSolutionReader")
    ph = rdr.methods["_parse_header"]
    # header: writer's root node -> reader's header parser, evaluated against an element model (c14ev)
    from . import c14ev

    c14ev.header_rule(repo, res, hdr_schema, "CommonRoadSolution")

    # ---------------------------------------------------------------- class table (a dict literal StateType.X -> class;
    # it may be a local of _parse_state, a class-level or a module-level constant)
    from ..dataflow import ReachingDefs
    from ..flowtools import result_cases

    ps = rdr.methods["_parse_state"]
    prd = ReachingDefs(ps)
    rets = [n for n in walk_no_nested(ps) if isinstance(n, ast.Return) and n.value is not None]
    table = None
    tparam = ps.args.args[1].arg
    ret_ok = False
    if len(rets) == 1 and isinstance(rets[0].value, ast.Call) and isinstance(rets[0].value.func, ast.Subscript):
        call = rets[0].value
        tv = call.func.value
        cand = None
        if isinstance(tv, ast.Name):
            ds = [d.node for d in prd.defs(tv.id, rets[0]) if d.node is not None]
            cand = ds[0] if len(ds) == 1 else mod.assigns.get(tv.id)
        elif isinstance(tv, ast.Attribute) and isinstance(tv.value, ast.Name) and tv.value.id in ("cls", "self", rdr.name):
            cand = rdr.class_assigns.get(tv.attr)
        if isinstance(cand, ast.Dict) and all(norm(k).startswith("StateType.") for k in cand.keys):
            table = {norm(k).split(".")[1]: norm(v) for k, v in zip(cand.keys, cand.values)}
        ret_ok = norm(call.func.slice) == tparam and not call.args and len(call.keywords) == 1 and call.keywords[0].arg is None
    if table is None:
        raise AnalysisError("_parse_state: state class table not found")
    for k in sorted(keys):
        res.check("TAB-CLASS", "reader has a state class for StateType.%s" % k, k in table, mod, ps, "_parse_state class table lacks StateType.%s" % k, "a solution of this type can be written but reading it back raises KeyError", qualname="CommonRoadSolutionReader._parse_state")
        if k in table:
            c = repo.resolve_class(mod, table[k])
            if c is None:
                raise AnalysisError("state class %s not found" % table[k])
            fields = set(repo.dataclass_fields(c))
            missing = [f for f in sf[k] if f not in fields]
            res.check("TAB-CLASS", "%s has all fields of StateFields.%s" % (c.name, k), not missing, mod, ps, "%s lacks %s" % (c.name, missing), "the reader passes a keyword the state class does not accept (TypeError)", qualname="CommonRoadSolutionReader._parse_state")
    res.check("TAB-CLASS", "_parse_state instantiates table[state_type](**values)", ret_ok, mod, ps, "_parse_state return", "the parsed values are not passed to the class selected by the state type", qualname="CommonRoadSolutionReader._parse_state")
    # reader and writer walk the same zipped tables (loop or comprehension, with or without list(..))
    # writer and reader pair xml names and fields alike: decided by evaluating both on a state of every type
    from . import c14ev as _c14ev

    _c14ev.state_rule(repo, res)
    _c14ev.trajectory_type_rule(repo, res)
    _c14ev.optional_metadata_rule(repo, res, "TAB-XSD")

    # ---------------------------------------------------------------- number formatting
    _c14ev.number_text_rule(repo, res)
    # parsing of the element text (float everywhere, int for the time step) is decided by the state round trip (c14ev.state_rule)
    # trajectory node (tag, planning problem id, states in order, time ordering on reading), header numbers and dates:
    # decided by evaluating writer and reader against an element model (c14ev) — see also header_rule above
    c14ev.trajectory_rule(repo, res)
    return {"state_fields": {k: len(v) for k, v in sf.items()}, "xsd_trajectories": sorted(xsd_traj)}

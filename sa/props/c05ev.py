"""C05 fan-out decided by abstract evaluation: a container's translate_rotate moves *every* element it holds.

The container object is a model whose element collections hold element models; an element's `translate_rotate`
records the arguments it is called with and hands out a fresh "moved" object (classes written in the immutable style
keep what is handed out, classes written in the in-place style ignore it).  The elements differ in the attributes
guards are likely to test (a position region or a point, an orientation or none, ...).  After the evaluated call

    every element has been asked to move exactly once, with exactly the method's own (translation, angle), and where
    the container stores what the element hands out, it stores the moved object of *that* element at its place.

Validation helpers of the repository (`is_real_number_vector`, ...) are taken as satisfied.
"""
from ..core import AnalysisError
from ..strdom import NONE, ClassRef, Ctor, DictV, Ev, ListV, Obj, PyFunc, SetV, Sym, Undecided, _Raise, show

G = "commonroad/planning/goal.py"
PP = "commonroad/planning/planning_problem.py"
T = "commonroad/scenario/trajectory.py"
P = "commonroad/prediction/prediction.py"
SH = "commonroad/geometry/shape.py"


class Element:
    def __init__(self, label, extra, lenient=False):
        from ..strdom import Lenient

        self.calls = []
        self.moved = Lenient("moved %s" % label) if lenient else Obj(None, dict(extra), closed=False, label="moved %s" % label)
        f = dict(extra)
        f["translate_rotate"] = PyFunc(self._tr, "translate_rotate")
        if lenient:
            self.obj = Lenient(label)
            self.obj.fields.update(f)
            self.moved.fields.update(extra)
        else:
            self.obj = Obj(None, f, closed=False, label=label)
        self.moved.fields["translate_rotate"] = PyFunc(lambda a, k: (self.calls.append(("again",)), self.moved)[1], "translate_rotate")

    def _tr(self, a, k):
        self.calls.append((a[0] if a else k.get("translation"), a[1] if len(a) > 1 else k.get("angle")))
        return self.moved


def fanout_rules(repo, res, RULE="T3-FANOUT"):
    t, an = Sym("translation", "num"), Sym("angle", "num")

    def variants(kind, n=3):
        out = []
        for i in range(n):
            extra = {"is_uncertain_position": i % 2 == 0, "is_uncertain_orientation": i % 3 == 0, "time_step": 4 + i, "position": Sym("position %d" % i, "num") if i != 1 else NONE, "orientation": Sym("orientation %d" % i, "num") if i != 2 else NONE}
            extra["has_value"] = PyFunc(lambda a, k, e=extra: e.get(a[0].text()) is not NONE and a[0].text() in e, "has_value")
            extra["used_attributes"] = ListV([])
            out.append(Element("%s %d" % (kind, i), extra))
        return out

    def run(label, rel, cname, build, collect):
        cls = repo.cls(rel, cname)
        owner, fn = repo.find_method(cls, "translate_rotate")
        if fn is None:
            raise AnalysisError("%s.translate_rotate missing" % cname)
        qn = "%s.translate_rotate" % cname
        ev = Ev(repo)
        ev.pure_modules = {"np", "numpy", "math", "warnings"}
        ev.assume_valid = True
        elems, me = build(cls)
        bad = []
        try:
            r = ev.call_fn(ev.bind(fn, owner, me), [t, an], {}, fn)
            held = collect(me, r)
            for i, e in enumerate(elems):
                first = [c for c in e.calls if c != ("again",)]
                if len(first) != 1 or ("again",) in e.calls:
                    bad.append("%s is moved %d times" % (e.obj.label, len(e.calls)))
                elif first[0][0] is not t or first[0][1] is not an:
                    bad.append("%s is moved by (%s, %s), not by the method's (translation, angle)" % (e.obj.label, show(first[0][0]), show(first[0][1])))
                if held is not None and i < len(held) and held[i] is not e.obj and held[i] is not e.moved:
                    bad.append("place %d of the container holds %s" % (i, show(held[i])))
            if held is not None and len(held) != len(elems):
                bad.append("the container holds %d elements afterwards, %d before" % (len(held), len(elems)))
        except _Raise as x:
            bad.append("raises %s" % x.what)
        except Undecided as x:
            raise AnalysisError("%s [%s]: %s" % (qn, label, x))
        res.check(RULE, "%s [%s]: every element is moved once, by (translation, angle), and kept at its place" % (qn, label), not bad, cls.mod, fn, "%s [%s]: %s" % (qn, label, "; ".join(bad[:3])), "a part of the object is left where it was (or moved twice / by something else): the object is torn apart by translate_rotate", qualname=qn)

    # GoalRegion: goal states
    def goal(cls):
        es = variants("goal state")
        return es, Obj(cls, {"_state_list": ListV([e.obj for e in es]), "_lanelets_of_goal_position": NONE}, label="goal region")

    run("three goal states, with and without a position region", G, "GoalRegion", goal, lambda me, r: me.fields["_state_list"].items)

    # Trajectory: states
    def traj(cls):
        es = variants("state")
        return es, Obj(cls, {"_state_list": ListV([e.obj for e in es]), "_initial_time_step": 4}, label="trajectory")

    run("three states", T, "Trajectory", traj, lambda me, r: me.fields["_state_list"].items)

    # PlanningProblemSet: planning problems
    def pps(cls):
        es = variants("planning problem")
        return es, Obj(cls, {"_planning_problem_dict": DictV({10 + i: e.obj for i, e in enumerate(es)})}, label="planning problem set")

    run("three planning problems", PP, "PlanningProblemSet", pps, lambda me, r: list(me.fields["_planning_problem_dict"].d.values()))

    # PlanningProblem: initial state and goal
    def pp(cls):
        es = [Element("initial state", {}, lenient=True), Element("goal region", {}, lenient=True)]
        return es, Obj(cls, {"_initial_state": es[0].obj, "_goal_region": es[1].obj, "_planning_problem_id": 3}, label="planning problem")

    run("initial state and goal region", PP, "PlanningProblem", pp, lambda me, r: [me.fields["_initial_state"], me.fields["_goal_region"]])

    # SetBasedPrediction: occupancies
    def sbp(cls):
        es = variants("occupancy")
        return es, Obj(cls, {"_occupancy_set": ListV([e.obj for e in es]), "_initial_time_step": 4}, label="set-based prediction")

    run("three occupancies", P, "SetBasedPrediction", sbp, lambda me, r: me.fields["_occupancy_set"].items)

    # Occupancy: its shape
    def occ(cls):
        es = [Element("shape", {})]
        return es, Obj(cls, {"_shape": es[0].obj, "_time_step": 4}, label="occupancy")

    run("the shape", P, "Occupancy", occ, lambda me, r: [me.fields["_shape"]])

    # ShapeGroup: member shapes (immutable style: a new group of the moved members)
    def sg(cls):
        es = variants("member shape")
        return es, Obj(cls, {"_shapes": ListV([e.obj for e in es])}, label="shape group")

    def sg_collect(me, r):
        if isinstance(r, Ctor) and r.name == "ShapeGroup" and r.args:
            v = list(r.args.values())[0]
            return v.items if isinstance(v, ListV) else None
        if isinstance(r, Obj) and "_shapes" in r.fields:
            return r.fields["_shapes"].items
        raise Undecided("ShapeGroup.translate_rotate returns %s" % show(r))

    run("three member shapes", SH, "ShapeGroup", sg, sg_collect)


def angle_domain_rule(repo, res, RULE="T8-ANGLES"):
    """is_valid_orientation — the test every translate_rotate asserts on its angle —, evaluated for a scalar angle at
    the ends of [-2pi, 2pi], inside and just outside: it accepts exactly the closed interval (a rotation by a whole
    turn, in either direction, is an admissible motion)."""
    import math

    from ..strdom import Ev, FuncV, ListV, Sym, Undecided, _Raise, show

    V = "commonroad/common/validity.py"
    vmod = repo.mod(V)
    fn = vmod.functions.get("is_valid_orientation")
    if fn is None:
        raise AnalysisError("validity.is_valid_orientation missing")
    two_pi = 2 * math.pi
    for label, val, want in (("-2pi", -two_pi, True), ("2pi", two_pi, True), ("0", 0.0, True), ("pi", math.pi, True), ("just below -2pi", -two_pi - 1e-9, False), ("just above 2pi", two_pi + 1e-9, False)):
        theta = Sym("theta", "float")

        def num(v):
            from ..strdom import Ctor, ModRef, Term

            if v is theta:
                return val
            if isinstance(v, (int, float)) and not isinstance(v, bool):
                return float(v)
            if isinstance(v, (Ctor, ModRef)) and v.name.split(".")[-1] == "pi":
                return math.pi
            if isinstance(v, Term):
                a = [num(x) for x in v.args]
                if v.op == "neg":
                    return -a[0]
                if v.op in ("+", "-", "*", "/") and len(a) == 2:
                    return {"+": a[0] + a[1], "-": a[0] - a[1], "*": a[0] * a[1], "/": a[0] / a[1] if a[1] else float("nan")}[v.op]
            raise Undecided("the number %s" % show(v))

        def oracle(kind, a, b):
            f = {"Lt": lambda x, y: x < y, "LtE": lambda x, y: x <= y, "Gt": lambda x, y: x > y, "GtE": lambda x, y: x >= y, "Eq": lambda x, y: x == y, "NotEq": lambda x, y: x != y}.get(kind)
            if f is None:
                return None
            try:
                return bool(f(num(a), num(b)))
            except Undecided:
                return None

        ev = Ev(repo)
        ev.pure_modules = {"math", "warnings", "npy", "np", "numpy"}
        ev.assume_valid = False
        ev.oracle = oracle
        cmpf = {"greater": "Gt", "greater_equal": "GtE", "less": "Lt", "less_equal": "LtE"}
        for nm, k in cmpf.items():
            for pre in ("npy", "np", "numpy"):
                ev.model_calls["%s.%s" % (pre, nm)] = lambda a, kw, k=k: oracle(k, a[0], a[1])
        for pre in ("npy", "np", "numpy"):
            ev.model_calls["%s.all" % pre] = lambda a, kw: all(ev.truth(x) for x in (a[0].items if isinstance(a[0], ListV) else [a[0]]))
            ev.model_calls["%s.logical_and" % pre] = lambda a, kw: ev.truth(a[0]) and ev.truth(a[1])
        bad = None
        try:
            r = ev.call_fn(FuncV(fn, mod=vmod), [theta], {}, fn)
            got = ev.truth(r, fn)
            if got is not want:
                bad = "answers %s" % got
        except _Raise as x:
            bad = "raises %s" % x.what
        except Undecided as x:
            raise AnalysisError("is_valid_orientation [%s]: %s" % (label, x))
        res.check(RULE, "is_valid_orientation [angle %s]: %s" % (label, "accepted" if want else "rejected"), bad is None, vmod, fn, "is_valid_orientation [angle %s] %s" % (label, bad), "an angle of the closed interval [-2pi, 2pi] is rejected (every translate_rotate then raises for it), or an angle outside is accepted", qualname="is_valid_orientation")


def matrix_rule(repo, res, RULE="T1-MATRIX"):
    """rotation_translation_matrix / translation_rotation_matrix of geometry/transform.py, evaluated: translation and
    angle are atoms, cos / sin of the angle uninterpreted terms, numpy's array constructors and the matrix product are
    given their meaning on lists of terms; the entries of the resulting 3 x 3 matrix are compared, on sample values, with

        rotate then translate:  (c, -s, tx; s, c, ty; 0, 0, 1)        translate then rotate:  (c, -s, c tx - s ty; s, c, s tx + c ty; 0, 0, 1)

    also for the angle 0 (where the code may take a short cut)."""
    import math

    from ..strdom import Ctor, Ev, FuncV, ListV, Sym, Term, Undecided, _Raise, show

    TF = "commonroad/geometry/transform.py"
    tmod = repo.mod(TF)

    def arr2(rows):
        out = ListV([ListV(list(r)) for r in rows])
        for r in out.items:
            r.ext_types = {"ndarray"}
        out.ext_types = {"ndarray"}
        return out

    for fname, spec in (("rotation_translation_matrix", lambda c, s_, tx, ty: [[c, -s_, tx], [s_, c, ty], [0, 0, 1]]), ("translation_rotation_matrix", lambda c, s_, tx, ty: [[c, -s_, c * tx - s_ * ty], [s_, c, s_ * tx + c * ty], [0, 0, 1]])):
        fn = tmod.functions.get(fname)
        if fn is None:
            raise AnalysisError("transform.%s missing" % fname)
        for label, ang in (("angle 0.7", 0.7), ("angle -2.1", -2.1), ("angle 0", 0.0), ("a tiny angle, 0.0005", 0.0005), ("angle 2pi", 2 * math.pi)):
            tx, ty, an = Sym("tx", "num"), Sym("ty", "num"), Sym("angle", "num")
            vals = {"tx": 3.0, "ty": -2.0, "angle": ang}

            def num(v):
                if isinstance(v, bool):
                    raise Undecided("a truth value among the entries")
                if isinstance(v, (int, float)):
                    return float(v)
                if isinstance(v, Sym):
                    return vals[v.name]
                if isinstance(v, Term):
                    a = [num(x) for x in v.args]
                    if v.op == "neg":
                        return -a[0]
                    if v.op in ("+", "-", "*") and len(a) == 2:
                        return {"+": a[0] + a[1], "-": a[0] - a[1], "*": a[0] * a[1]}[v.op]
                    if v.op == "/" and len(a) == 2 and a[1] != 0:
                        return a[0] / a[1]
                if isinstance(v, Ctor) and v.name.split(".")[-1] in ("cos", "sin", "float64", "float") and len(v.args) == 1:
                    x = num(list(v.args.values())[0])
                    return {"cos": math.cos, "sin": math.sin}.get(v.name.split(".")[-1], float)(x)
                raise Undecided("the entry %s" % show(v))

            def oracle(kind, a, b):
                f = {"Lt": lambda x, y: x < y, "LtE": lambda x, y: x <= y, "Gt": lambda x, y: x > y, "GtE": lambda x, y: x >= y, "Eq": lambda x, y: x == y, "NotEq": lambda x, y: x != y}.get(kind)
                if f is None:
                    return None
                try:
                    return bool(f(num(a), num(b)))
                except Undecided:
                    return None

            ev = Ev(repo)
            ev.pure_modules = {"math", "np", "numpy"}
            ev.oracle = oracle
            ev.model_calls["np.array"] = ev.model_calls["numpy.array"] = ev.model_calls["np.asarray"] = lambda a, k: arr2([r.items for r in a[0].items]) if isinstance(a[0], ListV) and a[0].items and all(isinstance(r, ListV) for r in a[0].items) else a[0]
            ident = lambda a, k: arr2([[1.0 if i == j else 0.0 for j in range(a[0])] for i in range(a[0])]) if a and isinstance(a[0], int) else (_ for _ in ()).throw(Undecided("identity(%s)" % show(a[0] if a else None)))
            ev.model_calls["np.identity"] = ev.model_calls["numpy.identity"] = ev.model_calls["np.eye"] = ev.model_calls["numpy.eye"] = ident
            zeros = lambda a, k: arr2([[0.0] * a[0].items[1] for _ in range(a[0].items[0])]) if a and isinstance(a[0], ListV) and len(a[0].items) == 2 and all(isinstance(x, int) for x in a[0].items) else (_ for _ in ()).throw(Undecided("zeros(%s)" % show(a[0] if a else None)))
            ev.model_calls["np.zeros"] = ev.model_calls["numpy.zeros"] = zeros
            ev.model_calls["math.isclose"] = ev.model_calls["np.isclose"] = ev.model_calls["numpy.isclose"] = lambda a, k: abs(num(a[0]) - num(a[1])) <= max(num(k.get("rel_tol", k.get("rtol", 1e-09))) * max(abs(num(a[0])), abs(num(a[1]))), num(k.get("abs_tol", k.get("atol", 0.0))))
            ev.model_calls["np.dot"] = ev.model_calls["numpy.dot"] = ev.model_calls["np.matmul"] = lambda a, k: ev.method(a[0], "dot", [a[1]], {}, fn)
            bad = None
            try:
                r = ev.call_fn(FuncV(fn, mod=tmod), [ListV([tx, ty]), an], {}, fn)
                if not (ev._is_matrix(r) and len(r.items) == 3 and len(r.items[0].items) == 3):
                    bad = "gives %s" % show(r)
                else:
                    want = spec(math.cos(ang), math.sin(ang), 3.0, -2.0)
                    got = [[num(x) for x in row.items] for row in r.items]
                    diff = [(i, j) for i in range(3) for j in range(3) if abs(got[i][j] - want[i][j]) > 1e-12]
                    if diff:
                        i, j = diff[0]
                        bad = "entry (%d, %d) is %s = %.6g, expected %.6g" % (i, j, show(r.items[i].items[j]), got[i][j], want[i][j])
            except _Raise as x:
                bad = "raises %s" % x.what
            except Undecided as x:
                raise AnalysisError("transform.%s [%s]: %s" % (fname, label, x))
            res.check(RULE, "%s [%s]: rotation block (cos, -sin; sin, cos) of the angle and the translation column of its order" % (fname, label), bad is None, tmod, fn, "%s [%s] %s" % (fname, label, bad), "the matrix is not the rigid motion of the given translation and angle (rotation block, sign of the sine, order of translation and rotation)", qualname=fname)

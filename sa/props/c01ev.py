"""C01 decided by abstract evaluation: small write -> read round trips through the element model.

The XML builder of an object kind is evaluated on a model object; what it returns is an element model (`ElemV`: tag,
attributes, text, children, with (l)xml's semantics: one parent per element, an element without children is false).
The reader's factory is then evaluated *on that very element*; the object it constructs must carry the values the
model object had.  Collaborators that parse / print sub-structures (points, cycles, states) are stubbed on both sides
with the same token, so that only the object kind at hand is under test.

  traffic light   every direction member x active True / False / (not written) -> same direction, same flag
  references      two lanelets and a stop line referring to the same sign / light: every referrer keeps its reference
                  in the file (an element object can only hang in one place)
"""
from ..core import AnalysisError
from ..strdom import NONE, ClassRef, Ctor, DictV, ElemV, EnumMember, Ev, ListV, Obj, PyFunc, SetV, Str, Sym, TupV, Undecided, _Raise, same, show

WX = "commonroad/common/writer/file_writer_xml.py"
RX = "commonroad/common/reader/file_reader_xml.py"
TL = "commonroad/scenario/traffic_light.py"


def _ev(repo):
    ev = Ev(repo)
    ev.pure_modules = {"np", "numpy", "math", "warnings", "logging"}
    ev.assume_valid = True
    return ev


def traffic_light_roundtrip(repo, res, RULE="RT-ENUM"):
    wcls = repo.cls(WX, "TrafficLightXMLNode")
    rcls = repo.cls(RX, "TrafficLightFactory")
    wfn = wcls.methods.get("create_node")
    rfn = rcls.methods.get("create_from_xml_node")
    if wfn is None or rfn is None:
        raise AnalysisError("TrafficLightXMLNode.create_node / TrafficLightFactory.create_from_xml_node missing")
    enum = repo.cls(TL, "TrafficLightDirection")
    members = list(enum.enum_members())
    qn = "TrafficLightFactory.create_from_xml_node"
    for mname in members:
        for active in (True, False, None):
            ev = _ev(repo)
            direction = ev.getattr(ClassRef(enum), mname, enum.node, enum.mod)
            pos = Sym("position of the light", "num")
            cycle = Obj(None, {}, closed=True, label="cycle")
            light = Obj(None, {"traffic_light_id": 20, "_traffic_light_id": 20, "traffic_light_cycle": cycle, "position": ListV([Sym("x", "num"), Sym("y", "num")]), "direction": direction, "active": NONE if active is None else active, "color": ListV([])}, closed=True, label="traffic light")
            ev.stubs["TrafficLightCycleXMLNode.create_node"] = lambda a: ElemV(Str.lit("cycle"))
            ev.stubs["Point.create_node"] = lambda a: ElemV(Str.lit("point"))
            ev.stubs["PointFactory.create_from_xml_node"] = lambda a: pos
            ev.stubs["TrafficLightCycleFactory.create_from_xml_node"] = lambda a: TupV([ListV([]), 0])
            ev.ctor_models["Point"] = lambda a, k: Obj(repo.cls(WX, "Point"), {"x": a[0] if a else k.get("x"), "y": a[1] if len(a) > 1 else k.get("y"), "z": NONE}, label="point")
            label = "direction %s, active %s" % (mname, "not written" if active is None else active)
            bad = []
            try:
                node = ev.call_fn(ev.bind(wfn, wcls, None, via_class=ClassRef(wcls)), [light], {}, wfn)
                if not isinstance(node, ElemV):
                    raise Undecided("the builder returns %s" % show(node))
                country = Obj(None, {"value": Str.lit("DEU")}, closed=True, label="country")
                net = Obj(None, {"lanelets": ListV([])}, closed=True, label="lanelet network")
                got = ev.call_fn(ev.bind(rfn, rcls, None, via_class=ClassRef(rcls)), [node, country, net], {}, rfn)
                if not (isinstance(got, Ctor) and got.name == "TrafficLight"):
                    raise Undecided("the factory returns %s" % show(got))
                d, a = got.args.get("direction"), got.args.get("active")
                if not (isinstance(d, EnumMember) and d.name == mname):
                    bad.append("direction %s is read back as %s" % (mname, show(d)))
                want_active = True if active is None else active
                if a is not want_active:
                    bad.append("active=%s is read back as %s" % (active, show(a)))
                if got.args.get("traffic_light_id") != 20:
                    bad.append("id 20 is read back as %s" % show(got.args.get("traffic_light_id")))
            except _Raise as x:
                bad.append("raises %s" % x.what)
            except Undecided as x:
                raise AnalysisError("%s [%s]: %s" % (qn, label, x))
            res.check(RULE, "traffic light written and read back [%s]: same direction, same flag" % label, not bad, rcls.mod, rfn, "traffic light round trip [%s]: %s" % (label, "; ".join(bad)), "a direction or activity flag the writer emits is read back as something else", qualname=qn)


def shared_reference_rule(repo, res, RULE="RT-READ"):
    """Two lanelets referring to the same traffic sign and traffic light: both lanelet elements carry both references
    after both have been built (an element can hang in one place only, so a builder that hands out the same element
    object twice moves it from the first lanelet to the second)."""
    lcls = repo.cls(WX, "LaneletXMLNode")
    fn = lcls.methods.get("create_node")
    if fn is None:
        raise AnalysisError("LaneletXMLNode.create_node missing")
    qn = "LaneletXMLNode.create_node"
    ev = _ev(repo)
    ev.stubs["Pointlist.create_from_numpy_array"] = lambda a: Obj(None, {"add_points_to_node": PyFunc(lambda a2, k2: NONE, "add_points_to_node")}, closed=True, label="point list")
    ev.stubs["LaneletStopLineXMLNode.create_node"] = lambda a: ElemV(Str.lit("stopLine"))
    lt = repo.cls("commonroad/common/common_lanelet.py", "LaneletType")
    lm = repo.cls("commonroad/common/common_lanelet.py", "LineMarking")

    def lanelet(k):
        f = {"lanelet_id": k, "left_vertices": Sym("left %d" % k, "num"), "right_vertices": Sym("right %d" % k, "num"), "center_vertices": Sym("center %d" % k, "num"), "predecessor": ListV([]), "successor": ListV([]), "adj_left": NONE, "adj_right": NONE, "adj_left_same_direction": NONE, "adj_right_same_direction": NONE, "stop_line": NONE, "lanelet_type": SetV([ev.getattr(ClassRef(lt), list(lt.enum_members())[0], lt.node, lt.mod)]), "user_one_way": SetV([]), "user_bidirectional": SetV([]), "traffic_signs": SetV([10]), "traffic_lights": SetV([20]), "line_marking_left_vertices": ev.getattr(ClassRef(lm), "UNKNOWN", lm.node, lm.mod), "line_marking_right_vertices": ev.getattr(ClassRef(lm), "UNKNOWN", lm.node, lm.mod), "adjacent_areas": SetV([])}
        return Obj(None, f, closed=True, label="lanelet %d" % k)

    bad = []
    try:
        nodes = [ev.call_fn(ev.bind(fn, lcls, None, via_class=ClassRef(lcls)), [lanelet(k)], {}, fn) for k in (1, 2)]
        for k, n in zip((1, 2), nodes):
            if not isinstance(n, ElemV):
                raise Undecided("the builder returns %s" % show(n))
            for tag, ref in (("trafficSignRef", 10), ("trafficLightRef", 20)):
                hits = [c for c in n.children.items if isinstance(c, ElemV) and isinstance(c.tag, Str) and c.tag.is_lit() and c.tag.text() == tag]
                refs = [show(c.attrib.d.get("ref", c.attrib.d.get(("str", "ref")))) for c in hits]
                if len(hits) != 1:
                    bad.append("after both lanelets are written the element of lanelet %d holds %d <%s> children (the lanelet refers to %d)" % (k, len(hits), tag, ref))
    except _Raise as x:
        bad.append("raises %s" % x.what)
    except Undecided as x:
        raise AnalysisError("%s [two lanelets sharing a sign and a light]: %s" % (qn, x))
    res.check(RULE, "two lanelets referring to the same sign and light: each lanelet element keeps both references", not bad, lcls.mod, fn, "%s: %s" % (qn, "; ".join(bad[:2])), "a reference the model holds is missing in the file: the element object was handed out twice and moved to its last parent", qualname=qn)

"""C08 decided by abstract evaluation: GoalRegion.is_reached and PlanningProblem.goal_reached.

World: a goal region with one or two goal states; every constrained attribute of a goal state is a model interval /
angle interval / shape whose containment test records *what value it is asked about* and answers from a truth table.
The state is a model with symbolic attribute values, once with speed and heading of its own (kinematic state), once a
point-mass state with velocity components only.  `is_reached` (and whatever helpers it calls, `_harmonize_state_types`
included) is evaluated over the AST; afterwards

    LOGIC     the answer is: some goal state has all its constrained attributes satisfied,
    PAIRING   every containment test was asked about the state's value of the same attribute; for a point-mass state
              the speed is the Euclidean norm of (velocity, velocity_y) and the heading is atan2(velocity_y, velocity),
    PER-GOAL  the second goal state is judged like the first (nothing one evaluation changes is seen by the next)

whatever the code that got there looks like.  Value forms that are not recognised are undecided (the check refuses), a
recognised form with the wrong operands is a finding.
"""
from ..core import AnalysisError
from ..strdom import NONE, Ctor, Ev, ListV, Obj, PyFunc, Str, Sym, TupV, Undecided, _Raise, show

G = "commonroad/planning/goal.py"
PP = "commonroad/planning/planning_problem.py"
CU = "commonroad/common/util.py"
SH = "commonroad/geometry/shape.py"
ATTRS = ("time_step", "position", "orientation", "velocity")


def state_model(fields, label):
    o = Obj(None, dict(fields), closed=True, label=label)
    o.fields["used_attributes"] = ListV([Str.lit(k) for k in fields])
    o.fields["attributes"] = ListV([Str.lit(k) for k in fields])
    o.fields["has_value"] = PyFunc(lambda a, k, f=fields: (a[0].text() if isinstance(a[0], Str) and a[0].is_lit() else None) in f and f[a[0].text()] is not NONE, "has_value")
    return o


class GoalWorld:
    def __init__(self, repo, goals, point_mass):
        """goals: list of {attribute: truth}"""
        self.repo = repo
        self.asked = []
        ev = self.ev = Ev(repo)
        ev.pure_modules = {"np", "numpy", "math", "warnings"}
        ev.assume_valid = True
        ev.model_calls["numpy.any"] = lambda a, k: any(ev.truth(x) for x in ev.iterate(a[0], None))
        ev.model_calls["numpy.all"] = lambda a, k: all(ev.truth(x) for x in ev.iterate(a[0], None))
        ev.ctor_models["CustomState"] = lambda a, k: state_model(dict(k), "harmonized state") if not a else (_ for _ in ()).throw(Undecided("CustomState with positional arguments"))
        interval, angle = repo.cls(CU, "Interval"), repo.cls(CU, "AngleInterval")
        shape = repo.cls(SH, "Rectangle")
        self.goal_states = []
        for i, g in enumerate(goals):
            f = {}
            for a, truth in g.items():
                def test(args, kw, i=i, a=a, truth=truth):
                    self.asked.append((i, a, args[0] if args else list(kw.values())[0]))
                    return truth

                if a == "position":
                    f[a] = Obj(shape, {"contains_point": PyFunc(test, "contains_point")}, label="goal %d position" % i)
                else:
                    f[a] = Obj(angle if a == "orientation" else interval, {"contains": PyFunc(test, "contains")}, label="goal %d %s" % (i, a))
            gs = state_model(f, "goal state %d" % i)
            for a in ATTRS:
                gs.fields.setdefault(a, NONE)
            self.goal_states.append(gs)
        gcls = repo.cls(G, "GoalRegion")
        self.region = Obj(gcls, {"_state_list": ListV(self.goal_states), "_lanelets_of_goal_position": NONE}, label="goal region")
        self.t, self.p = Sym("time_step", "int"), Sym("position", "num")
        if point_mass:
            self.vx, self.vy = Sym("velocity", "num"), Sym("velocity_y", "num")
            self.state = state_model({"time_step": self.t, "position": self.p, "velocity": self.vx, "velocity_y": self.vy}, "point-mass state")
        else:
            self.o, self.v = Sym("orientation", "num"), Sym("velocity", "num")
            self.state = state_model({"time_step": self.t, "position": self.p, "orientation": self.o, "velocity": self.v}, "kinematic state")
        self.point_mass = point_mass

    # ---- what a containment test should have been asked about
    def verdict(self, attr, value):
        """None: the right value; text: a recognised form with the wrong content; Undecided: anything else"""
        if attr == "time_step":
            return None if value is self.t else "the time interval is asked about %s" % show(value)
        if attr == "position":
            return None if value is self.p else "the goal shape is asked about %s" % show(value)
        if not self.point_mass:
            want = self.o if attr == "orientation" else self.v
            return None if value is want else "the %s interval is asked about %s" % (attr, show(value))
        vx, vy = self.vx, self.vy
        if attr == "orientation":
            if isinstance(value, Ctor) and value.name in ("math.atan2", "numpy.arctan2"):
                a = list(value.args.values())
                if len(a) == 2 and a[0] is vy and a[1] is vx:
                    return None
                return "the heading of a point-mass state is taken as %s(%s); it is atan2(velocity_y, velocity)" % (value.name, ", ".join(show(x) for x in a))
            if value is vx or value is vy:
                return "the orientation interval is asked about %s" % show(value)
            raise Undecided("heading computed as %s" % show(value))
        # speed
        def pair(v):
            if isinstance(v, Ctor) and v.name in ("numpy.array", "numpy.asarray", "numpy.stack", "numpy.hstack") and v.args:
                v = list(v.args.values())[0]
            if isinstance(v, ListV) and len(v.items) == 2:
                return v.items
            return None

        if isinstance(value, Ctor) and value.name in ("numpy.linalg.norm", "math.hypot", "numpy.hypot"):
            a = list(value.args.values())
            items = pair(a[0]) if value.name == "numpy.linalg.norm" and len(a) == 1 else a if len(a) == 2 else None
            if items is not None:
                if {id(x) for x in items} == {id(vx), id(vy)}:
                    return None
                return "the speed of a point-mass state is taken as %s of (%s); it is the norm of (velocity, velocity_y)" % (value.name, ", ".join(show(x) for x in items))
        if value is vx or value is vy:
            return "the velocity interval is asked about the component %s of a point-mass state, not about its speed" % show(value)
        raise Undecided("speed computed as %s" % show(value))


def reached_rules(repo, res, RULE="Q9-REACHED"):
    gcls = repo.cls(G, "GoalRegion")
    fn = gcls.methods.get("is_reached")
    if fn is None:
        raise AnalysisError("GoalRegion.is_reached missing")
    qn = "GoalRegion.is_reached"
    T, F = True, False
    suites = []
    # one goal state, every subset of the optional attributes constrained, each single failing attribute
    opt = ("position", "orientation", "velocity")
    for mask in range(8):
        cons = ["time_step"] + [a for i, a in enumerate(opt) if mask >> i & 1]
        suites.append(("one goal state constraining %s, all satisfied" % ", ".join(cons), [{a: T for a in cons}]))
        for bad in cons:
            suites.append(("one goal state constraining %s, %s violated" % (", ".join(cons), bad), [{a: (a != bad) for a in cons}]))
    full = {a: T for a in ATTRS}
    suites.append(("two goal states, only the second satisfied", [dict(full, velocity=F), dict(full)]))
    suites.append(("two goal states, only the first satisfied", [dict(full), dict(full, orientation=F)]))
    suites.append(("two goal states, the second violated in its heading only", [dict(full, position=F), dict(full, orientation=F)]))
    suites.append(("two goal states, none satisfied", [dict(full, time_step=F), dict(full, position=F)]))
    for pm in (False, True):
        for label, goals in suites:
            w = GoalWorld(repo, goals, pm)
            lab = "%s; %s" % ("point-mass state" if pm else "state with speed and heading", label)
            bad = []
            try:
                r = w.ev.call_fn(w.ev.bind(fn, gcls, w.region), [w.state], {}, fn)
                got = w.ev.truth(r, fn)
                want = any(all(g.values()) for g in goals)
                for i, a, v in w.asked:
                    t = w.verdict(a, v)
                    if t is not None and t not in bad:
                        bad.append(t)
                if got is not want:
                    bad.append("answers %s, %s" % (got, "a goal state is satisfied in all its attributes" if want else "no goal state is satisfied in all its attributes"))
                for i, g in enumerate(goals):
                    if all(g.values()):
                        missing = [a for a in g if not any(j == i and b == a for j, b, _v in w.asked)]
                        if missing and not any(all(h.values()) for h in goals[:i]):
                            bad.append("goal state %d counts as satisfied although its %s was never tested" % (i, ", ".join(missing)))
            except _Raise as x:
                bad.append("raises %s" % x.what)
            except Undecided as x:
                raise AnalysisError("%s [%s]: %s" % (qn, lab, x))
            res.check(RULE, "%s [%s]" % (qn, lab), not bad, gcls.mod, fn, "%s [%s]: %s" % (qn, lab, "; ".join(bad[:2])), "the goal check does not answer `some goal state is satisfied in all the attributes it constrains`, or tests an attribute against the wrong value of the state", qualname=qn)


def index_rules(repo, res, RULE="Q6-INDEX"):
    pcls = repo.cls(PP, "PlanningProblem")
    fn = pcls.methods.get("goal_reached")
    if fn is None:
        raise AnalysisError("PlanningProblem.goal_reached missing")
    qn = "PlanningProblem.goal_reached"
    for pattern in ((False, False, False), (True, False, False), (False, True, False), (False, False, True), (False, True, True), (True, True, True), ()):
        states = [Obj(None, {}, closed=True, label="state %d" % i) for i in range(len(pattern))]
        truth = {id(s): p for s, p in zip(states, pattern)}
        asked = []

        def is_reached(a, k, truth=truth, asked=asked):
            if id(a[0]) not in truth:
                raise Undecided("the goal is asked about %s" % show(a[0]))
            asked.append(a[0])
            return truth[id(a[0])]

        goal = Obj(None, {"is_reached": PyFunc(is_reached, "is_reached")}, closed=True, label="goal")
        me = Obj(pcls, {"_goal_region": goal}, label="planning problem")
        traj = Obj(None, {"state_list": ListV(states), "_state_list": ListV(states)}, closed=True, label="trajectory")
        ev = Ev(repo)
        ev.pure_modules = {"np", "numpy", "math"}
        label = "states reaching the goal: %s" % ([i for i, p in enumerate(pattern) if p] or "none")
        bad = None
        try:
            r = ev.call_fn(ev.bind(fn, pcls, me), [traj], {}, fn)
            items = r.items if isinstance(r, ListV) and len(r.items) == 2 else None
            if items is None:
                bad = "returns %s" % show(r)
            else:
                ok, idx = ev.truth(items[0], fn), items[1]
                if any(pattern):
                    if ok is not True or not isinstance(idx, int) or isinstance(idx, bool) or not (0 <= idx < len(pattern)) or not pattern[idx]:
                        bad = "returns (%s, %s)" % (show(items[0]), show(idx))
                elif ok is not False or idx != -1:
                    bad = "returns (%s, %s), expected (False, -1)" % (show(items[0]), show(idx))
        except _Raise as x:
            bad = "raises %s" % x.what
        except Undecided as x:
            raise AnalysisError("%s [%s]: %s" % (qn, label, x))
        res.check(RULE, "%s [%s]: success exactly when a state reaches the goal, with the index of such a state" % (qn, label), bad is None, pcls.mod, fn, "%s [%s] %s" % (qn, label, bad), "goal_reached reports the wrong verdict or an index of a state that does not reach the goal", qualname=qn)

"""C07 — obstacle-lanelet assignment is geometrically correct and invertible.

  A1 SAME-SET    at every assignment site the id set registered on the lanelets originates from the
                 same lookup call as the set stored as the obstacle's *shape* assignment (unless the
                 caller asked for centre-only assignment)
  A1 LOOKUP-ARGS the shape set comes from find_lanelet_by_shape(<shape placed at the state /
                 occupancy at the time step>), the centre set from find_lanelet_by_position([<that
                 state>.position]); registry time step = time step of that state
  A2 INVERSE     Scenario._add/_remove_*_obstacle_*_lanelets iterate the same assignment attributes
  A2 TOTAL       the removing side uses only non-raising operations
  A3 SIBLINGS    the reader implementations (XML, protobuf) have the same assignment signature
"""
import ast

from ..core import canon, AnalysisError, Finding, attr_chain, call_name, dominating_guards, guard_says_not_none, norm, walk_no_nested
from ..dataflow import ReachingDefs

SC = "commonroad/scenario/scenario.py"
RX = "commonroad/common/reader/file_reader_xml.py"
RP = "commonroad/common/reader/file_reader_protobuf.py"

REGISTER = ("add_static_obstacle_to_lanelet", "add_dynamic_obstacle_to_lanelet")
SHAPE_SINKS = ("initial_shape_lanelet_ids", "shape_lanelet_assignment")
CENTER_SINKS = ("initial_center_lanelet_ids", "center_lanelet_assignment")


class _Key(ast.Subscript):
    """pseudo target `<dict>[key]` of a dict comprehension entry"""

    def __init__(self, text):
        self.text = text
        self.value = ast.Name(id="<returned dict>", ctx=ast.Load())
        self.slice = ast.Name(id=text, ctx=ast.Load())
        self.ctx = ast.Store()


def origins(rd, expr, at, depth=0):
    """Lookup calls (find_lanelet_by_shape / find_lanelet_by_position) the value of expr stems from,
    following set(..), subscripts and local aliases.  Returns list of (call node, guards-of-the-def)."""
    out = []
    if depth > 8:
        return out
    if isinstance(expr, ast.Call):
        cn = norm(expr.func)
        if cn.endswith("find_lanelet_by_shape") or cn.endswith("find_lanelet_by_position"):
            return [expr]
        if cn in ("set", "list", "frozenset", "sorted", "tuple") and expr.args:
            return origins(rd, expr.args[0], at, depth + 1)
        return out
    if isinstance(expr, ast.Subscript):
        return origins(rd, expr.value, at, depth + 1)
    if isinstance(expr, ast.Name):
        for d in rd.defs(expr.id, at):
            if d.node is not None and d.kind == "assign":
                out += origins(rd, d.node, d.stmt, depth + 1)
    return out


def time_exprs(mod, fn, rd, o, params=()):
    """Time-step expressions of the state(s) a lookup call was made for, each with the guards at its definition."""
    out = []

    def N(e, at=None):
        return canon(e, rd, at if at is not None else rd.stmt_of(o), params)

    a = o.args[0] if o.args else None
    if a is None:
        return out
    srcs = [(a, o)]
    if isinstance(a, ast.Name):
        srcs = [(d.node, d.stmt) for d in rd.defs(a.id, o) if d.node is not None]
    for s_, at in srcs:
        g = [(canon(t, rd, at, params), pol) for t, pol in dominating_guards(mod, at, stop=fn)] if isinstance(at, ast.stmt) else []
        if isinstance(s_, ast.Call) and isinstance(s_.func, ast.Attribute) and s_.func.attr == "rotate_translate_local" and s_.args:
            p = N(s_.args[0], at if isinstance(at, ast.stmt) else None)
            out.append((p[: -len(".position")] + ".time_step" if p.endswith(".position") else "?" + p, g))
        elif isinstance(s_, ast.Attribute) and s_.attr == "shape" and isinstance(s_.value, ast.Call) and s_.value.args:
            out.append((N(s_.value.args[0], at if isinstance(at, ast.stmt) else None), g))
        elif isinstance(s_, ast.List) and len(s_.elts) == 1:
            e = s_.elts[0]
            cands = [(e, at)]
            if isinstance(e, ast.Name):
                cands = [(d.node, d.stmt) for d in rd.defs(e.id, o) if d.node is not None]
            for c, cat in cands:
                g2 = [(canon(t, rd, cat, params), pol) for t, pol in dominating_guards(mod, cat, stop=fn)] if isinstance(cat, ast.stmt) else g
                t = N(c, cat if isinstance(cat, ast.stmt) else None)
                if isinstance(c, ast.Attribute) and c.attr == "position" and isinstance(c.value, ast.Call) and norm(c.value.func).endswith("state_at_time_step") and c.value.args:
                    out.append((N(c.value.args[0], cat if isinstance(cat, ast.stmt) else None), g2))
                elif t.endswith(".position"):
                    out.append((t[: -len(".position")] + ".time_step", g2))
                else:
                    out.append(("?" + t, g2))
        else:
            out.append(("?" + norm(s_), g))
    return out


def time_matches(ts, texprs):
    for t, g in texprs:
        if t == ts:
            continue
        if ("%s == %s" % (ts, t), True) in g or ("%s == %s" % (t, ts), True) in g:
            continue
        return False
    return bool(texprs)


def _run_lookup_only(res, mod, fn, qn, rd, ors, sig, seen):
    for o in ors:
        if id(o) in seen:
            continue
        seen.add(id(o))
        ok, kind = lookup_arg_ok(rd, o)
        res.check("A1-LOOKUP-ARGS", "%s: %s lookup %s" % (qn, kind, norm(o)[:90]), ok, mod, o, "%s: %s" % (qn, norm(o)[:120]), "the %s lanelets are not looked up with the obstacle's %s at the state in question" % (kind, "placed shape" if kind == "shape" else "centre position"), qualname=qn)
        sig.append((kind, "ok" if ok else "bad"))


def lookup_arg_ok(rd, o):
    kind = "shape" if norm(o.func).endswith("find_lanelet_by_shape") else "center"
    arg = o.args[0] if o.args else None
    ok = False
    if kind == "shape" and arg is not None:
        srcs = [arg]
        if isinstance(arg, ast.Name):
            srcs = [d.node for d in rd.defs(arg.id, o) if d.node is not None]
        ok = bool(srcs)
        for s in srcs:
            if isinstance(s, ast.Call) and isinstance(s.func, ast.Attribute) and s.func.attr == "rotate_translate_local" and len(s.args) == 2:
                p, orr = norm(s.args[0]), norm(s.args[1])
                if not (p.endswith(".position") and orr.endswith(".orientation") and p[: -len(".position")] == orr[: -len(".orientation")]):
                    ok = False
            elif isinstance(s, ast.Attribute) and s.attr == "shape" and isinstance(s.value, ast.Call) and norm(s.value.func).endswith(".occupancy_at_time"):
                pass
            else:
                ok = False
    elif arg is not None:
        t = norm(arg)
        ok = isinstance(arg, ast.List) and len(arg.elts) == 1 and (t.endswith(".position]") or isinstance(arg.elts[0], ast.Name))
        if ok and not t.endswith(".position]"):
            ds = [norm(d.node) for d in rd.defs(arg.elts[0].id, o) if d.node is not None]
            ok = bool(ds) and all(x.endswith(".position") for x in ds)
    return ok, kind


def assignment_sites(repo):
    """(module, qualname, function) of every function that registers obstacles on lanelets."""
    out = []
    for rel in (SC, RX, RP):
        m = repo.mod(rel)
        for n in ast.walk(m.tree):
            if isinstance(n, ast.FunctionDef):
                if any(isinstance(c, ast.Call) and isinstance(c.func, ast.Attribute) and (c.func.attr in REGISTER or c.func.attr in ("find_lanelet_by_shape", "find_lanelet_by_position")) for c in walk_no_nested(n)):
                    if m.parent.get(n) is not None and not (isinstance(m.parent.get(n), ast.ClassDef) and m.parent.get(n).name in ("Lanelet", "LaneletNetwork")):
                        out.append((m, m.qualname(n), n))
    return out


def run(repo, res, tier):
    res.rule("A1-SAME-SET", "registered id set and stored shape assignment originate from the same lookup call", 6)
    res.rule("A1-LOOKUP-ARGS", "shape lookup uses the shape placed at the state, centre lookup that state's position, registry time step that state's time step", 10)
    res.rule("A2-INVERSE", "add and remove helpers iterate the same assignment attributes", 2)
    res.rule("A2-TOTAL", "obstacle removal from lanelet registries uses only non-raising operations", 6)
    res.rule("A3-SIBLINGS", "XML and protobuf readers assign with the same signature", 3)
    res.rule("A1-LOOKUP-IMPL", "the lookups the assignment relies on filter candidates by geometry and map them to lanelet ids", 2)
    from .c06 import lookup_rules

    lookup_rules(repo, res, "A1-LOOKUP-IMPL")

    sites = assignment_sites(repo)
    if len(sites) < 7:
        raise AnalysisError("only %d assignment sites found (8 confirmed: 2 in Scenario.assign_obstacles_to_lanelets, 3 per reader)" % len(sites))
    signatures = {}
    for mod, qn, fn in sites:
        rd = ReachingDefs(fn)
        params = [a.arg for a in fn.args.args]
        # --- registry loops
        regs = []
        for c in walk_no_nested(fn):
            if isinstance(c, ast.Call) and isinstance(c.func, ast.Attribute) and c.func.attr in REGISTER:
                loop = mod.parent.get(c)
                while loop is not None and not isinstance(loop, ast.For):
                    loop = mod.parent.get(loop)
                if loop is None or loop is fn:
                    raise AnalysisError("%s: registration outside a loop over lanelet ids" % qn)
                regs.append((c, loop))
        # --- stores of shape / centre assignments
        shape_vals, center_vals = [], []
        for n in walk_no_nested(fn):
            tgt_names = []
            val = None
            if isinstance(n, ast.Assign):
                val = n.value
                for t in n.targets:
                    if isinstance(t, ast.Attribute):
                        tgt_names.append(t.attr)
                    elif isinstance(t, ast.Subscript):
                        ch = attr_chain(t.value)
                        tgt_names.append(ch[-1] if ch else norm(t.value))
                    elif isinstance(t, ast.Name):
                        tgt_names.append(t.id)
            for tn in tgt_names:
                if tn in SHAPE_SINKS or (tn == "lanelet_ids_per_state" and "shape" in fn.name):
                    shape_vals.append((val, n))
                elif tn in CENTER_SINKS or (tn == "lanelet_ids_per_state" and "center" in fn.name):
                    center_vals.append((val, n))
        # `return {key: value for ..}` of a per-time-step assignment function is a store of value under key
        for n in walk_no_nested(fn):
            if isinstance(n, ast.Return) and isinstance(n.value, ast.DictComp) and ("shape" in fn.name or "center" in fn.name):
                fake = ast.Assign(targets=[_Key(canon(n.value.key, rd, n, params))], value=n.value.value, lineno=n.lineno)
                (shape_vals if "shape" in fn.name else center_vals).append((n.value.value, fake))
        # locals named like the sinks that reach a constructor keyword of the same name count too
        sig = []
        seen_lookups = set()
        if not regs:
            # a site that only computes an assignment (no registration): check its lookups
            only = []
            for v, st in center_vals + shape_vals:
                if v is not None:
                    only += origins(rd, v, st)
            if only:
                res.ok("A1-SAME-SET", "%s: assignment-only site" % qn)
                _run_lookup_only(res, mod, fn, qn, rd, only, sig, seen_lookups)
        for c, loop in regs:
            reg_or = origins(rd, loop.iter, loop)
            inst = "%s: registry loop over %s" % (qn, norm(loop.iter))
            if not reg_or:
                # registration straight from a stored shape assignment is consistent by construction
                stored = set()
                for e in [loop.iter] + [lp.iter for lp in ast.walk(fn) if isinstance(lp, ast.For) and any(x is loop for x in ast.walk(lp))]:
                    for x in ast.walk(e):
                        if isinstance(x, ast.Attribute) and x.attr.lstrip("_") in SHAPE_SINKS:
                            stored.add(x.attr.lstrip("_"))
                    if isinstance(e, ast.Name):
                        for d in rd.defs(e.id, loop):
                            if d.node is not None:
                                for x in ast.walk(d.node):
                                    if isinstance(x, ast.Attribute) and x.attr.lstrip("_") in SHAPE_SINKS:
                                        stored.add(x.attr.lstrip("_"))
                if stored:
                    res.ok("A1-SAME-SET", inst + " (stored assignment %s)" % sorted(stored))
                    continue
                res.bad("A1-SAME-SET", inst, Finding("A1-SAME-SET", mod, loop, inst, "the registered id set does not stem from a lanelet lookup", qualname=qn))
                continue
            sh_or = []
            for v, st in shape_vals:
                if v is not None and not (isinstance(v, ast.Constant) and v.value is None):
                    sh_or += origins(rd, v, st)
            bad = []
            for o in reg_or:
                if any(o is s for s in sh_or):
                    continue
                # alternative accepted only under use_center_only
                defsite = mod.parent.get(o)
                while defsite is not None and not isinstance(defsite, ast.stmt):
                    defsite = mod.parent.get(defsite)
                # find the assignment that makes the loop variable point to this origin
                accepted = False
                if isinstance(loop.iter, ast.Name):
                    for d in rd.defs(loop.iter.id, loop):
                        if d.node is not None and any(x is o for x in origins(rd, d.node, d.stmt)):
                            g = dominating_guards(mod, d.stmt, stop=fn)
                            if any(pol and norm(t) == "use_center_only" for t, pol in g):
                                accepted = True
                if not accepted:
                    bad.append(o)
            res.check(
                "A1-SAME-SET",
                inst,
                not bad and bool(sh_or),
                mod,
                loop,
                "%s: lanelets registered from %s, shape assignment stored from %s" % (qn, [norm(o.func).split(".")[-1] for o in reg_or], [norm(o.func).split(".")[-1] for o in sh_or]),
                "the lanelet registries are filled from another set than the obstacle's shape assignment: registry and assignment are not inverse (removal then fails or leaves entries)",
                qualname=qn,
            )
            # --- lookup arguments (each lookup call of the function is checked once)
            for o in [x for x in reg_or + [y for v, st in center_vals if v is not None for y in origins(rd, v, st)] if id(x) not in seen_lookups and not seen_lookups.add(id(x))]:
                kind = "shape" if norm(o.func).endswith("find_lanelet_by_shape") else "center"
                arg = o.args[0] if o.args else None
                state = None
                ok = False
                if kind == "shape" and arg is not None:
                    srcs = [arg]
                    if isinstance(arg, ast.Name):
                        srcs = [d.node for d in rd.defs(arg.id, o) if d.node is not None]
                    ok = bool(srcs)
                    for s in srcs:
                        t = norm(s)
                        if isinstance(s, ast.Call) and isinstance(s.func, ast.Attribute) and s.func.attr == "rotate_translate_local" and len(s.args) == 2:
                            p, orr = norm(s.args[0]), norm(s.args[1])
                            if p.endswith(".position") and orr.endswith(".orientation") and p[: -len(".position")] == orr[: -len(".orientation")]:
                                state = p[: -len(".position")]
                            else:
                                ok = False
                        elif isinstance(s, ast.Attribute) and s.attr == "shape" and isinstance(s.value, ast.Call) and norm(s.value.func).endswith(".occupancy_at_time"):
                            state = "@" + norm(s.value.args[0]) if s.value.args else None
                        else:
                            ok = False
                elif arg is not None:
                    t = norm(arg)
                    ok = isinstance(arg, ast.List) and len(arg.elts) == 1 and (t.endswith(".position]") or isinstance(arg.elts[0], ast.Name))
                    if ok and t.endswith(".position]"):
                        state = t[1 : -len(".position]")]
                    elif ok:
                        ds = [norm(d.node) for d in rd.defs(arg.elts[0].id, o) if d.node is not None]
                        ok = bool(ds) and all(x.endswith(".position") for x in ds)
                        state = "|".join(sorted(x[: -len(".position")] for x in ds))
                res.check(
                    "A1-LOOKUP-ARGS",
                    "%s: %s lookup %s" % (qn, kind, norm(o)[:90]),
                    ok,
                    mod,
                    o,
                    "%s: %s" % (qn, norm(o)[:120]),
                    "the %s lanelets are not looked up with the obstacle's %s at the state in question" % (kind, "placed shape" if kind == "shape" else "centre position"),
                    qualname=qn,
                )
                sig.append((kind, "ok" if ok else "bad"))
            # registry time step
            kw = {k.arg: canon(k.value, rd, rd.stmt_of(c), params) for k in c.keywords}
            if c.func.attr == "add_dynamic_obstacle_to_lanelet":
                ts = kw.get("time_step") or (canon(c.args[1], rd, rd.stmt_of(c), params) if len(c.args) > 1 else None)
                tex = [x for o in reg_or for x in time_exprs(mod, fn, rd, o, params)]
                ok = ts is not None and time_matches(ts, tex)
                res.check("A1-LOOKUP-ARGS", "%s: registry time step %s is the time step of the looked-up state %s" % (qn, ts, sorted({t for t, _g in tex})), ok, mod, c, "%s: add_dynamic_obstacle_to_lanelet(time_step=%s) for lookups at %s" % (qn, ts, sorted({t for t, _g in tex})), "the obstacle is registered under another time step than the one its occupancy was computed for", qualname=qn)
        # per-time-step assignment dictionaries: key = time step of the looked-up state
        for vals, what in ((shape_vals, "shape"), (center_vals, "center")):
            for v, st in vals:
                if v is None or not isinstance(st, ast.Assign) or not isinstance(st.targets[0], ast.Subscript):
                    continue
                key = canon(st.targets[0].slice, rd, st, params) if not isinstance(st.targets[0], _Key) else st.targets[0].text
                tex = [x for o in origins(rd, v, st) for x in time_exprs(mod, fn, rd, o, params)]
                if not tex:
                    continue
                res.check("A1-LOOKUP-ARGS", "%s: %s assignment stored under %s for lookups at %s" % (qn, what, key, sorted({t for t, _g in tex})), time_matches(key, tex), mod, st, "%s: %s stored for lookups at %s" % (qn, norm(st.targets[0]), sorted({t for t, _g in tex})), "the %s lanelets of one time step are stored under another time step" % what, qualname=qn)
        signatures[(mod.rel, fn.name if fn.name != "create_from_xml_node" and fn.name != "create_from_message" else mod.qualname(fn).split(".")[0])] = sorted(set(sig))

    # ---------------- A3 siblings: same set of site names and verdict signatures in both readers
    x = {k[1]: v for k, v in signatures.items() if k[0] == RX}
    p = {k[1]: v for k, v in signatures.items() if k[0] == RP}
    for name in sorted(set(x) | set(p)):
        alias = {"TrajectoryPredictionFactory": "DynamicObstacleFactory"}
        ok = name in x and name in p and x[name] == p[name]
        res.check("A3-SIBLINGS", "reader assignment site %s agrees (xml=%s, protobuf=%s)" % (name, x.get(name), p.get(name)), ok, repo.mod(RP), None, "reader site %s xml=%s protobuf=%s" % (name, x.get(name), p.get(name)), "the XML and protobuf readers assign obstacles to lanelets differently", qualname=name)

    # ---------------- A1 (Scenario side) and A2: decided by abstract evaluation on a small world (c07ev) — registries
    # and recorded sets are compared after the operation, whatever the code of the operation looks like
    from . import c07ev

    c07ev.assign_rule(repo, res)
    c07ev.add_remove_rules(repo, res)
    return {"assignment_sites": [q for _m, q, _f in sites]}

"""C07 — obstacle-lanelet assignment is geometrically correct and invertible.

  A1 SAME-SET    Scenario.assign_obstacles_to_lanelets, evaluated on a small world (c07ev): the recorded centre sets
                 are the position look-ups of the obstacle's own positions, the recorded shape sets the shape look-ups
                 of its own occupancies, per time step, and the lanelet registries exactly their inverse; every other
                 function that registers obstacles on lanelets lies in a module covered by an evaluated rule
  A1 LOOKUP-IMPL the look-ups the assignment relies on (shared with C06)
  A2 INVERSE / TOTAL  the add / remove helpers and remove_obstacle, evaluated: registries = inverse of the shape
                 assignment after adding, free of the obstacle after removing; removing never raises
  A3 READERS     both file readers x static / dynamic obstacle x assignment on / off, evaluated (c07ev.reader_rules):
                 the obstacle read carries the look-ups of its own placed shape and of its centre at each of its
                 states, the lanelets register it inversely (one expectation for both readers: they agree)
"""
import ast

from ..core import canon, AnalysisError, Finding, attr_chain, call_name, dominating_guards, guard_says_not_none, norm, walk_no_nested
from ..dataflow import ReachingDefs

SC = "commonroad/scenario/scenario.py"
RX = "commonroad/common/reader/file_reader_xml.py"
RP = "commonroad/common/reader/file_reader_protobuf.py"

REGISTER = ("add_static_obstacle_to_lanelet", "add_dynamic_obstacle_to_lanelet")
SHAPE_SINKS = ("initial_shape_lanelet_ids", "shape_lanelet_assignment")
CENTER_SINKS = ("initial_center_lanelet_ids", "center_lanelet_assignment")


def assignment_sites(repo):
    """(module, qualname, function) of every function that registers obstacles on lanelets."""
    out = []
    for rel in sorted(repo.modules):
        m = repo.modules[rel]
        if "/visualization/" in rel:
            continue
        for n in ast.walk(m.tree):
            if isinstance(n, ast.FunctionDef):
                if any(isinstance(c, ast.Call) and isinstance(c.func, ast.Attribute) and c.func.attr in REGISTER for c in walk_no_nested(n)):
                    if m.parent.get(n) is not None and not (isinstance(m.parent.get(n), ast.ClassDef) and m.parent.get(n).name in ("Lanelet", "LaneletNetwork")):
                        out.append((m, m.qualname(n), n))
    return out


def run(repo, res, tier):
    res.rule("A1-SAME-SET", "recorded sets are the look-ups of the obstacle's own position / occupancy per time step and the registries their inverse (Scenario, evaluated); every assigning place is covered by an evaluated rule", 7)
    res.rule("A2-INVERSE", "add and remove helpers iterate the same assignment attributes", 2)
    res.rule("A2-TOTAL", "obstacle removal from lanelet registries uses only non-raising operations", 6)
    res.rule("A3-READERS", "both file readers, evaluated: an obstacle read carries the look-ups of its own placed shape and centre per state, registries inverse", 8)
    res.rule("A1-LOOKUP-IMPL", "the lookups the assignment relies on filter candidates by geometry and map them to lanelet ids", 2)
    from .c06 import lookup_rules

    lookup_rules(repo, res, "A1-LOOKUP-IMPL")

    sites = assignment_sites(repo)
    if len(sites) < 5:
        raise AnalysisError("only %d assignment sites found (8 confirmed: 2 in Scenario.assign_obstacles_to_lanelets, 3 per reader)" % len(sites))
    # every site lies in Scenario (evaluated below: c07ev.assign_rule) or in one of the two file readers (evaluated:
    # c07ev.reader_rules); a site anywhere else is not covered by an evaluated rule and is reported as such
    for mod, qn, fn in sites:
        covered = mod.rel in ("commonroad/scenario/scenario.py", "commonroad/common/reader/file_reader_xml.py", "commonroad/common/reader/file_reader_protobuf.py")
        res.check("A1-SAME-SET", "assignment site %s lies in a module whose assignment is evaluated" % qn, covered, mod, fn, "%s assigns obstacles to lanelets outside the scenario and the file readers" % qn, "a place that assigns obstacles to lanelets is not covered by the evaluated rules: its assignment and registries are not known to be inverse", qualname=qn)
    # ---------------- A1 (Scenario side) and A2: decided by abstract evaluation on a small world (c07ev) — registries
    # and recorded sets are compared after the operation, whatever the code of the operation looks like
    from . import c07ev

    c07ev.assign_rule(repo, res)
    c07ev.add_remove_rules(repo, res)
    c07ev.reader_rules(repo, res, "A3-READERS")
    return {"assignment_sites": [q for _m, q, _f in sites]}

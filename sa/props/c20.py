"""C20 — lanelet arc-length geometry and successor-route enumeration.

Decided (structure; the numbers are not):

ARC-SIGN     sign/shape abstract interpretation of Lanelet._compute_polyline_cumsum_dist: the result is the cumulative
             sum of a vector that is (a) non-negative and (b) zero in its first entry, hence starts at 0 and never
             decreases; the summed entries are Euclidean norms of consecutive vertex differences (recognised forms)
ARC-LERP     interpolate_position: one index and one ratio are shared by the three polylines, the ratio is
             (s - d[i]) / (d[i+1] - d[i]) and each point is (1-r) * V[i] + r * V[i+1]; the index search starts from
             searchsorted(d, s) - 1 and only moves forward while d[i] > s
MERGE        merge_lanelets applies one joint index to the three polylines, concatenates each boundary of the
             predecessor with the same boundary of the successor, decides the joint on coinciding end/start vertex,
             and passes the polylines to the constructor in its parameter order
ROUTE-GUARD  in find_lanelet_successors_in_range / ..predecessors..: every extension p + [x] is dominated by
             x not in p, x != self.lanelet_id and accumulated length < range
ROUTE-FLOW   the first frontier is exactly the direct successors; candidates are the links of the last path element;
             every (path, candidate) pair is filed exactly once (final or next frontier); path and length lists stay
             aligned; the frontier is replaced by a fresh list each round (with ROUTE-GUARD: strictly longer loop-free
             paths, hence termination on cyclic networks)
ROUTE-SIBLING the two searches have the same abstract shape up to successor<->predecessor
"""
import ast
import copy

from ..core import AnalysisError, Finding, attr_chain, call_name, canon, dominating_guards, norm, walk_no_nested
from ..dataflow import ReachingDefs
from .c04 import linear
from ..core import helper_table
from ..flowtools import alternatives

L = "commonroad/scenario/lanelet.py"


def method(repo, name):
    m = repo.mod(L)
    c = m.classes.get("Lanelet")
    if c is None or name not in c.methods:
        raise AnalysisError("anchor Lanelet.%s missing" % name)
    return m, c, c.methods[name]


# --------------------------------------------------------------------------- ARC-SIGN


class Abs:
    """abstract value: set of facts about an array"""

    def __init__(self, *facts, src=None):
        self.f = set(facts)
        self.src = src

    def has(self, x):
        return x in self.f

    def __repr__(self):
        return "Abs(%s)" % ",".join(sorted(self.f))


def arc_sign(repo, res):
    m, c, fn = method(repo, "_compute_polyline_cumsum_dist")
    qn = "Lanelet._compute_polyline_cumsum_dist"
    params = [a.arg for a in fn.args.args]
    defaults = dict(zip(params[len(params) - len(fn.args.defaults):], fn.args.defaults))
    if len(params) < 1:
        raise AnalysisError("signature of _compute_polyline_cumsum_dist changed")
    polylines = params[0]
    comparator = params[1] if len(params) > 1 else None
    rd = ReachingDefs(fn)
    env = {}  # local name -> Abs (element facts for lists)
    cols = {}  # matrix name -> Abs of the columns assigned
    loops = []
    unknown = []  # constructs outside the vocabulary of the interpreter: a missing fact is then "not recognised", not "wrong"

    def ev(e, scope):
        if isinstance(e, ast.Name):
            if e.id in scope:
                return scope[e.id]
            return env.get(e.id, Abs())
        if isinstance(e, ast.Constant) and isinstance(e.value, (int, float)):
            return Abs(*(["nonneg"] + (["zero"] if e.value == 0 else [])) if e.value >= 0 else [])
        if isinstance(e, (ast.List, ast.Tuple)):
            vals = [ev(x, scope) for x in e.elts]
            out = Abs()
            if vals and all(v.has("nonneg") for v in vals):
                out.f.add("nonneg")
            if vals and vals[0].has("zero"):
                out.f.add("first0")
            if vals and all(v.has("zero") for v in vals):
                out.f.add("zero")
            return out
        if isinstance(e, ast.Call):
            cn = call_name(e) or ""
            args = [ev(a, scope) for a in e.args]
            kw = {k.arg: k.value for k in e.keywords}
            if cn in ("np.diff",) and args and args[0].has("polyline") and norm(kw.get("axis", ast.Constant(value=None))) == "0":
                return Abs("diff")
            if cn in ("np.square",) and args:
                return Abs("nonneg", *(["sqdiff"] if args[0].has("diff") else []))
            if cn in ("np.abs", "np.absolute", "abs") and args:
                return Abs("nonneg")
            if cn in ("np.sum",) and args:
                ax = norm(kw.get("axis", ast.Constant(value=None)))
                return Abs(*(["nonneg"] if args[0].has("nonneg") else []), *(["sumsq"] if args[0].has("sqdiff") and ax == "1" else []))
            if cn in ("np.sqrt",) and args:
                return Abs("nonneg", *(["norm"] if args[0].has("sumsq") else []))
            if cn in ("np.linalg.norm",) and args:
                ax = norm(kw.get("axis", ast.Constant(value=None)))
                return Abs("nonneg", *(["norm"] if args[0].has("diff") and ax == "1" else []))
            if cn in ("np.hypot",) and len(e.args) == 2:
                # hypot of two coordinate columns is the segment length only for planar vertices; centre lines may
                # carry a z coordinate (Scenario.convert_to_2d exists for that reason), so this is not the norm
                return Abs("nonneg")
            if cn in ("np.append", "np.concatenate", "np.hstack", "np.insert") and cn != "np.insert":
                parts = e.args if cn == "np.append" else (e.args[0].elts if e.args and isinstance(e.args[0], (ast.Tuple, ast.List)) else [])
                vals = [ev(p, scope) for p in parts]
                out = Abs()
                if vals and all(v.has("nonneg") for v in vals):
                    out.f.add("nonneg")
                if vals and (vals[0].has("zero") or vals[0].has("first0")):
                    out.f.add("first0")
                if len(vals) == 2 and vals[0].has("zero") and vals[1].has("norm"):
                    out.f.add("seglen")  # [0, |v1-v0|, |v2-v1|, ...]
                return out
            if isinstance(e.func, ast.Attribute) and e.func.attr == "sum":
                base = ev(e.func.value, scope)
                ax = norm(kw.get("axis", e.args[0] if e.args else ast.Constant(value=None)))
                return Abs(*(["nonneg"] if base.has("nonneg") else []), *(["sumsq"] if base.has("sqdiff") and ax == "1" else []))
            if cn in ("np.cumsum",) and args:
                a = args[0]
                return Abs(*(["nondecreasing"] if a.has("nonneg") else []), *(["starts0"] if a.has("first0") else []), *(["arclen"] if a.has("seglen") else []))
            # the comparator parameter (default np.amin) reduces the columns row-wise
            if isinstance(e.func, ast.Name) and comparator is not None and e.func.id == comparator and e.args:
                d = defaults.get(comparator)
                dn = norm(d) if d is not None else None
                base = ev(e.args[0], scope)
                if dn in ("np.amin", "np.min", "np.amax", "np.max", "np.mean") and norm(kw.get("axis", ast.Constant(value=None))) == "1":
                    return Abs(*[f for f in ("nonneg", "first0", "seglen") if base.has(f)])
                return Abs()
            if cn in ("np.amin", "np.min", "np.amax", "np.max", "np.mean") and args:
                return Abs(*[f for f in ("nonneg", "first0", "seglen") if args[0].has(f)])
            if cn in ("np.stack", "np.column_stack", "np.array", "np.asarray", "np.vstack", "np.hstack", "np.transpose") and args:
                # a matrix whose columns (or rows) are the listed arrays: the facts are those common to the arrays
                return Abs(*args[0].f)
            if isinstance(e.func, ast.Attribute) and e.func.attr in ("astype", "copy", "transpose", "reshape"):
                return ev(e.func.value, scope)
            if cn in ("np.empty", "np.zeros", "len", "range", "float", "int"):
                return Abs()
            unknown.append(cn or norm(e.func))
            return Abs()
        if isinstance(e, (ast.ListComp, ast.GeneratorExp)) and len(e.generators) == 1 and not e.generators[0].ifs:
            g = e.generators[0]
            sc = dict(scope)
            it = g.iter
            tv = g.target
            if isinstance(it, ast.Call) and call_name(it) == "enumerate" and it.args and isinstance(tv, ast.Tuple):
                it, tv = it.args[0], tv.elts[-1]
            sc[norm(tv)] = Abs("polyline") if isinstance(it, ast.Name) and it.id == polylines else ev(it, scope)
            return ev(e.elt, sc)
        if isinstance(e, ast.Attribute) and e.attr == "T":
            return ev(e.value, scope)
        if isinstance(e, ast.BinOp) and isinstance(e.op, ast.Pow) and isinstance(e.right, ast.Constant) and e.right.value == 2:
            b = ev(e.left, scope)
            return Abs("nonneg", *(["sqdiff"] if b.has("diff") else []))
        if isinstance(e, ast.BinOp) and isinstance(e.op, ast.Mult) and norm(e.left) == norm(e.right):
            b = ev(e.left, scope)
            return Abs("nonneg", *(["sqdiff"] if b.has("diff") else []))
        if isinstance(e, ast.BinOp) and isinstance(e.op, (ast.Add, ast.Mult)):
            a, b = ev(e.left, scope), ev(e.right, scope)
            return Abs(*(["nonneg"] if a.has("nonneg") and b.has("nonneg") else []))
        if isinstance(e, ast.Subscript):
            return ev(e.value, scope)
        return Abs()

    ret = None

    def run(stmts, scope):
        nonlocal ret
        for st in stmts:
            if isinstance(st, ast.Assign) and len(st.targets) == 1:
                t = st.targets[0]
                if isinstance(t, ast.Name):
                    if isinstance(st.value, ast.List) and not st.value.elts:
                        env[t.id] = Abs("emptylist")
                    elif isinstance(st.value, ast.Call) and call_name(st.value) in ("np.empty", "np.zeros"):
                        env[t.id] = Abs("matrix")
                        cols[t.id] = None
                    else:
                        env[t.id] = ev(st.value, scope)
                elif isinstance(t, ast.Subscript) and isinstance(t.value, ast.Name) and (t.value.id in cols or scope.get("colview:" + t.value.id) in cols):
                    v = ev(st.value, scope)
                    # column store inside a loop over all source arrays (directly, or through a row of the transposed view)
                    mat = t.value.id if t.value.id in cols else scope["colview:" + t.value.id]
                    cols[mat] = v if cols[mat] is None else Abs(*(cols[mat].f & v.f))
                    env[mat] = Abs(*cols[mat].f)
                else:
                    unknown.append("the store %s" % norm(st)[:60])
            elif isinstance(st, ast.Expr) and isinstance(st.value, ast.Call) and isinstance(st.value.func, ast.Attribute) and st.value.func.attr == "append" and isinstance(st.value.func.value, ast.Name):
                lst = st.value.func.value.id
                v = ev(st.value.args[0], scope)
                prev = env.get(lst)
                env[lst] = v if prev is None or prev.has("emptylist") else Abs(*(prev.f & v.f))
            elif isinstance(st, ast.For):
                sc = dict(scope)
                it = st.iter
                if isinstance(it, ast.Call) and call_name(it) == "enumerate" and it.args:
                    it = it.args[0]
                    tv = st.target.elts[-1] if isinstance(st.target, ast.Tuple) else st.target
                else:
                    tv = st.target
                if isinstance(it, ast.Call) and call_name(it) == "zip" and len(it.args) == 2 and isinstance(st.target, ast.Tuple) and len(st.target.elts) == 2 and all(isinstance(x, ast.Name) for x in st.target.elts):
                    # for column, x in zip(M.T, xs): the rows of the transposed matrix are its columns
                    a0, a1 = it.args
                    if isinstance(a0, ast.Attribute) and a0.attr == "T" and isinstance(a0.value, ast.Name) and a0.value.id in cols:
                        sc["colview:" + st.target.elts[0].id] = a0.value.id
                        it, tv = a1, st.target.elts[1]
                    else:
                        unknown.append("the loop over %s" % norm(it)[:60])
                if isinstance(it, ast.Name) and it.id == polylines:
                    sc[norm(tv)] = Abs("polyline")
                elif isinstance(it, ast.Name):
                    sc[norm(tv)] = env.get(it.id, Abs())
                loops.append(st)
                run(st.body, sc)
            elif isinstance(st, ast.Return) and st.value is not None:
                v = ev(st.value, scope)
                ret = v if ret is None else Abs(*(ret.f & v.f))

    run(fn.body, {})
    if ret is None:
        raise AnalysisError("_compute_polyline_cumsum_dist has no return value")
    if unknown and not (ret.has("nondecreasing") and ret.has("starts0") and ret.has("arclen")):
        raise AnalysisError("_compute_polyline_cumsum_dist uses %s: outside the vocabulary of the arc-length interpreter" % sorted(set(unknown)))
    res.check("ARC-SIGN", "cumulative distance never decreases (cumsum of non-negative entries)", ret.has("nondecreasing"), m, fn, "return value facts: %s" % sorted(ret.f), "the summed segment values are not provably non-negative: the arc length can decrease", qualname=qn)
    res.check("ARC-SIGN", "cumulative distance starts at 0 (first summed entry is 0)", ret.has("starts0"), m, fn, "return value facts: %s" % sorted(ret.f), "the first entry of the cumulative distance is not provably 0", qualname=qn)
    res.check("ARC-SIGN", "summed entries are the Euclidean lengths of consecutive vertex differences", ret.has("arclen"), m, fn, "return value facts: %s" % sorted(ret.f), "the entries summed are not recognised as |v[i+1]-v[i]| (sqrt of the row sums of squared np.diff): the distance does not end at the polyline length", qualname=qn)
    # callers pass the centre line for `distance`
    mm, cc, _ = m, c, None
    g = c.props.get("distance", {}).get("get")
    if g is None:
        raise AnalysisError("Lanelet.distance getter missing")
    calls = [x for x in ast.walk(g) if isinstance(x, ast.Call) and norm(x.func).endswith("_compute_polyline_cumsum_dist")]
    ok = len(calls) == 1 and len(calls[0].args) == 1 and canon(calls[0].args[0], None, None, []) in ("[self.center_vertices]",) and not calls[0].keywords
    res.check("ARC-SIGN", "Lanelet.distance is computed from the centre line with the default reduction", ok, m, g, "distance <- %s" % [norm(x) for x in calls], "the cumulative distance is not that of the centre line", qualname="Lanelet.distance")


# --------------------------------------------------------------------------- ARC-LERP


def is_lerp(e, rd, at):
    """(array, idx_lin, ratio text) if e is (1 - r) * A[i] + r * A[i + 1] (commuted forms accepted)"""
    if not (isinstance(e, ast.BinOp) and isinstance(e.op, ast.Add)):
        return None
    terms = []
    for t in (e.left, e.right):
        if not (isinstance(t, ast.BinOp) and isinstance(t.op, ast.Mult)):
            return None
        a, b = t.left, t.right
        if isinstance(a, ast.Subscript):
            a, b = b, a
        if not isinstance(b, ast.Subscript):
            return None
        terms.append((a, b))
    out = {}
    for w, sub in terms:
        arr = canon(sub.value, None, None, [])
        idx = linear(sub.slice, lambda x: norm(x) if isinstance(x, ast.Name) else None)
        wt = norm(w)
        out[wt] = (arr, idx)
    return out


def arc_lerp(repo, res):
    m, c, fn = method(repo, "interpolate_position")
    qn = "Lanelet.interpolate_position"
    sp = [a.arg for a in fn.args.args][1]
    rd = ReachingDefs(fn)
    hp = helper_table(c, m, fn, repo)

    def CN(e, at):
        return canon(e, rd, at, [sp], hp)
    rets = [r for r in walk_no_nested(fn) if isinstance(r, ast.Return) and isinstance(r.value, ast.Tuple)]
    res.check("ARC-LERP", "interpolate_position returns (centre, right, left, index)", len(rets) == 1 and len(rets[0].value.elts) == 4, m, fn, "%d tuple returns" % len(rets), "the result no longer has the documented shape", qualname=qn)
    if not rets:
        return
    elts = rets[0].value.elts
    want = ["self.center_vertices", "self.right_vertices", "self.left_vertices"]
    seen = []
    for i, (e, arrname) in enumerate(zip(elts[:3], want)):
        # a point bound to a local first is read through its one definition
        for _ in range(4):
            if isinstance(e, ast.Name):
                ds_ = list(rd.defs(e.id, rets[0]))
                if len(ds_) == 1 and ds_[0].kind == "assign" and isinstance(ds_[0].node, (ast.BinOp, ast.Name)):
                    e = ds_[0].node
                    continue
            break
        # single-return helpers are inlined; the index / ratio locals are kept as names
        e = ast.parse(canon(e, None, None, [sp], hp), mode="eval").body
        lp = is_lerp(e, rd, rets[0])
        ok = lp is not None and len(lp) == 2
        r_name = None
        if ok:
            ws = list(lp)
            # one weight is `1 - r`, the other `r`
            cand = [w for w in ws if ("(1 - %s)" % w) in ws or ("1 - %s" % w) in ws]
            ok = len(cand) == 1
            if ok:
                r_name = cand[0]
                comp = [w for w in ws if w != r_name][0]
                a0, i0 = lp[comp]
                a1, i1 = lp[r_name]
                ok = a0 == a1 == arrname and i0 is not None and i1 is not None and len(i0) == 1 and list(i0.values()) == [1] and i1 == dict(i0, **{"1": 1})
                seen.append((r_name, tuple(sorted(i0.items())) if i0 else None))
        res.check("ARC-LERP", "element %d is (1 - r) * %s[i] + r * %s[i + 1]" % (i, arrname.split(".")[-1], arrname.split(".")[-1]), ok, m, e, norm(e), "the interpolated point on this polyline is not the convex combination of the segment end points (or of another polyline / segment)", qualname=qn)
    res.check("ARC-LERP", "one index and one ratio for all three polylines", len(set(seen)) == 1 and len(seen) == 3, m, rets[0], "ratio/index per polyline: %s" % seen, "the three points are taken at different segment parameters", qualname=qn)
    if len(set(seen)) == 1 and seen:
        r_name, idx = seen[0]
        iname = idx[0][0]
        ok = norm(elts[3]) == iname
        res.check("ARC-LERP", "the returned segment id is the interpolation index", ok, m, elts[3], norm(elts[3]), "the reported segment is not the one interpolated on", qualname=qn)
        ds = [d for d in rd.defs(r_name, rets[0])]
        ok = len(ds) == 1 and ds[0].kind == "assign"
        if ok:
            v = ds[0].node
            ok = isinstance(v, ast.BinOp) and isinstance(v.op, ast.Div)
            if ok:
                v = ast.parse(canon(v, rd, ds[0].stmt, [sp, iname], hp), mode="eval").body

                def at(x):
                    t = canon(x, None, None, [sp])
                    if t == sp:
                        return "s"
                    if isinstance(x, ast.Subscript) and canon(x.value, None, None, []) == "self.distance":
                        il = linear(x.slice, lambda y: norm(y) if isinstance(y, ast.Name) else None)
                        if il == {iname: 1}:
                            return "d0"
                        if il == {iname: 1, "1": 1}:
                            return "d1"
                    return None
                num, den = linear(v.left, at), linear(v.right, at)
                ok = num == {"s": 1, "d0": -1} and den == {"d1": 1, "d0": -1}
        res.check("ARC-LERP", "ratio r = (s - d[i]) / (d[i+1] - d[i])", ok, m, ds[0].stmt if ds else fn, norm(ds[0].stmt) if ds else "?", "the segment parameter is not the fraction of the segment's arc length", qualname=qn)
        # index search
        ids = [d for d in rd.defs(iname, rets[0])]
        inits = [d for d in ids if d.kind == "assign"]
        ok = any(isinstance(d.node, ast.BinOp) and isinstance(d.node.op, ast.Sub) and isinstance(d.node.left, ast.Call) and call_name(d.node.left) == "np.searchsorted" and [CN(a, d.stmt) for a in d.node.left.args] == ["self.distance", sp] and norm(d.node.right) == "1" for d in inits)
        res.check("ARC-LERP", "index search starts at searchsorted(distance, s) - 1", ok, m, fn, "index definitions: %s" % sorted(norm(d.stmt) for d in ids), "the segment is not located by the cumulative distance", qualname=qn)
        whiles = [w for w in walk_no_nested(fn) if isinstance(w, ast.While)]
        ok = len(whiles) <= 1
        for w in whiles:
            t = canon(w.test, rd, w, [sp, iname], hp)
            ok = ok and t in ("not self.distance[%s] <= %s" % (iname, sp), "%s < self.distance[%s]" % (sp, iname), "self.distance[%s] > %s" % (iname, sp)) and len(w.body) == 1 and norm(w.body[0]) in ("%s += 1" % iname, "%s = %s + 1" % (iname, iname))
        res.check("ARC-LERP", "index moves forward only while d[i] > s", ok, m, whiles[0] if whiles else fn, "while %s" % (norm(whiles[0].test) if whiles else "-"), "the index correction loop does not keep d[i] <= s", qualname=qn)
        # the precondition 0 <= s <= length is asserted
        asserts = [a for a in walk_no_nested(fn) if isinstance(a, ast.Assert)]
        txt = " ".join(canon(a.test, None, None, [sp]) for a in asserts)
        ok = ("np.greater_equal(self.distance[-1], %s)" % sp in txt or "%s <= self.distance[-1]" % sp in txt) and ("np.greater_equal(%s, 0)" % sp in txt or "0 <= %s" % sp in txt or "%s >= 0" % sp in txt)
        res.check("ARC-LERP", "0 <= s <= length is required", ok, m, asserts[0] if asserts else fn, "asserts: %s" % txt[:160], "arc lengths outside the lanelet are not rejected", qualname=qn)


# --------------------------------------------------------------------------- MERGE


def merge(repo, res):
    m, c, fn = method(repo, "merge_lanelets")
    qn = "Lanelet.merge_lanelets"
    rd = ReachingDefs(fn)
    cats = [s for s in walk_no_nested(fn) if isinstance(s, ast.Assign) and isinstance(s.value, ast.Call) and call_name(s.value) == "np.concatenate"]
    res.check("MERGE", "three boundary concatenations", len(cats) == 3, m, fn, "%d np.concatenate assignments" % len(cats), "not all three polylines are merged", qualname=qn)
    idxs, kinds = set(), {}
    for s in cats:
        parts = s.value.args[0].elts if s.value.args and isinstance(s.value.args[0], (ast.Tuple, ast.List)) else []
        ok = len(parts) == 2
        if ok:
            a, b = parts
            cha = attr_chain(a)
            ok = cha is not None and len(cha) == 2 and isinstance(b, ast.Subscript) and isinstance(b.slice, ast.Slice) and b.slice.upper is None and b.slice.step is None and b.slice.lower is not None
            if ok:
                chb = attr_chain(b.value)
                ok = chb is not None and len(chb) == 2 and chb[1] == cha[1] and cha[0] != chb[0]
                if ok:
                    idxs.add(norm(b.slice.lower))
                    kinds[cha[1]] = (cha[0], chb[0], norm(s.targets[0]))
        res.check("MERGE", "concatenation joins a boundary of the first part with the same boundary of the second from the joint index on", ok, m, s, norm(s), "a merged boundary mixes different polylines or does not cut at the joint", qualname=qn)
    res.check("MERGE", "one joint index for all three polylines", len(idxs) == 1, m, fn, "joint indices %s" % sorted(idxs), "the three polylines are cut at different vertices", qualname=qn)
    res.check("MERGE", "left, right and centre polylines are merged", set(kinds) == {"left_vertices", "right_vertices", "center_vertices"}, m, fn, "merged %s" % sorted(kinds), "a polyline of the merged lanelet is not the concatenation of the parts", qualname=qn)
    firsts = {v[0] for v in kinds.values()}
    seconds = {v[1] for v in kinds.values()}
    res.check("MERGE", "the same lanelet comes first in all three concatenations", len(firsts) == 1 and len(seconds) == 1, m, fn, "first %s second %s" % (sorted(firsts), sorted(seconds)), "the order of the parts differs between the polylines", qualname=qn)
    if len(idxs) == 1 and len(firsts) == 1 and len(seconds) == 1:
        iname = next(iter(idxs))
        first, second = next(iter(firsts)), next(iter(seconds))
        params = [a.arg for a in fn.args.args][1:]
        # joint index: 1 exactly when the first part ends where the second starts, else 0
        alts = alternatives(m, fn, rd, iname, cats[0], params + [first, second]) if iname.isidentifier() else []
        vals = sorted({norm(v) for v, _c in alts if v is not None})
        res.check("MERGE", "joint index is 1 (shared vertex dropped once) or 0", vals == ["0", "1"], m, fn, "%s in %s" % (iname, vals), "the joint vertex is duplicated or vertices are lost", qualname=qn)
        for v, conds in alts:
            if v is not None and norm(v) == "1":
                txt = [t for t, pol in conds if pol]
                ok = any(("%s.%s[-1]" % (first, w) in t and "%s.%s[0]" % (second, w) in t and ("isclose" in t or "allclose" in t or "array_equal" in t or "==" in t)) for t in txt for w in ("left_vertices", "center_vertices", "right_vertices"))
                res.check("MERGE", "the shared vertex is dropped only if the first part ends where the second starts", ok, m, fn, "idx = 1 under %s" % txt, "a vertex of the second part is dropped although the parts are not connected there", qualname=qn)
        # which is first: the predecessor
        fa = alternatives(m, fn, rd, first, cats[0], params)
        sa_ = alternatives(m, fn, rd, second, cats[0], params)
        ok = sorted(norm(v) for v, _c in fa if v is not None) == sorted(params) and sorted(norm(v) for v, _c in sa_ if v is not None) == sorted(params)
        for v, conds in fa:
            if v is None:
                ok = False
                continue
            me = norm(v)
            other = [p_ for p_ in params if p_ != me][0] if me in params and len(params) == 2 else "?"
            # only the conditions that mention both lanelets (the asserts on validity do not choose)
            rel = [(t, pol) for t, pol in conds if ".predecessor" in t or ".successor" in t]
            rel = [(t, pol) for t, pol in rel if not (" or " in t and t.count(" or ") >= 3)]
            pos = [t for t, pol in rel if pol]
            neg = [t for t, pol in rel if not pol]
            want = ("%s.lanelet_id in %s.predecessor" % (me, other), "%s.lanelet_id in %s.successor" % (other, me))
            anti = ("%s.lanelet_id in %s.predecessor" % (other, me), "%s.lanelet_id in %s.successor" % (me, other))
            ok = ok and bool(rel)
            if pos:
                ok = ok and all(any(w in t for w in want) and not any(w in t for w in anti) for t in pos)
            if neg:
                ok = ok and all(any(w in t for w in anti) and not any(w in t for w in want) for t in neg)
        res.check("MERGE", "the lanelet placed first is the predecessor of the other", ok, m, fn, "first part %s <- %s" % (first, sorted((norm(v), c_) for v, c_ in fa if v is not None)), "the parts are concatenated against the driving direction", qualname=qn)
    # constructor argument order
    ctor = [x for x in walk_no_nested(fn) if isinstance(x, ast.Call) and call_name(x) == "Lanelet"]
    init = c.methods.get("__init__")
    ips = [a.arg for a in init.args.args][1:] if init is not None else []
    for x in ctor:
        pos = [norm(a) for a in x.args[:3]]
        got = {}
        for p_, a in zip(ips, x.args):
            got[p_] = norm(a)
        for k in x.keywords:
            got[k.arg] = norm(k.value)
        ok = all(got.get(k) == v[2] for k, v in kinds.items()) if len(kinds) == 3 else False
        res.check("MERGE", "merged polylines reach the constructor in their own roles", ok, m, x, "Lanelet(%s)" % ", ".join(pos), "left/centre/right of the merged lanelet are swapped", qualname=qn)


# --------------------------------------------------------------------------- ROUTE-*


def route(repo, res):
    sigs = {}
    for fname, link in (("find_lanelet_successors_in_range", "successor"), ("find_lanelet_predecessors_in_range", "predecessor")):
        m, c, fn = method(repo, fname)
        qn = "Lanelet." + fname
        params = [a.arg for a in fn.args.args]
        net, rng = params[1], params[2]
        rd = ReachingDefs(fn)
        whiles = [w for w in walk_no_nested(fn) if isinstance(w, ast.While)]
        if len(whiles) != 1:
            res.bad("ROUTE-FLOW", fname, Finding("ROUTE-FLOW", m, fn, "%d while loops in %s" % (len(whiles), fname), "the breadth-wise expansion is not recognisable", qualname=qn))
            continue
        wl = whiles[0]
        frontier = norm(wl.test)
        # frontier / final / next lists
        init = {norm(s.targets[0]): s for s in fn.body if isinstance(s, ast.Assign) and len(s.targets) == 1}
        fr0 = init.get(frontier)
        # two layouts of the frontier: parallel lists (paths, lengths) walked with zip, or one list of (path, length)
        paired = fr0 is not None and isinstance(fr0.value, ast.ListComp) and isinstance(fr0.value.elt, ast.Tuple) and len(fr0.value.elt.elts) == 2
        elt0 = (fr0.value.elt.elts[0] if paired else fr0.value.elt) if fr0 is not None and isinstance(fr0.value, ast.ListComp) else None
        ok = elt0 is not None and isinstance(elt0, ast.List) and len(elt0.elts) == 1 and len(fr0.value.generators) == 1 and not fr0.value.generators[0].ifs and norm(elt0.elts[0]) == norm(fr0.value.generators[0].target) and canon(fr0.value.generators[0].iter, None, None, []) == "self." + link
        res.check("ROUTE-FLOW", "%s: first frontier is one path per direct %s" % (fname, link), ok, m, fr0 or fn, norm(fr0) if fr0 else "no initial frontier", "a direct %s is missing from (or something else is in) the first frontier" % link, qualname=qn)
        fors = [f for f in wl.body if isinstance(f, ast.For)]
        if paired:
            shape_ok = len(fors) == 1 and norm(fors[0].iter) == frontier and isinstance(fors[0].target, ast.Tuple) and len(fors[0].target.elts) == 2
        else:
            shape_ok = len(fors) == 1 and isinstance(fors[0].iter, ast.Call) and call_name(fors[0].iter) == "zip" and len(fors[0].iter.args) == 2 and norm(fors[0].iter.args[0]) == frontier and isinstance(fors[0].target, ast.Tuple) and len(fors[0].target.elts) == 2
        if not shape_ok:
            # not one of the two frontier layouts this checker knows: refuse rather than guess
            raise AnalysisError("%s: the frontier is walked by %s — outside the analysed vocabulary (zip(paths, lengths) or a list of (path, length) pairs)" % (fname, [norm(f.iter) for f in fors]))
        res.ok("ROUTE-FLOW", "%s: each round walks the whole frontier with its lengths (%s)" % (fname, "pairs" if paired else "parallel lists"))
        outer = fors[0]
        lens = None if paired else norm(outer.iter.args[1])
        pv, lv = [norm(x) for x in outer.target.elts]
        if paired:
            ln0 = fr0
            len_elt, gen0 = fr0.value.elt.elts[1], fr0.value.generators[0]
            ok = canon(len_elt, None, None, [net]) == "%s.find_lanelet_by_id(%s).distance[-1]" % (net, norm(gen0.target))
        else:
            ln0 = init.get(lens)
            ok = ln0 is not None and isinstance(ln0.value, ast.ListComp) and canon(ln0.value.generators[0].iter, None, None, []) == "self." + link and canon(ln0.value.elt, None, None, [net]) == "%s.find_lanelet_by_id(%s).distance[-1]" % (net, norm(ln0.value.generators[0].target))
        res.check("ROUTE-FLOW", "%s: initial lengths are the lengths of the direct %ss, in the same order" % (fname, link), ok, m, ln0 or fn, norm(ln0)[:100] if ln0 else "?", "paths and accumulated lengths are misaligned from the start", qualname=qn)
        # frontier replacement
        nxt = [s for s in wl.body if isinstance(s, ast.Assign) and norm(s.targets[0]) == frontier]
        ok = len(nxt) == 1 and wl.body.index(nxt[0]) > wl.body.index(outer) and isinstance(nxt[0].value, ast.Name)
        pn = norm(nxt[0].value) if ok else None
        ln = None
        if ok:
            fresh = [s for s in wl.body[: wl.body.index(outer)] if isinstance(s, ast.Assign) and norm(s.targets[0]) == pn and isinstance(s.value, (ast.List, ast.Call)) and norm(s.value) in ("[]", "list()")]
            ok = len(fresh) == 1
            if not paired:
                nl = [s for s in wl.body if isinstance(s, ast.Assign) and norm(s.targets[0]) == lens and isinstance(s.value, ast.Name)]
                ok = ok and len(nl) == 1
                ln = norm(nl[0].value) if nl else None
                fresh2 = [s for s in wl.body[: wl.body.index(outer)] if isinstance(s, ast.Assign) and norm(s.targets[0]) == ln and norm(s.value) in ("[]", "list()")]
                ok = ok and len(fresh2) == 1
        res.check("ROUTE-FLOW", "%s: the frontier (and its lengths) is replaced by a list built from scratch each round" % fname, ok, m, wl, "frontier update %s" % [norm(s) for s in nxt], "paths of an earlier round stay in the frontier: the search need not terminate", qualname=qn)
        if not ok:
            continue
        # candidates = links of the last element
        cand_defs = [s for s in outer.body if isinstance(s, ast.Assign)]
        cands = {norm(s.targets[0]): s for s in cand_defs}
        inner = [f for f in ast.walk(outer) if isinstance(f, ast.For) and f is not outer]
        ok = len(inner) == 1 and norm(inner[0].iter) in cands and canon(cands[norm(inner[0].iter)].value, rd, cands[norm(inner[0].iter)], [net]) == "%s.find_lanelet_by_id(%s[-1]).%s" % (net, pv, link)
        res.check("ROUTE-FLOW", "%s: candidates are the %s links of the path's last lanelet" % (fname, link), ok, m, inner[0] if inner else outer, "for .. in %s" % (norm(inner[0].iter) if inner else "?"), "paths are extended by something else than %s links" % link, qualname=qn)
        if not ok:
            continue
        il = inner[0]
        xv = norm(il.target)
        # every path through the inner loop body files exactly once
        def filings(stmts):
            """list of per-path filing counts (paths end at continue / fallthrough)"""
            paths = [0]
            for st in stmts:
                if isinstance(st, ast.Expr) and isinstance(st.value, ast.Call) and isinstance(st.value.func, ast.Attribute) and st.value.func.attr == "append" and norm(st.value.func.value) in (pn, "paths_final", final):
                    paths = [p + 1 if p is not None else None for p in paths]
                elif isinstance(st, ast.If):
                    a = filings(st.body)
                    b = filings(st.orelse) if st.orelse else [0]
                    new = []
                    for p in paths:
                        if isinstance(p, tuple):
                            new.append(p)
                            continue
                        for q in a + b:
                            new.append((p + q[0], "end") if isinstance(q, tuple) else p + q)
                    paths = new
                elif isinstance(st, ast.Continue):
                    paths = [(p, "end") if not isinstance(p, tuple) else p for p in paths]
            return paths

        finals = [norm(s.targets[0]) for s in fn.body if isinstance(s, ast.Assign) and norm(s.value) in ("[]", "list()")]
        rets = [r for r in walk_no_nested(fn) if isinstance(r, ast.Return)]
        final = norm(rets[-1].value) if rets else "?"
        res.check("ROUTE-FLOW", "%s: returns the list of finished paths" % fname, final in finals and len(rets) == 1, m, rets[-1] if rets else fn, "return %s" % final, "something else than the collected paths is returned", qualname=qn)
        counts = [p[0] if isinstance(p, tuple) else p for p in filings(il.body)]
        res.check("ROUTE-FLOW", "%s: every (path, candidate) pair is filed exactly once" % fname, bool(counts) and all(x == 1 for x in counts), m, il, "filings per control path: %s" % counts, "a path is dropped (a direct %s may end up uncovered) or filed twice" % link, qualname=qn)
        # the no-candidate branch files the path as final
        nocand = [s for s in outer.body if isinstance(s, ast.If) and il not in list(ast.walk(s)) or (isinstance(s, ast.If) and il in s.orelse)]
        ok = len(nocand) >= 1 and canon(nocand[0].test, None, None, []) in ("not %s" % norm(il.iter), "len(%s) == 0" % norm(il.iter))
        if ok:
            nb = nocand[0].body
            files = len(nb) >= 1 and norm(nb[0]) == "%s.append(%s)" % (final, pv)
            if il in nocand[0].orelse:
                ok = files and len(nb) == 1
            else:
                # dead-end case leaves the iteration, the candidates are examined afterwards at the same level
                ok = files and len(nb) == 2 and isinstance(nb[1], ast.Continue) and il in outer.body and outer.body.index(il) > outer.body.index(nocand[0])
        res.check("ROUTE-FLOW", "%s: a path without further %s is finished" % (fname, link), ok, m, nocand[0] if nocand else outer, norm(nocand[0].test) if nocand else "?", "dead-end paths are lost", qualname=qn)
        # extensions and their guards
        exts = [e for e in ast.walk(il) if isinstance(e, ast.BinOp) and isinstance(e.op, ast.Add) and norm(e.left) == pv and isinstance(e.right, ast.List)]
        res.check("ROUTE-GUARD", "%s: extensions are p + [candidate]" % fname, len(exts) >= 1 and all(len(e.right.elts) == 1 and norm(e.right.elts[0]) == xv for e in exts), m, il, "extensions %s" % [norm(e) for e in exts], "paths are extended by something else than the examined candidate", qualname=qn)
        for e in exts:
            guards = dominating_guards(m, e, stop=fn)
            neg = [canon(t, None, None, [rng]) for t, pol in guards if not pol]
            pos = [canon(t, None, None, [rng]) for t, pol in guards if pol]
            noloop = ("%s in %s" % (xv, pv)) in neg or ("%s not in %s" % (xv, pv)) in pos
            nostart = ("%s == self.lanelet_id" % xv) in neg or ("self.lanelet_id == %s" % xv) in neg or ("%s != self.lanelet_id" % xv) in pos
            inrange = ("%s >= %s" % (lv, rng)) in neg or ("%s < %s" % (lv, rng)) in pos or ("%s <= %s" % (rng, lv)) in neg
            res.check("ROUTE-GUARD", "%s: extension only by a lanelet not yet on the path" % fname, noloop, m, e, "%s under not %s / %s" % (norm(e), neg, pos), "a chain can visit a lanelet twice: on a cyclic network the search need not terminate", qualname=qn)
            res.check("ROUTE-GUARD", "%s: extension never returns to the start lanelet" % fname, nostart, m, e, "%s under not %s / %s" % (norm(e), neg, pos), "chains run through the start lanelet again", qualname=qn)
            res.check("ROUTE-GUARD", "%s: extension only while the accumulated length is below the range" % fname, inrange, m, e, "%s under not %s / %s" % (norm(e), neg, pos), "chains are extended beyond the requested range", qualname=qn)
        # alignment of path and length lists
        apps = [s.value for s in ast.walk(il) if isinstance(s, ast.Expr) and isinstance(s.value, ast.Call) and isinstance(s.value.func, ast.Attribute) and s.value.func.attr == "append"]
        pa = [a for a in apps if norm(a.func.value) == pn]
        if paired:
            ok = len(pa) == 1 and len(pa[0].args) == 1 and isinstance(pa[0].args[0], ast.Tuple) and len(pa[0].args[0].elts) == 2
            la = pa
            lval = pa[0].args[0].elts[1] if ok else None
        else:
            la = [a for a in apps if norm(a.func.value) == ln]
            ok = len(pa) == len(la) == 1 and m.parent.get(m.parent.get(pa[0])) is m.parent.get(m.parent.get(la[0]))
            lval = la[0].args[0] if ok else None
        res.check("ROUTE-FLOW", "%s: next frontier and its lengths grow together" % fname, ok, m, il, "%d path appends, %d length appends" % (len(pa), len(la)), "paths and accumulated lengths get out of step", qualname=qn)
        if ok:
            t = canon(lval, rd, rd.stmt_of(la[0]), [net, rng])
            want = "%s + %s.find_lanelet_by_id(%s).distance[-1]" % (lv, net, xv)
            res.check("ROUTE-FLOW", "%s: accumulated length grows by the candidate's length" % fname, t == want, m, la[0], "next length %s" % t, "the accumulated length is not the sum of the lengths on the chain", qualname=qn)
            guards = dominating_guards(m, pa[0], stop=fn)
            pos = [canon(t_, rd, rd.stmt_of(pa[0]), [net, rng]) for t_, pol in guards if pol]
            ok = ("%s < %s" % (want, rng)) in pos or ("%s < %s" % (t, rng)) in pos
            res.check("ROUTE-FLOW", "%s: a chain stays in the frontier only while its length is below the range" % fname, ok, m, pa[0], "%s under %s" % (norm(pa[0]), pos), "chains that reached the range keep being extended", qualname=qn)
        # abstract signature for the sibling comparison: which guard facts protect each extension, how every control
        # path files, and which comparisons against the range are made (names and statement shapes abstracted away)
        ext_sig = []
        for e in exts:
            guards = dominating_guards(m, e, stop=fn)
            neg = [canon(t, None, None, [rng]) for t, pol in guards if not pol]
            pos = [canon(t, None, None, [rng]) for t, pol in guards if pol]
            ext_sig.append((("%s in %s" % (xv, pv)) in neg or ("%s not in %s" % (xv, pv)) in pos, ("%s == self.lanelet_id" % xv) in neg or ("self.lanelet_id == %s" % xv) in neg or ("%s != self.lanelet_id" % xv) in pos, ("%s >= %s" % (lv, rng)) in neg or ("%s < %s" % (lv, rng)) in pos or ("%s <= %s" % (rng, lv)) in neg))
        sigs[fname] = (m, fn, (sorted(ext_sig), sorted(counts)))
    if len(sigs) == 2:
        (m1, f1, s1), (m2, f2, s2) = sigs.values()
        res.check("ROUTE-SIBLING", "successor and predecessor searches have the same shape up to the link direction", s1 == s2, m2, f2, "abstract signatures %s vs %s" % (s1, s2), "one of the two searches deviates from the other (a guard, bound or filing differs)", qualname="Lanelet.find_lanelet_predecessors_in_range")


def run(repo, res, tier):
    res.rule("ARC-SIGN", "cumulative distance starts at 0, never decreases, sums Euclidean segment lengths", 4)
    res.rule("ARC-LERP", "interpolate_position interpolates all three polylines at one segment parameter", 9)
    res.rule("MERGE", "merge_lanelets concatenates corresponding polylines at one joint index", 9)
    res.rule("ROUTE-FLOW", "range searches, evaluated on small graphs: termination, loop-free chains of links from every direct neighbour, extension only below the range", 60)
    arc_sign(repo, res)
    arc_lerp(repo, res)
    # merge_lanelets: decided by evaluation (c20ev.merge_rule) over link cases x joint coincidence x argument order
    from . import c20ev

    c20ev.merge_rule(repo, res, "MERGE")
    # the two range searches: decided by evaluation on small graphs (c20ev.route_rules)
    c20ev.route_rules(repo, res, "ROUTE-FLOW")
    res.note("not decided: interpolation arithmetic as numbers, floating-point behaviour at vertices, lengths of merged lanelets as numbers")

"""C11 — derived data never goes stale under mutation (engine E-CACHE).

Caches are discovered from the source (functools.cached_property; `if not hasattr(self,"_x")` and
`if self._x is None` memo getters) or named in a small frozen table (eager caches assigned in
constructors / setters).  For every cache the dependency set is the set of `self` attributes its
compute code reads (transitively through same-class calls and trivial getters).

Obligation: in every mutator the property names (SCOPE), on every path from a statement that
writes a dependency (assignment / del / item store / mutating call on it or on its elements,
directly or through a callee) to an exit, a refresh of the cache follows (del / reset /
re-assignment / call of a method that always refreshes).  Decided by a may-dirty abstract walk
over the structured statements with per-(method, cache, constant bool flags) summaries.

CACHE-CURRENT: where a mutator refreshes an eager cache by assigning it anew, no value read from a dependency
*before* the mutator wrote that dependency (kept in a local) may flow into the assignment.
"""
import ast

from ..core import AnalysisError, Finding, attr_chain, call_name, norm, walk_no_nested, terminates
from ..effects import CONTAINER_MUTATORS, Effects, FnKey
from ..flowtools import memo_form

L = "commonroad/scenario/lanelet.py"
O = "commonroad/scenario/obstacle.py"
P = "commonroad/prediction/prediction.py"
T = "commonroad/scenario/traffic_light.py"

# Eager caches (assigned from other attributes in constructors/setters); confirmed by reading.
# (module, class, slot, deps, deep-element deps, reason)
EAGER = [
    (L, "Lanelet", "_polygon", {"_left_vertices", "_right_vertices"}, "polygon is built from right + reversed left boundary"),
    (O, "Obstacle", "_initial_occupancy_shape", {"_initial_state"}, "shape placed at the initial state (obstacle shape itself is immutable)"),
    (L, "LaneletNetwork", "_buffered_polygons", {"_lanelets"}, "lanelet id -> shapely polygon of that lanelet; mirrors _lanelets and each lanelet's polygon"),
    (L, "LaneletNetwork", "_strtee", {"_buffered_polygons"}, "STRtree over the buffered polygons"),
    (L, "LaneletNetwork", "_lanelet_id_index_by_id", {"_buffered_polygons"}, "id(polygon) -> lanelet id for the polygons in the tree"),
]

# Mutators the property statement names.  (module, class, method, kind)
SCOPE = [
    (O, "DynamicObstacle", "prediction", "set"),
    (O, "DynamicObstacle", "update_prediction", None),
    (O, "DynamicObstacle", "update_initial_state", None),
    (O, "Obstacle", "initial_state", "set"),
    (P, "TrajectoryPrediction", "trajectory", "set"),
    (P, "TrajectoryPrediction", "shape", "set"),
    (P, "TrajectoryPrediction", "wheelbase_lengths", "set"),
    (L, "LaneletNetwork", "add_lanelet", None),
    (L, "LaneletNetwork", "remove_lanelet", None),
    (L, "LaneletNetwork", "add_lanelets_from_network", None),
    (T, "TrafficLightCycle", "cycle_elements", "set"),
    (T, "TrafficLightCycle", "time_offset", "set"),
]  # plus every method named translate_rotate (added at run time)

# (class, method, slot): reason — dependency writes that provably keep the cache valid
INVARIANT = {
    ("Lanelet", "translate_rotate", "_distance"): "cumulative centre-line distance is invariant under a rigid motion (exactness of the motion is C05)",
    ("Lanelet", "translate_rotate", "_inner_distance"): "boundary arc lengths are invariant under a rigid motion (C05)",
}

HISTORY_PAIRS = {
    "history": "initial_state",
    "signal_history": "initial_signal_state",
    "center_lanelet_ids_history": "initial_center_lanelet_ids",
    "shape_lanelet_ids_history": "initial_shape_lanelet_ids",
}


class Cache:
    def __init__(self, cls, slot, kind, deps, why, prop=None):
        self.cls, self.slot, self.kind, self.deps, self.why = cls, slot, kind, set(deps), why
        self.prop = prop or slot  # the property through which the cached value is read

    @property
    def name(self):
        return "%s.%s" % (self.cls.name, self.slot)


def self_reads(repo, cls, fn, seen=None):
    """Private attributes of `self` read by fn, through same-class method calls and getters."""
    seen = seen if seen is not None else set()
    if id(fn) in seen:
        return set()
    seen.add(id(fn))
    out = set()
    for n in walk_no_nested(fn):
        if isinstance(n, ast.Attribute) and isinstance(n.value, ast.Name) and n.value.id == "self" and isinstance(n.ctx, ast.Load):
            a = n.attr
            _o, m = repo.find_method(cls, a)
            _p, prop = repo.find_prop(cls, a)
            if m is not None:
                out |= self_reads(repo, cls, m, seen)
            elif prop is not None and "get" in prop:
                out |= self_reads(repo, cls, prop["get"], seen)
            else:
                out.add(a)
    return out


def discover(repo):
    caches = []
    for m in repo.modules.values():
        if "/visualization/" in m.rel or "/reader/" in m.rel or "/writer/" in m.rel:
            continue
        for c in m.classes.values():
            for pname, p in c.props.items():
                g = p.get("get")
                if g is None:
                    continue
                if p.get("cached"):
                    caches.append(Cache(c, pname, "cached_property", self_reads(repo, c, g) - {pname}, "functools.cached_property"))
                    continue
                mf = memo_form(g)
                if mf is not None:
                    fake = ast.FunctionDef(name="_", args=g.args, body=mf["compute"], decorator_list=[], lineno=g.lineno)
                    deps = self_reads(repo, c, fake) - {mf["slot"]}
                    if deps:
                        caches.append(Cache(c, mf["slot"], "memo-getter", deps, "memoised in getter %s" % pname, prop=pname))
    return caches


class Walker:
    """may-dirty walk of one method for one cache."""

    def __init__(self, eng, cache, fk, flags):
        self.eng, self.cache, self.fk, self.flags = eng, cache, fk, dict(flags)
        self.exits = []  # (state, node)
        self.first_dirty = {}
        self.refreshed = False

    # state: frozenset of dirt tokens -> we track for each token the node that caused it
    def run(self):
        st = self.block(self.fk.fn.body, frozenset())
        if st is not None:
            self.exits.append((st, self.fk.fn))
        return self.exits

    def block(self, stmts, st):
        for s in stmts:
            if st is None:
                return None
            st = self.stmt(s, st)
        return st

    def const_test(self, test):
        """Evaluate `if flag:` / `if not flag:` for bool parameters bound to a constant."""
        neg = False
        while isinstance(test, ast.UnaryOp) and isinstance(test.op, ast.Not):
            neg = not neg
            test = test.operand
        if isinstance(test, ast.Name) and test.id in self.flags:
            v = self.flags[test.id]
            return (not v) if neg else v
        return None

    def stmt(self, s, st):
        if isinstance(s, ast.If):
            if self.eng.is_guarded_refresh(self.cache, s):
                return self.apply_refresh(st, "full")
            cv = self.const_test(s.test)
            st = self.exprs(s.test, st, s)
            if cv is True:
                return self.block(s.body, st)
            if cv is False:
                return self.block(s.orelse, st)
            a = self.block(s.body, st)
            b = self.block(s.orelse, st)
            if a is None:
                return b
            if b is None:
                return a
            return a | b
        if isinstance(s, (ast.For, ast.While)):
            if isinstance(s, ast.For):
                st = self.exprs(s.iter, st, s)
            cur = st
            if isinstance(s, ast.For) and self.at_least_once(s.iter):
                # the body runs at least once: the state after the loop is the state after one or more rounds
                cur = self.block(s.body, self.loop_entry(s, cur))
                if cur is None:
                    return None
            for _ in range(3):
                out = self.block(s.body, self.loop_entry(s, cur))
                nxt = cur | (out or frozenset())
                if nxt == cur:
                    break
                cur = nxt
            return self.block(s.orelse, cur) if s.orelse else cur
        if isinstance(s, ast.With):
            for it in s.items:
                st = self.exprs(it.context_expr, st, s)
            return self.block(s.body, st)
        if isinstance(s, ast.Try):
            a = self.block(s.body, st)
            outs = [a]
            for h in s.handlers:
                outs.append(self.block(h.body, st | (a or frozenset())))
            res = None
            for o in outs:
                if o is not None:
                    res = o if res is None else res | o
            if s.orelse and res is not None:
                res = self.block(s.orelse, res)
            if s.finalbody and res is not None:
                res = self.block(s.finalbody, res)
            return res
        if isinstance(s, ast.Return):
            if s.value is not None:
                st = self.exprs(s.value, st, s)
            self.exits.append((st, s))
            return None
        if isinstance(s, ast.Raise):
            return None  # an exception is not a completed mutation
        if isinstance(s, (ast.Continue, ast.Break)):
            return st  # conservative: state flows on
        if isinstance(s, (ast.FunctionDef, ast.AsyncFunctionDef, ast.ClassDef)):
            return st
        return self.simple(s, st)

    def loop_entry(self, s, st):
        return st

    def at_least_once(self, it):
        """the iterable is never empty: a non-empty literal, or a call of a generator function of the module (or of the
        class) whose first statement is an unconditional yield"""
        if isinstance(it, (ast.Tuple, ast.List)) and it.elts and not any(isinstance(x, ast.Starred) for x in it.elts):
            return True
        if not isinstance(it, ast.Call):
            return False
        g = None
        if isinstance(it.func, ast.Name):
            g = self.fk.mod.functions.get(it.func.id)
        elif isinstance(it.func, ast.Attribute) and isinstance(it.func.value, ast.Name) and it.func.value.id in ("self", "cls") and self.fk.cls is not None:
            g = self.eng.repo.find_method(self.fk.cls, it.func.attr)[1]
        if g is None:
            return False
        body = [x for x in g.body if not (isinstance(x, ast.Expr) and isinstance(x.value, ast.Constant))]
        return bool(body) and isinstance(body[0], ast.Expr) and isinstance(body[0].value, ast.Yield)

    # -- simple statements
    def simple(self, s, st):
        eng, cache = self.eng, self.cache
        # calls inside the statement first (evaluation order: value before store)
        value = getattr(s, "value", None)
        if value is not None:
            st = self.exprs(value, st, s)
        if isinstance(s, ast.Expr):
            c_ = s.value
            if isinstance(c_, ast.Call) and isinstance(c_.func, ast.Attribute) and c_.func.attr == "pop" and norm(c_.func.value) in ("self.__dict__", "vars(self)") and c_.args and isinstance(c_.args[0], ast.Constant) and c_.args[0].value == cache.slot:
                return self.apply_refresh(st, "full")  # self.__dict__.pop("<slot>", None): the memo is dropped
            return st
        targets = []
        if isinstance(s, ast.Assign):
            targets = s.targets
        elif isinstance(s, (ast.AugAssign, ast.AnnAssign)):
            targets = [s.target]
        elif isinstance(s, ast.Delete):
            targets = s.targets
        flat = []
        for t in targets:
            flat += t.elts if isinstance(t, (ast.Tuple, ast.List)) else [t]
        for t in flat:
            ch = attr_chain(t.value) if isinstance(t, ast.Subscript) else attr_chain(t)
            if not ch or ch[0] != "self" or len(ch) < 2:
                continue
            attr = ch[1]
            is_item = isinstance(t, ast.Subscript) or len(ch) > 2
            # property setter on self
            if not is_item and not isinstance(s, ast.Delete):
                sk = eng.eff.fnkey_setter(self.fk.cls, attr)
                if sk is not None:
                    st = self.call_self(sk, {}, st, s)
                    continue
            if attr == cache.slot:
                if is_item:
                    st = self.apply_refresh(st, "key:" + norm(t.slice) if isinstance(t, ast.Subscript) else "full")
                elif eng.is_self_derived(cache, s):
                    pass  # e.g. filtering the cache by itself: neither refresh nor dirt
                else:
                    st = self.apply_refresh(st, "full")
            if attr in cache.deps:
                tok = ("key:" + norm(t.slice)) if isinstance(t, ast.Subscript) and cache.kind == "mirror" else "full"
                st = self.apply_dirty(st, tok, s)
        return st

    def exprs(self, expr, st, stmt):
        """Effects of the calls inside an expression, in source order."""
        calls = [n for n in ast.walk(expr) if isinstance(n, ast.Call)]
        calls.sort(key=lambda n: (getattr(n, "end_lineno", 0), getattr(n, "end_col_offset", 0)))
        for c in calls:
            st = self.call(c, st, stmt)
        return st

    def call(self, c, st, stmt):
        eng, cache = self.eng, self.cache
        f = c.func
        cn = call_name(c)
        if cn in ("delattr", "setattr") and len(c.args) >= 2 and norm(c.args[0]) == "self" and isinstance(c.args[1], ast.Constant):
            if c.args[1].value == cache.slot:
                return self.apply_refresh(st, "full")
            if c.args[1].value in cache.deps:
                return self.apply_dirty(st, "full", stmt)
        if not isinstance(f, ast.Attribute):
            return st
        ch = attr_chain(f.value)
        # self.__dict__.pop("slot", ..)
        if ch == ["self", "__dict__"] and f.attr == "pop" and c.args and isinstance(c.args[0], ast.Constant) and c.args[0].value == cache.slot:
            return self.apply_refresh(st, "full")
        # self.m(...)
        if ch == ["self"]:
            k = eng.eff.fnkey_method(self.fk.cls, f.attr)
            if k is not None:
                flags = {}
                ps = [a.arg for a in k.fn.args.args][1:]
                for i, a in enumerate(c.args):
                    if i < len(ps) and isinstance(a, ast.Constant) and isinstance(a.value, bool):
                        flags[ps[i]] = a.value
                for kw in c.keywords:
                    if kw.arg and isinstance(kw.value, ast.Constant) and isinstance(kw.value.value, bool):
                        flags[kw.arg] = kw.value.value
                return self.call_self(k, flags, st, stmt)
            return st
        # calls on a dependency (or on the slot) or on elements of a dependency
        base_attr = None
        if ch and ch[0] == "self" and len(ch) >= 2:
            base_attr = ch[1]
        else:
            base_attr = eng.element_origin(self.fk, f.value)
        if base_attr is None:
            return st
        # resolve through trivial getters to the private attribute
        priv = eng.private_of(self.fk.cls, base_attr)
        if priv == cache.slot and f.attr in CONTAINER_MUTATORS:
            return st  # in-place edit of the cache itself is not a recomputation from the dependencies
        if priv in cache.deps:
            if f.attr in CONTAINER_MUTATORS and eng.is_container_call(self.fk, c):
                return self.apply_dirty(st, "full", stmt)
            if eng.call_mutates_receiver(self.fk, c):
                return self.apply_dirty(st, "full", stmt)
        return st

    def call_self(self, k, flags, st, stmt):
        summ = self.eng.summary(self.cache, k, flags)
        if summ == "REFRESH":
            return self.apply_refresh(st, "full")
        if summ == "DIRTY":
            return self.apply_dirty(st, "full", stmt)
        return st

    def apply_dirty(self, st, tok, node):
        self.first_dirty.setdefault(tok, node)
        return st | {tok}

    def apply_refresh(self, st, tok):
        self.refreshed = True
        if tok == "full":
            return frozenset()
        return frozenset(x for x in st if x != tok)


class Engine:
    def __init__(self, repo, res):
        self.repo, self.res = repo, res
        self.eff = Effects(repo)
        self._summ = {}
        self._stack = set()

    def private_of(self, cls, name):
        _c, p = self.repo.find_prop(cls, name)
        if p is not None and "get" in p:
            body = [s for s in p["get"].body if not (isinstance(s, ast.Expr) and isinstance(s.value, ast.Constant))]
            if len(body) == 1 and isinstance(body[0], ast.Return):
                ch = attr_chain(body[0].value) if body[0].value is not None else None
                if ch and len(ch) == 2 and ch[0] == "self":
                    return ch[1]
        return name

    def element_origin(self, fk, expr):
        """If expr is a local bound (loop variable / assignment) to an element of self.<attr>, return attr."""
        if not isinstance(expr, ast.Name):
            ch = attr_chain(expr)
            return ch[1] if ch and ch[0] == "self" and len(ch) >= 2 else None
        rd = self.eff.prov(fk).rd
        for d in rd.defs(expr.id, expr):
            if d.node is None:
                continue
            for n in ast.walk(d.node):
                ch = attr_chain(n) if isinstance(n, ast.Attribute) else None
                if ch and ch[0] == "self" and len(ch) >= 2:
                    return ch[1]
        return None

    def is_container_call(self, fk, call):
        cands, mode, _r = self.eff.resolve_call(fk, call)
        return mode in ("byname", "typed-none", "unknown") or not cands

    def call_mutates_receiver(self, fk, call):
        cands, mode, recv = self.eff.resolve_call(fk, call)
        if not cands or mode == "ctor":
            return False
        verdicts = []
        for k in cands:
            sname = k.fn.args.args[0].arg if k.fn.args.args else None
            verdicts.append(bool(sname and self.eff.mutates_param(k, sname)))
        if mode == "byname":
            return all(verdicts)
        return any(verdicts)

    def is_guarded_refresh(self, cache, ifnode):
        """`if <presence test of slot>: del self.slot` (the memo-invalidation idiom)."""
        t = norm(ifnode.test)
        # every conjunct of the test must be a presence test of the slot: a further condition (`changed and hasattr(..)`)
        # makes the invalidation depend on something else, so it is not a refresh on every path
        conj = ifnode.test.values if isinstance(ifnode.test, ast.BoolOp) and isinstance(ifnode.test.op, ast.And) else [ifnode.test]
        only_presence = all(('"%s"' % cache.slot in norm(c) or "'%s'" % cache.slot in norm(c) or "self.%s" % cache.slot in norm(c)) for c in conj)
        if only_presence and ('"%s"' % cache.slot in t or "'%s'" % cache.slot in t or "self.%s" % cache.slot in t) and not ifnode.orelse:
            for s in ifnode.body:
                if isinstance(s, ast.Delete) and any(norm(x) == "self." + cache.slot for x in s.targets):
                    return True
                if isinstance(s, ast.Expr) and isinstance(s.value, ast.Call) and call_name(s.value) in ("delattr",) and norm(s.value.args[0]) == "self":
                    return True
        return False

    def is_self_derived(self, cache, stmt):
        """self.slot = <expression reading only self.slot among self attributes>"""
        v = getattr(stmt, "value", None)
        if v is None:
            return False
        reads = {ch[1] for n in ast.walk(v) if isinstance(n, ast.Attribute) for ch in [attr_chain(n)] if ch and ch[0] == "self" and len(ch) >= 2}
        return bool(reads) and reads <= {cache.slot}

    def default_flags(self, fk):
        out = {}
        a = fk.fn.args
        pos = a.args
        for arg, d in zip(pos[len(pos) - len(a.defaults):], a.defaults):
            if isinstance(d, ast.Constant) and isinstance(d.value, bool):
                out[arg.arg] = d.value
        for arg, d in zip(a.kwonlyargs, a.kw_defaults):
            if d is not None and isinstance(d, ast.Constant) and isinstance(d.value, bool):
                out[arg.arg] = d.value
        return out

    def summary(self, cache, fk, flags=None):
        """CLEAN | REFRESH | DIRTY for method fk w.r.t. cache, with bool parameters bound by `flags`
        (unbound bool parameters take their defaults)."""
        fl = self.default_flags(fk)
        fl.update(flags or {})
        key = (cache.name, fk, tuple(sorted(fl.items())))
        if key in self._summ:
            return self._summ[key][0]
        if key in self._stack:
            return "CLEAN"
        self._stack.add(key)
        w = Walker(self, cache, fk, fl)
        exits = w.run()
        self._stack.discard(key)
        dirty_exits = [(st, n) for st, n in exits if st]
        touched = bool(w.first_dirty)
        refreshed = self._has_refresh(cache, fk) or w.refreshed
        if dirty_exits:
            verdict = "DIRTY"
        elif touched or refreshed:
            verdict = "REFRESH"
        else:
            verdict = "CLEAN"
        self._summ[key] = (verdict, w, dirty_exits)
        return verdict

    def detail(self, cache, fk, flags=None):
        fl = self.default_flags(fk)
        fl.update(flags or {})
        self.summary(cache, fk, flags)
        return self._summ[(cache.name, fk, tuple(sorted(fl.items())))]

    def _has_refresh(self, cache, fk):
        for n in walk_no_nested(fk.fn):
            if isinstance(n, ast.Delete) and any(norm(x) == "self." + cache.slot for x in n.targets):
                return True
            if isinstance(n, ast.Call) and isinstance(n.func, ast.Attribute) and n.func.attr == "pop" and norm(n.func.value) in ("self.__dict__", "vars(self)") and n.args and isinstance(n.args[0], ast.Constant) and n.args[0].value == cache.slot:
                return True
            if isinstance(n, (ast.Assign, ast.AnnAssign)):
                tg = n.targets if isinstance(n, ast.Assign) else [n.target]
                if any(norm(x) == "self." + cache.slot for x in tg) and not self.is_self_derived(cache, n):
                    return True
        return False


def setup(repo, res):
    """(engine, caches, scope, scope_ids) — shared with C04 / C05 / C17, which claim the freshness of the caches
    their own property reads"""
    eng = Engine(repo, res)
    caches = discover(repo)
    for rel, cn, slot, deps, why in EAGER:
        cls = repo.cls(rel, cn)
        # anchor: the slot must still be assigned somewhere in the class
        assigned = any(isinstance(n, ast.Attribute) and n.attr == slot and isinstance(n.ctx, ast.Store) for n in ast.walk(cls.node))
        if not assigned:
            raise AnalysisError("eager cache %s.%s is no longer assigned anywhere in its class" % (cn, slot))
        c = Cache(cls, slot, "eager", deps, why)
        if slot == "_buffered_polygons":
            c.kind = "mirror"
        caches.append(c)
    # known caches, by the property their value is read through (the backing slot may be spelled any way)
    expected = {"TrajectoryPrediction.occupancy_set", "TrafficLightCycle.cycle_init_timesteps", "Lanelet.distance", "Lanelet.inner_distance", "Rectangle.vertices"}
    have = {"%s.%s" % (c.cls.name, c.prop.lstrip("_")) for c in caches} | {"%s.%s" % (c.cls.name, c.slot.lstrip("_")) for c in caches}
    if not expected <= have:
        raise AnalysisError("cache discovery lost known caches: %s" % sorted(expected - have))
    scope = []
    for rel, cn, mn, kind in SCOPE:
        cls = repo.cls(rel, cn)
        fk = eng.eff.fnkey_setter(cls, mn) if kind == "set" else eng.eff.fnkey_method(cls, mn)
        if fk is None:
            raise AnalysisError("scope anchor missing: %s.%s" % (cn, mn))
        scope.append((cls, fk))
    for m in repo.modules.values():
        if "/visualization/" in m.rel:
            continue
        for c in m.classes.values():
            if "translate_rotate" in c.methods:
                scope.append((c, FnKey(c, c.methods["translate_rotate"], m)))
    if sum(1 for _c, fk in scope if fk.fn.name == "translate_rotate") < 20:
        raise AnalysisError("fewer than 20 translate_rotate methods found")
    return eng, caches, scope, {id(fk.fn) for _c, fk in scope}


def verdicts(repo, res, want_cache=None, want_fn=None):
    """[(cache, class, function key, verdict, finding or None)] for every (cache, in-scope mutator) pair selected"""
    eng, caches, scope, _ids = setup(repo, res)
    out = []
    for cache in caches:
        if want_cache is not None and not want_cache(cache):
            continue
        users = repo.subclasses(cache.cls)
        for cls, fk in scope:
            if cls not in users or (want_fn is not None and not want_fn(fk)):
                continue
            if (cache.cls.name, fk.fn.name, cache.slot) in INVARIANT:
                continue
            verdict, w, dirty_exits = eng.detail(cache, FnKey(cls, fk.fn, fk.mod, fk.kind))
            f = None
            if verdict == "DIRTY":
                tok = sorted(dirty_exits[0][0])[0]
                node = w.first_dirty.get(tok) or fk.fn
                f = (fk.mod, node, "%s writes a dependency of %s (%s) without refreshing it" % (fk.name, cache.name, norm(node)[:80] if not isinstance(node, ast.FunctionDef) else fk.name))
            out.append((cache, cls, fk, verdict, f))
    return out


def run(repo, res, tier):
    res.rule("CACHE-DISCOVERY", "memo fields discovered (cached_property / hasattr-memo / is-None-memo) plus the frozen eager table", 8)
    res.rule("CACHE-FRESH", "in-scope mutator: after every write of a dependency a refresh follows on every path to an exit", 25)
    res.rule("HISTORY", "update_initial_state appends all history lists before replacing the initial values and truncates all with the same slice under one guard", 10)
    eng, caches, scope, scope_ids = setup(repo, res)
    for c in caches:
        res.ok("CACHE-DISCOVERY", "%s (%s) deps=%s" % (c.name, c.kind, sorted(c.deps)))

    for cache in caches:
        users = repo.subclasses(cache.cls)
        for cls, fk in scope:
            if cls not in users:
                continue
            # method must belong to (a subclass of) the cache's class
            inst = "%s under %s" % (cache.name, fk.name)
            if (cache.cls.name, fk.fn.name, cache.slot) in INVARIANT:
                res.note("CACHE-FRESH accepted %s: %s" % (inst, INVARIANT[(cache.cls.name, fk.fn.name, cache.slot)]))
                continue
            # analyse with the class the method is called on
            verdict, w, dirty_exits = eng.detail(cache, FnKey(cls, fk.fn, fk.mod, fk.kind))
            if verdict == "DIRTY":
                tok = sorted(dirty_exits[0][0])[0]
                node = w.first_dirty.get(tok) or fk.fn
                res.bad(
                    "CACHE-FRESH",
                    inst,
                    Finding(
                        "CACHE-FRESH",
                        fk.mod,
                        node,
                        "%s writes a dependency of %s (%s) without refreshing it" % (fk.name, cache.name, norm(node)[:80] if not isinstance(node, ast.FunctionDef) else fk.name),
                        "after this mutator the cached %s (deps %s) is stale: queries answer from the old data" % (cache.name, sorted(cache.deps)),
                        qualname=fk.name,
                    ),
                )
            else:
                res.ok("CACHE-FRESH", "%s: %s" % (inst, verdict))
        # out-of-scope writers: evidence notes only
        for u in [cache.cls]:
            for mn, fn in list(u.methods.items()) + [(pn + "[set]", p["set"]) for pn, p in u.props.items() if "set" in p]:
                if id(fn) in scope_ids or mn.startswith("__"):
                    continue
                k = FnKey(u, fn, u.mod, "set" if mn.endswith("[set]") else "method")
                if eng.summary(cache, k) == "DIRTY":
                    res.note("out of scope (not a mutator the property names): %s.%s leaves %s stale" % (u.name, mn, cache.name))

    _current(repo, res, caches, scope)
    # removing lanelets through the scenario (single, list, with lanelets it does not hold): evaluated on a small
    # network, the index invariant of C06 afterwards
    from .c06ev import scenario_remove_rule

    scenario_remove_rule(repo, res, "CACHE-FRESH")
    _history(repo, res)
    return {"caches": [{"cache": c.name, "kind": c.kind, "deps": sorted(c.deps), "why": c.why} for c in caches], "unresolved_calls": eng.eff.unresolved[:50]}


def _current(repo, res, caches, scope):
    """CACHE-CURRENT: where a mutator refreshes a cache by assigning it anew, the new value is computed from what the
    dependencies hold *then*: no value read from a dependency before the mutator wrote that dependency (kept in a
    local) may flow into the assignment.  Reads are followed through the reaching definitions of locals; positions are
    compared in statement order of the body (pre-order), not by line."""
    from ..dataflow import ReachingDefs

    res.rule("CACHE-CURRENT", "a cache re-assigned by a mutator is computed from the dependencies as they are after the mutation", 3)
    for cache in caches:
        if cache.kind not in ("eager", "mirror"):
            continue
        users = repo.subclasses(cache.cls)
        for cls, fk in scope:
            if cls not in users:
                continue
            fn = fk.fn
            me = fn.args.args[0].arg if fn.args.args else "self"
            order = {}
            stmts = []

            def rec(body):
                for st in body:
                    order[id(st)] = len(stmts)
                    stmts.append(st)
                    for fld in ("body", "orelse", "finalbody", "handlers"):
                        sub = getattr(st, fld, None)
                        if isinstance(sub, list):
                            rec([x for x in sub if isinstance(x, ast.stmt)] + [y for x in sub if isinstance(x, ast.ExceptHandler) for y in x.body])

            rec(fn.body)
            refreshes = [st for st in stmts if isinstance(st, (ast.Assign, ast.AnnAssign)) and any(isinstance(t, ast.Attribute) and isinstance(t.value, ast.Name) and t.value.id == me and t.attr == cache.slot for t in (st.targets if isinstance(st, ast.Assign) else [st.target])) and getattr(st, "value", None) is not None]
            if not refreshes:
                continue
            rd = ReachingDefs(fn)
            dep_names = set(cache.deps) | {d.lstrip("_") for d in cache.deps}
            writes = {}
            for st in stmts:
                tg = st.targets if isinstance(st, ast.Assign) else [st.target] if isinstance(st, (ast.AnnAssign, ast.AugAssign)) else []
                for t in tg:
                    for x in ast.walk(t):
                        if isinstance(x, ast.Attribute) and isinstance(x.ctx, ast.Store) and isinstance(x.value, ast.Name) and x.value.id == me and x.attr in dep_names:
                            writes.setdefault(x.attr.lstrip("_"), []).append(st)

            def stmt_of(node):
                try:
                    return rd.stmt_of(node)
                except Exception:
                    return None

            for A in refreshes:
                stale = []
                seen = set()
                work = [(A.value, A)]
                while work:
                    e, at = work.pop()
                    for x in ast.walk(e):
                        if isinstance(x, ast.Attribute) and isinstance(x.value, ast.Name) and x.value.id == me and x.attr in dep_names and isinstance(x.ctx, ast.Load):
                            for W in writes.get(x.attr.lstrip("_"), []):
                                if order.get(id(at), -1) < order[id(W)] < order[id(A)]:
                                    stale.append((x, at, W))
                        elif isinstance(x, ast.Name) and isinstance(x.ctx, ast.Load) and x.id != me:
                            for d in rd.defs(x.id, at):
                                if d.node is not None and d.stmt is not None and id(d.stmt) not in seen and id(d.stmt) in order:
                                    seen.add(id(d.stmt))
                                    work.append((d.node, d.stmt))
                inst = "%s: %s assigned from current data" % (fk.name, cache.name)
                if stale:
                    x, at, W = stale[0]
                    res.bad("CACHE-CURRENT", inst, Finding("CACHE-CURRENT", fk.mod, A, "%s rebuilds %s from %s as read before `%s`" % (fk.name, cache.name, norm(x), norm(W)[:60]), "the refreshed %s is computed from the value the dependency had before this mutator changed it: queries answer from the old data" % cache.name, qualname=fk.name))
                else:
                    res.ok("CACHE-CURRENT", inst)


def _history(repo, res):
    cls = repo.cls(O, "DynamicObstacle")
    fn = repo.method(O, "DynamicObstacle", "update_initial_state")
    mod = cls.mod
    appends, truncs, assigns = {}, {}, {}
    order = []
    for n in walk_no_nested(fn):
        if isinstance(n, ast.Call) and isinstance(n.func, ast.Attribute) and n.func.attr == "append":
            ch = attr_chain(n.func.value)
            if ch and ch[0] == "self" and len(ch) == 2 and ch[1].endswith("history") and len(n.args) == 1:
                appends[ch[1]] = n
        if isinstance(n, ast.Assign) and len(n.targets) == 1:
            ch = attr_chain(n.targets[0])
            if ch and ch[0] == "self" and len(ch) == 2:
                if ch[1].endswith("history") and isinstance(n.value, ast.Subscript):
                    truncs[ch[1]] = n
                else:
                    assigns[ch[1]] = n
    hist_attrs = set(HISTORY_PAIRS)
    ctor_hist = {a for a in [x.arg for x in cls.methods["__init__"].args.args] if a.endswith("history")}
    if ctor_hist != hist_attrs:
        raise AnalysisError("history attributes of DynamicObstacle changed: %s" % sorted(ctor_hist))
    for h, init_attr in HISTORY_PAIRS.items():
        inst = "update_initial_state: %s" % h
        a = appends.get(h)
        ok = a is not None and norm(a.args[0]) == "self." + init_attr
        res.check("HISTORY", inst + " appended from " + init_attr, ok, mod, a or fn, "append to self.%s" % h, "history list must receive the current self.%s" % init_attr, qualname="DynamicObstacle.update_initial_state")
        s = assigns.get(init_attr)
        ok = a is not None and s is not None and (a.lineno, a.col_offset) < (s.lineno, s.col_offset)
        res.check("HISTORY", inst + " appended before replacement", ok, mod, s or fn, "self.%s replaced" % init_attr, "the previous value must be appended to the history before self.%s is overwritten" % init_attr, qualname="DynamicObstacle.update_initial_state")
        t = truncs.get(h)
        ok = False
        if t is not None:
            sl = t.value.slice
            ok = (
                norm(t.value.value) == "self." + h
                and isinstance(sl, ast.Slice)
                and sl.upper is None
                and sl.step is None
                and sl.lower is not None
                and norm(sl.lower) == "-max_history_length"
            )
        res.check("HISTORY", inst + " truncated to the most recent max_history_length", ok, mod, t or fn, "truncate self.%s" % h, "history must keep exactly the most recent max_history_length entries ([-max_history_length:])", qualname="DynamicObstacle.update_initial_state")
    # one guard for all truncations
    parents = {id(mod.parent.get(t)) for t in truncs.values()}
    guard = mod.parent.get(next(iter(truncs.values()))) if truncs else None
    ok = len(parents) == 1 and isinstance(guard, ast.If) and norm(guard.test) in ["len(self.%s) > max_history_length" % h for h in HISTORY_PAIRS]
    res.check("HISTORY", "update_initial_state: all truncations under one `len(history) > max_history_length` guard", ok, mod, guard or fn, "history truncation guard", "history lists must be truncated together so that they keep equal length", qualname="DynamicObstacle.update_initial_state")

"""C01 — XML write->read reproduces scenario and planning problems (structural clauses; E-TRIANGLE).

Writer tree with value sources (sa/xmlw.py, sa/xmlflow.py), reader lookups with provenance into
constructor keywords (sa/xmlr.py) and the parsed XSD are compared:

  RT-READ     everything the writer emits (element / attribute / text) is looked up by the reader,
              as the same kind, at the same place
  RT-WRITTEN  everything the reader looks up and the schema allows at that place is emitted by the writer
  RT-FLOW     per builder/factory pair: the value the reader feeds into constructor keyword k comes
              from leaves the writer fills from the attribute k denotes (no crossed fields)
  RT-NAMEMAP  the attribute-name maps of writer and reader are identical / mutually inverse on all
              state fields and schema element names
  RT-ENUM     text->enum chains of the reader are exhaustive and map each text to the member with that
              value; boolean and direction encodings agree; schema enumeration values are enum values
  RT-TIME     every call of StateXMLNode.create_state_node writes the state with that state's own time step
  RT-ORDER    ordered collections are iterated in stored order when written and accumulated in document
              order into lists when read; point coordinates x,y come from / go to indices 0,1
  RT-GUARD    whether a value is written depends on that value only: every condition an emission stands under reads
              (an attribute on the path to) the attribute being written, not a sibling attribute of the object
  RT-TRUTH    the reader tests presence of an element with `is None`, never by its truth value (an element without
              children is false); elements that always have a child by the XSD are exempt
  RT-STATE    no mutable default argument of a reader / writer function is changed or handed out
"""
import ast

from ..core import AnalysisError, Finding, attr_chain, call_name, dominating_guards, norm, walk_no_nested
from ..classfacts import ctor_model
from ..xmlflow import Flow
from ..xmlr import RX, ReaderModel
from ..xmlmap import NameMap
from ..dataflow import ReachingDefs
from . import c03

# builder (class, method) / factory (class, method) / constructed domain class / reason for the pairing
PAIRS = [
    (("LaneletXMLNode", "create_node"), ("LaneletFactory", "create_from_xml_node"), "Lanelet"),
    (("LaneletStopLineXMLNode", "create_node"), ("LaneletFactory", "_stop_line"), "StopLine"),
    (("LocationXMLNode", "create_node"), ("LocationFactory", "create_from_xml_node"), "Location"),
    (("GeoTransformationXMLNode", "create_node"), ("GeoTransformationFactory", "create_from_xml_node"), "GeoTransformation"),
    (("EnvironmentXMLNode", "create_node"), ("EnvironmentFactory", "create_from_xml_node"), "Environment"),
    (("TrafficSignXMLNode", "create_node"), ("TrafficSignFactory", "create_from_xml_node"), "TrafficSign"),
    (("TrafficLightXMLNode", "create_node"), ("TrafficLightFactory", "create_from_xml_node"), "TrafficLight"),
    (("TrafficLightCycleElementXMLNode", "create_node"), ("TrafficLightCycleFactory", "create_from_xml_node"), "TrafficLightCycleElement"),
    (("IntersectionXMLNode", "create_node"), ("IntersectionFactory", "create_from_xml_node"), "Intersection"),
    (("StaticObstacleXMLNode", "create_node"), ("StaticObstacleFactory", "create_from_xml_node"), "StaticObstacle"),
    (("DynamicObstacleXMLNode", "create_node"), ("DynamicObstacleFactory", "create_from_xml_node"), "DynamicObstacle"),
    (("EnvironmentObstacleXMLNode", "create_node"), ("EnvironmentObstacleFactory", "create_from_xml_node"), "EnvironmentObstacle"),
    (("PhantomObstacleXMLNode", "create_node"), ("PhantomObstacleFactory", "create_from_xml_node"), "PhantomObstacle"),
    (("OccupancyXMLNode", "create_node"), ("OccupancyFactory", "create_from_xml_node"), "Occupancy"),
    (("RectangleXMLNode", "create_rectangle_node"), ("RectangleFactory", "create_from_xml_node"), "Rectangle"),
    (("CircleXMLNode", "create_circle_node"), ("CircleFactory", "create_from_xml_node"), "Circle"),
    (("PlanningProblemXMLNode", "create_node"), ("PlanningProblemFactory", "create_from_xml_node"), "PlanningProblem"),
    (("SignalStateXMLNode", "create_signal_state_node"), ("SignalStateFactory", "create_from_xml_node"), "SignalState"),
    (("TrafficLightCycleXMLNode", "create_node"), ("TrafficLightFactory", "create_from_xml_node"), "TrafficLightCycle"),
    (("IntersectionXMLNode", "create_node"), ("IntersectionIncomingFactory", "create_from_xml_node"), "IntersectionIncomingElement", ("incoming",)),
    (("TrafficSignXMLNode", "create_node"), ("TrafficSignElementFactory", "create_from_xml_node"), "TrafficSignElement", ("trafficSignElement",)),
]

# (domain class, constructor keyword): reason — values the reader does not take from the file
FLOW_EXCEPTIONS = {
    ("Lanelet", "center_vertices"): "not in the schema; recomputed as the mean of the boundaries",
    ("TrafficSign", "first_occurrence"): "not in the schema; recomputed from the lanelets",
    ("TrafficLight", "color"): "derived from the cycle elements",
    ("StopLine", "start"): "falls back to the lanelet end points when the stop line has no points",
    ("StopLine", "end"): "falls back to the lanelet end points when the stop line has no points",
    ("StaticObstacle", "initial_shape_lanelet_ids"): "computed by the optional lanelet assignment, not file content (C07)",
    ("StaticObstacle", "initial_center_lanelet_ids"): "computed by the optional lanelet assignment (C07)",
    ("DynamicObstacle", "initial_shape_lanelet_ids"): "computed by the optional lanelet assignment (C07)",
    ("DynamicObstacle", "initial_center_lanelet_ids"): "computed by the optional lanelet assignment (C07)",
}
# element names the writer emits that the reader legitimately does not look up by name
READ_EXCEPTIONS = {}
# names the reader looks up for older file versions
LEGACY = {"obstacle", "role", "speedLimit", "wheelbase", "tags"}


def seg_match(rseg, wseg):
    return rseg == "*" or rseg == wseg or (isinstance(rseg, tuple) and rseg[0] == "dyn")


def path_match(rpath, wpath):
    return len(rpath) == len(wpath) and all(seg_match(r, w) for r, w in zip(rpath, wpath))


def precision_rule(repo, res):
    """RT-PREC: closeness 10^-d needs every textual form returned by float_to_str to carry the configured number of
    fractional digits: fixed-point formatting must take its digit count from precision.decimals (a constant count, or
    the default 6 of format(x, 'f'), is too coarse for larger d), and digit strings may only be cut at precision.decimals."""
    from ..dataflow import ReachingDefs
    from ..core import canon

    mod = repo.mod("commonroad/common/writer/file_writer_xml.py")
    fn = mod.functions.get("float_to_str")
    if fn is None:
        raise AnalysisError("float_to_str missing")
    rd = ReachingDefs(fn)
    qn = "float_to_str"
    n = 0

    def from_precision(e, at):
        t = canon(e, rd, at, [])
        return "precision.decimals" in t

    for c in ast.walk(fn):
        if isinstance(c, ast.Call) and call_name(c) == "format" and len(c.args) == 2:
            n += 1
            spec = c.args[1]
            res.check("RT-PREC", "format(value, spec): the digit count of spec comes from precision.decimals", from_precision(spec, rd.stmt_of(c)), mod, c, norm(c), "a fixed number of fractional digits (6 for a bare 'f') is kept whatever the configured precision: values differ by more than 10^-d after reading back for larger d", qualname=qn)
        elif isinstance(c, ast.Call) and isinstance(c.func, ast.Attribute) and c.func.attr == "format" and isinstance(c.func.value, ast.Constant) and isinstance(c.func.value.value, str) and "f}" in c.func.value.value.replace(" ", ""):
            n += 1
            ok = any(from_precision(a, rd.stmt_of(c)) for a in c.args) or "precision" in c.func.value.value
            res.check("RT-PREC", "'{:.Nf}'.format(value): N comes from precision.decimals", ok, mod, c, norm(c), "a fixed number of fractional digits is kept whatever the configured precision", qualname=qn)
        elif isinstance(c, ast.JoinedStr):
            for v in c.values:
                if isinstance(v, ast.FormattedValue) and v.format_spec is not None:
                    n += 1
                    res.check("RT-PREC", "f-string format spec takes its digit count from precision.decimals", from_precision(v.format_spec, rd.stmt_of(c)), mod, c, norm(c), "a fixed number of fractional digits is kept whatever the configured precision", qualname=qn)
        elif isinstance(c, ast.Call) and call_name(c) in ("np.format_float_positional", "numpy.format_float_positional"):
            n += 2
            pk = [k.value for k in c.keywords if k.arg == "precision"]
            ok = (len(pk) == 1 and from_precision(pk[0], rd.stmt_of(c))) or (not pk and len(c.args) == 1)
            res.check("RT-PREC", "format_float_positional keeps precision.decimals digits (or all)", ok, mod, c, norm(c), "a fixed number of fractional digits is kept whatever the configured precision", qualname=qn)
        elif isinstance(c, ast.Call) and call_name(c) in ("round", "np.round", "np.around") and len(c.args) >= 1:
            n += 1
            ok = len(c.args) == 2 and from_precision(c.args[1], rd.stmt_of(c))
            res.check("RT-PREC", "rounding uses precision.decimals", ok, mod, c, norm(c), "the value is rounded to a fixed number of digits whatever the configured precision", qualname=qn)
        elif isinstance(c, ast.Subscript) and isinstance(c.slice, ast.Slice) and c.slice.lower is None and c.slice.upper is not None:
            n += 1
            t = canon(c.slice.upper, rd, rd.stmt_of(c), [])
            res.check("RT-PREC", "fractional digits are cut exactly at precision.decimals", t == "precision.decimals", mod, c, norm(c), "fewer (or a fixed number of) fractional digits than configured are kept", qualname=qn)
    if n < 2:
        raise AnalysisError("float_to_str: only %d formatting constructs recognised (2 confirmed by hand)" % n)


def state_time_rule(repo, res, RULE="RT-TIME"):
    """StateXMLNode.create_state_node(state, node, time_step) is handed the time step separately from the state: at
    every call the time step written must be the state's own (`<state>.time_step`, through locals) — anything else
    (a counter, an offset from the first state) writes a time the state does not have."""
    from ..core import canon

    wmod = repo.mod("commonroad/common/writer/file_writer_xml.py")
    owner = wmod.classes.get("StateXMLNode")
    target = owner.methods.get("create_state_node") if owner is not None else None
    if target is None:
        raise AnalysisError("StateXMLNode.create_state_node missing")
    params = [a.arg for a in target.args.args][1:]
    if "time_step" not in params:
        res.ok(RULE, "create_state_node takes the time step from the state itself (no separate parameter)")
        return
    i_state, i_time = 0, params.index("time_step")
    for fdef in [x for x in ast.walk(wmod.tree) if isinstance(x, ast.FunctionDef)]:
        rd = None
        for c in walk_no_nested(fdef):
            if not (isinstance(c, ast.Call) and isinstance(c.func, ast.Attribute) and c.func.attr == "create_state_node"):
                continue
            args = dict(zip(params, c.args))
            for k in c.keywords:
                if k.arg:
                    args[k.arg] = k.value
            if params[i_state] not in args or "time_step" not in args:
                raise AnalysisError("call of create_state_node at line %d without state / time step" % c.lineno)
            rd = rd or ReachingDefs(fdef)
            ps = [a.arg for a in fdef.args.args]
            st_txt = canon(args[params[i_state]], rd, rd.stmt_of(c), ps)
            t_txt = canon(args["time_step"], rd, rd.stmt_of(c), ps)
            qn = wmod.qualname(fdef)
            res.check(RULE, "%s: create_state_node(%s, .., time_step=%s)" % (qn, st_txt, t_txt), t_txt == st_txt + ".time_step", wmod, c, "%s: state %s written with time %s" % (qn, st_txt, t_txt), "the time written for a state is not the state's own time step: a trajectory whose states are not consecutive (or an initial state at another time) reads back at other times", qualname=qn)


def value_kind_rule(repo, res, RULE="RT-KIND"):
    """create_exact_node_* hand out an <exact> element and create_interval_node_* the pair <intervalStart> /
    <intervalEnd> on every path: which of the two a value is written as is decided by the kind of the value, never by
    its numbers (an interval whose bounds print alike is still an interval — the reader builds the kind it finds)."""
    wmod = repo.mod("commonroad/common/writer/file_writer_xml.py")
    want = {"create_exact_node_float": {"exact"}, "create_exact_node_int": {"exact"}, "create_interval_node_float": {"intervalStart", "intervalEnd"}, "create_interval_node_int": {"intervalStart", "intervalEnd"}}
    for name, tags in want.items():
        fn = wmod.functions.get(name)
        if fn is None:
            raise AnalysisError("writer helper %s missing" % name)
        seen, other = set(), []
        for c in ast.walk(fn):
            if isinstance(c, ast.Call) and isinstance(c.func, ast.Attribute) and c.func.attr in ("Element", "SubElement") and c.args:
                t = c.args[0] if c.func.attr == "Element" else (c.args[1] if len(c.args) > 1 else None)
                if isinstance(t, ast.Constant) and isinstance(t.value, str):
                    seen.add(t.value)
            if isinstance(c, ast.Call) and isinstance(c.func, ast.Name) and c.func.id in want and c.func.id != name and want[c.func.id] != tags:
                other.append(c)
        bad = sorted(seen - tags)
        node = other[0] if other else fn
        res.check(RULE, "%s only builds %s" % (name, sorted(tags)), not bad and not other, wmod, node, "%s also builds %s" % (name, bad or [norm(o.func) for o in other]), "a value of one kind is written as the other kind for some numbers (an interval as an exact value or the reverse): it reads back as a different kind of value", qualname=name)


def loop_variable_rule(repo, res, RULE, rel=None):
    """every loop of the XML reader over elements found in the document (`findall`, `iter`, children) reads its loop
    variable: a body that looks the element up again on the parent (`parent.find(tag)`) reads the *first* such element
    once per round, so all but the first are lost (shared with C08: a goal given by several lanelets)."""
    rmod = repo.mod(rel or "commonroad/common/reader/file_reader_xml.py")
    n = 0
    for fdef in [x for x in ast.walk(rmod.tree) if isinstance(x, ast.FunctionDef)]:
        loops = [x for x in walk_no_nested(fdef) if isinstance(x, (ast.For, ast.ListComp, ast.SetComp, ast.GeneratorExp, ast.DictComp))]
        for lp in loops:
            gens = [(lp.target, lp.iter, lp.body)] if isinstance(lp, ast.For) else [(g.target, g.iter, [lp]) for g in lp.generators]
            for tgt, it, body in gens:
                if not any(isinstance(c, ast.Call) and isinstance(c.func, ast.Attribute) and c.func.attr in ("findall", "iter", "iterchildren", "iterfind", "getchildren") for c in ast.walk(it)):
                    continue
                names = [x.id for x in ast.walk(tgt) if isinstance(x, ast.Name) and not x.id.startswith("_")]
                if not names:
                    continue
                n += 1
                used = {x.id for b in body for x in ast.walk(b) if isinstance(x, ast.Name) and isinstance(x.ctx, ast.Load)} - ({x.id for x in ast.walk(it) if isinstance(x, ast.Name)} if not isinstance(lp, ast.For) else set())
                if not isinstance(lp, ast.For):
                    used = {x.id for x in ast.walk(lp.elt if not isinstance(lp, ast.DictComp) else ast.Tuple(elts=[lp.key, lp.value], ctx=ast.Load())) if isinstance(x, ast.Name)} | {x.id for g in lp.generators for c in g.ifs for x in ast.walk(c) if isinstance(x, ast.Name)}
                ok = any(nm in used for nm in names)
                res.check(RULE, "%s: the loop over %s reads its element" % (rmod.qualname(fdef), norm(it)[:50]), ok, rmod, lp, "%s: loop over %s never reads %s" % (rmod.qualname(fdef), norm(it)[:60], "/".join(names)), "every round of the loop reads the same thing (the first matching element of the parent): the other elements of the file are lost", qualname=rmod.qualname(fdef))
    if n < 20:
        raise AnalysisError("only %d element loops found in the XML reader (20+ confirmed)" % n)


def run(repo, res, tier):
    res.rule("RT-LOOPVAR", "loops of the reader over document elements read their loop variable", 20)
    loop_variable_rule(repo, res, "RT-LOOPVAR")
    res.rule("RT-READ", "every emitted element / attribute / text is looked up by the reader as the same kind at the same place", 120)
    res.rule("RT-GUARD", "whether a value is written depends on that value only, not on a sibling attribute", 100)
    res.rule("RT-STATE", "no mutable default argument is changed or handed out in the XML reader / writer", 1)
    from .c02 import mutable_default_rule

    mutable_default_rule(repo, res, ["commonroad/common/reader/file_reader_xml.py", "commonroad/common/writer/file_writer_xml.py"], "RT-STATE")
    res.rule("RT-TRUTH", "presence of an element is tested with `is None`, never by its truth value", 1)
    res.rule("RT-WRITTEN", "every schema-allowed name the reader looks up is emitted by the writer", 30)
    res.rule("RT-FLOW", "reader constructor keywords are fed from the leaves the writer fills from the corresponding attribute", 45)
    res.rule("RT-NAMEMAP", "attribute-name maps of writer and reader agree / invert each other", 40)
    res.rule("RT-ENUM", "text<->enum / boolean encodings are mutually inverse and exhaustive", 25)
    res.rule("RT-ORDER", "ordered collections keep their order; x,y <-> indices 0,1", 12)
    res.rule("RT-KIND", "the exact / interval helpers of the writer build elements of their own kind only", 4)
    value_kind_rule(repo, res)
    res.rule("RT-TIME", "the time written for a state is the state's own time step at every call of create_state_node", 4)
    state_time_rule(repo, res)
    res.rule("RT-PREC", "the number formatter keeps precision.decimals fractional digits on every path", 2)
    precision_rule(repo, res)
    res.rule("RT-KEY", "goal lanelets are keyed by the position of their goal state on both sides", 2)
    from ..keyrule import goal_table_keys, writer_goal_keys

    rmod_ = repo.mod("commonroad/common/reader/file_reader_xml.py")
    wmod_ = repo.mod("commonroad/common/writer/file_writer_xml.py")
    grf = rmod_.classes.get("GoalRegionFactory")
    ppn = wmod_.classes.get("PlanningProblemXMLNode")
    if grf is None or "create_from_xml_node" not in grf.methods or ppn is None or "create_node" not in ppn.methods:
        raise AnalysisError("GoalRegionFactory.create_from_xml_node / PlanningProblemXMLNode.create_node missing")
    for key, node, ok, why in goal_table_keys(grf.methods["create_from_xml_node"]):
        res.check("RT-KEY", "reader files goal lanelets under %s (%s)" % (norm(key), why), ok, rmod_, node, "GoalRegionFactory stores goal lanelets under %s" % norm(key), "goal lanelets are attached to another goal state than the one they were written for: " + why, qualname="GoalRegionFactory.create_from_xml_node")
    from ..keyrule import writer_goal_pairs

    bad_ = writer_goal_pairs(repo, ppn, ppn.methods["create_node"], "StateXMLNode.create_goal_state_node", ("StateXMLNode.create_state_node",))
    res.check("RT-KEY", "writer hands every goal state exactly its own goal lanelets (evaluated on three goal states)", not bad_, wmod_, ppn.methods["create_node"], "PlanningProblemXMLNode.create_node: %s" % "; ".join(bad_[:2]), "the lanelets written with a goal state are those of another goal state (or are inherited from an earlier one)", qualname="PlanningProblemXMLNode.create_node")

    cx = c03.Ctx(repo, res)
    w, xsd, wmod = cx.w, cx.xsd, cx.mod
    rm = ReaderModel(repo)
    rmod = rm.mod

    # ------------------------------------------------------------------ whole-document leaves
    wcls = wmod.classes["XMLFileWriter"]
    from ..xmlw import Node

    root = Node("commonRoad", wcls.methods["write_to_file"], "write_to_file")
    env = {"self._root_node": root}
    for m in ("_write_header", "_add_all_objects_from_scenario", "_add_all_planning_problems_from_planning_problem_set"):
        w.interpret_into(("XMLFileWriter", m), env)
    fl = Flow(w, cx.tags)
    fl._walk_node(root, None, [], (), [], 0)
    wleaves = fl.leaves
    welems = {}
    for l in wleaves:
        welems.setdefault((l.path[1:], l.kind, l.name), l)  # paths relative to the root element

    # reader: everything reachable from the document root
    rlook = set()
    for key, param in ((("ScenarioFactory", "create_from_xml_node"), "xml_node"), (("PlanningProblemSetFactory", "create_from_xml_node"), "xml_node")):
        for (p, path, kind, name) in rm.lookups(key):
            if p in (param, "<root>"):
                rlook.add((path, kind, name))
    rcls = rmod.classes["XMLFileReader"]
    for mn, fn in rcls.methods.items():
        for (p, path, kind, name) in rm.lookups(("XMLFileReader", mn)):
            if p == "<root>":
                rlook.add((path, kind, name))
    if len(rlook) < 150:
        raise AnalysisError("reader lookups from the document root: only %d found" % len(rlook))

    def reader_has(path, kind, name):
        for (rp, rk, rn) in rlook:
            if kind == "elem" and rk == "child" and path_match(rp + (rn,), path):
                return True
            if kind == "elem" and rk in ("tag",) and path_match(rp, path):
                return True
            if kind == "elem" and len(rp) >= len(path) and path_match(rp[: len(path)], path):
                return True  # reader descends through it
            if kind == "attr" and rk == "attr" and rn == name and path_match(rp, path):
                return True
            if kind == "text" and rk == "text" and path_match(rp, path):
                return True
        return False

    # ---- RT-READ
    seen = set()
    for (path, kind, name), l in sorted(welems.items(), key=lambda kv: (kv[0][0], kv[0][1], str(kv[0][2]))):
        if not path:
            if kind != "attr":
                continue
        k = (path, kind, name)
        if k in seen:
            continue
        seen.add(k)
        what = "/".join(path) + ("/@" + name if kind == "attr" else ("#text" if kind == "text" else ""))
        if kind == "attr" and not path and name in ("date",):
            res.note("RT-READ: header attribute %s is a stamp the reader does not need" % name)
            continue
        ok = reader_has(path, kind, name)
        # wrong kind?  (reported once, by the kind rule below)
        hint = ""
        if not ok and kind in ("elem", "text") and any(rk == "attr" and rn == path[-1] and path_match(rp, path[:-1]) for rp, rk, rn in rlook):
            res.note("RT-READ: %s is read as an attribute by the reader (reported by the kind rule)" % what)
            continue
        if not ok and kind == "text" and not reader_has(path, "elem", None):
            continue  # the element itself is reported
        res.check("RT-READ", "writer emits %s -> reader looks it up" % what, ok, wmod, l.origin, "written but not read: %s%s" % (what, hint), "the writer emits %s but the reader never looks it up as %s there%s: the information is lost on reading" % (what, {"elem": "a child element", "attr": "an attribute", "text": "element text"}[kind], hint), qualname=l.fn)

    # ---- RT-TRUTH: the reader never takes the truth value of an element for its presence.  An (l)xml element is
    # false when it has no children, so `if node:` / `node and ..` / `not node` is wrong for every element of simple
    # content (it is there, and counts as absent); only `is (not) None` tests presence.  Elements that always have a
    # child by the schema are exempt: for them the two tests agree.
    def always_has_children(tag):
        decls = []
        for t in list(xsd.types.values()):
            for c in xsd.resolve_children(t):
                if c[0] == tag:
                    decls.append(c)
        if not decls:
            return None  # not an element of the format: the writer cannot emit it, no round trip goes through it
        for c in decls:
            ct = c[4] if c[4] is not None else xsd.types.get((c[1] or "").split(":")[-1])
            if ct is None:
                return False
            kids = xsd.resolve_children(ct)
            if not any(k[2] != "0" for k in kids):
                return False
        return True

    n_find = 0
    for fdef in [x for x in ast.walk(rmod.tree) if isinstance(x, ast.FunctionDef)]:
        frd = None
        parent = rmod.parent

        def element_tag(e, at):
            """tag literal if e denotes the result of <x>.find("tag") (directly or through one local), else None"""
            if isinstance(e, ast.Call) and isinstance(e.func, ast.Attribute) and e.func.attr == "find" and e.args and isinstance(e.args[0], ast.Constant) and isinstance(e.args[0].value, str):
                return e.args[0].value
            if isinstance(e, ast.Name) and frd is not None:
                tags = set()
                for d in frd.defs(e.id, at):
                    if d.node is None or d.kind != "assign":
                        return None
                    t = element_tag(d.node, d.stmt) if not isinstance(d.node, ast.Name) else None
                    if t is None:
                        return None
                    tags.add(t)
                if len(tags) == 1:
                    return tags.pop()
            return None

        finds = [n for n in walk_no_nested(fdef) if isinstance(n, ast.Call) and isinstance(n.func, ast.Attribute) and n.func.attr == "find"]
        if not finds:
            continue
        frd = ReachingDefs(fdef)
        n_find += len(finds)
        for n in walk_no_nested(fdef):
            tests = []
            if isinstance(n, (ast.If, ast.While, ast.IfExp, ast.Assert)):
                tests.append(n.test)
            elif isinstance(n, ast.BoolOp):
                tests += n.values
            elif isinstance(n, ast.UnaryOp) and isinstance(n.op, ast.Not):
                tests.append(n.operand)
            elif isinstance(n, ast.Call) and isinstance(n.func, ast.Name) and n.func.id == "bool" and n.args:
                tests.append(n.args[0])
            for t in tests:
                if not isinstance(t, (ast.Name, ast.Call)):
                    continue
                st = t
                while st is not None and not isinstance(st, ast.stmt):
                    st = parent.get(st)
                tag = element_tag(t, st)
                if tag is None:
                    continue
                ok = always_has_children(tag)
                if ok is None:
                    res.note("RT-TRUTH: <%s> tested by truth value in %s is not an element of the schema (never written)" % (tag, rmod.qualname(fdef)))
                    continue
                res.check("RT-TRUTH", "%s: presence of <%s> is not tested by its truth value" % (rmod.qualname(fdef), tag), ok, rmod, t, "%s: truth value of the <%s> element" % (rmod.qualname(fdef), tag), "an element without children is false: <%s> is taken for absent although it is in the file, and what was written is not what is read" % tag, qualname=rmod.qualname(fdef))
    if n_find < 60:
        raise AnalysisError("only %d element look-ups found in the XML reader (60+ confirmed)" % n_find)
    res.ok("RT-TRUTH", "%d element look-ups of the XML reader examined: none is used as a truth value where the element may have no children" % n_find)

    # ---- RT-GUARD: whether a value is written depends on that value only.  Every condition an emission stands under
    # reads (an attribute on the path to) the attribute being written; a test of a sibling attribute of the same object
    # drops the value for objects the model allows (and the reader reads back something else than was written).
    # Not counted: dispatch on a loop variable / parameter compared with a constant, tests of a formatting type
    # (np.issubdtype), and `<x>.value is (not) Enum.MEMBER`, which compares a string with an enum object.
    def _clean(a):
        a = a.replace("ctrl:", "").strip()
        while a.endswith("[*]"):
            a = a[:-3]
        return a

    def _related(a, b):
        a, b = _clean(a), _clean(b)
        return a.startswith(b) or b.startswith(a)

    def _selector(g):
        try:
            te = ast.parse(g[0], mode="eval").body
        except SyntaxError:
            return True
        if isinstance(te, ast.Compare) and len(te.ops) == 1:
            l_, r_ = te.left, te.comparators[0]
            if isinstance(l_, ast.Name) and isinstance(r_, ast.Constant):
                return True
            if isinstance(te.ops[0], (ast.Is, ast.IsNot)) and isinstance(l_, ast.Attribute) and l_.attr == "value" and isinstance(r_, ast.Attribute):
                return True
        if any(isinstance(n, ast.Call) and norm(n.func) in ("np.issubdtype", "numpy.issubdtype") for n in ast.walk(te)):
            return True
        return False

    n_guarded = 0
    reported = set()
    for l in wleaves:
        if l.kind == "elem" or not l.source:
            continue
        parts = [x.strip() for x in l.source.split("+")]
        if not all(_clean(x).startswith("self.") for x in parts):
            continue
        for g in l.guards:
            src = [x for x in getattr(g, "src", ()) if x.startswith("self.")]
            if not src or _selector(g):
                continue
            n_guarded += 1
            ok = any(_related(ls, gs) for gs in src for ls in parts)
            key = (g[0], g[1], l.fn)
            if not ok and key in reported:
                continue
            if not ok:
                reported.add(key)
            res.check("RT-GUARD", "%s <- %s is written under `%s`, a test of that value" % ("/".join(l.path[-2:]), l.source, g[0]), ok, wmod, l.origin, "%s written only when %s%s" % ("/".join(l.path[-3:-1]) or "/".join(l.path), "" if g[1] else "not ", g[0]), "whether %s is written depends on %s, another attribute of the object: for objects where that test fails the value is dropped from the file" % (l.source, ", ".join(sorted(src))), qualname=l.fn)
    if n_guarded < 100:
        raise AnalysisError("only %d guarded emissions with a resolved source found (100+ confirmed)" % n_guarded)

    # ---- kind mismatch: the reader reads an attribute where schema and writer have a child element
    def xsd_type_at(path):
        xt = xsd.elements["commonRoad"][4]
        for seg in path:
            nxt = None
            for c in xsd.resolve_children(xt):
                if c[0] == seg:
                    nxt = c[4] if c[4] is not None else xsd.types.get((c[1] or "").split(":")[-1])
            if nxt is None:
                return None
            xt = nxt
        return xt

    for (rp, rk, rn) in sorted(rlook, key=lambda x: (str(x[0]), x[1], str(x[2]))):
        if rk != "attr" or any(isinstance(s_, tuple) or s_ == "*" for s_ in rp):
            continue
        xt = xsd_type_at(rp)
        if xt is None:
            continue
        xattrs = [a_[0] for a_ in xt.attributes]
        if rp and (rp, "elem", None) not in welems:
            continue  # a generic reader helper looks there, the writer never emits that element in this context
        if rn in xattrs:
            res.check("RT-WRITTEN", "reader reads %s/@%s (schema attribute) -> writer sets it" % ("/".join(rp), rn), (rp, "attr", rn) in welems, wmod, None, "read and schema-allowed but never written: %s/@%s" % ("/".join(rp), rn), "attribute %s of <%s> is read but never written" % (rn, rp[-1] if rp else "commonRoad"), qualname="reader " + "/".join(rp))
        elif rn in [c[0] for c in xsd.resolve_children(xt)]:
            res.bad("RT-WRITTEN", "reader reads %s/@%s which the schema defines as a child element" % ("/".join(rp), rn), Finding("RT-WRITTEN", rmod, None, "reader reads attribute %s of <%s>, schema and writer use a child element" % (rn, rp[-1] if rp else "commonRoad"), "the value is written (and defined by the schema) as child element <%s> but read as an attribute: it is always read as absent" % rn, qualname="reader " + "/".join(rp)))

    # ------------------------------------------------------------------ RT-FLOW / RT-WRITTEN per pair
    def kw_exprs(fi, call, pnames):
        """keyword -> value expression of a constructor call, **dict arguments expanded"""
        kws = {}
        for i, a_ in enumerate(call.args):
            if i < len(pnames):
                kws[pnames[i]] = a_
        for kw in call.keywords:
            if kw.arg:
                kws[kw.arg] = kw.value
            elif isinstance(kw.value, ast.Name):
                for n in walk_no_nested(fi.fn):
                    if isinstance(n, ast.Assign) and isinstance(n.targets[0], ast.Subscript) and norm(n.targets[0].value) == kw.value.id and isinstance(n.targets[0].slice, ast.Constant):
                        kws[n.targets[0].slice.value] = n.value
        return kws

    def is_nested_object(dcls, cm, k):
        """the keyword takes another domain object (validated in its own pair)"""
        for pn, pann, _d in cm.params:
            if pn == k and pann:
                from ..effects import type_names

                try:
                    names = type_names(ast.parse(pann, mode="eval").body)
                except SyntaxError:
                    names = []
                for n in names:
                    c = repo.resolve_class(dcls.mod, n)
                    if c is not None and not c.is_enum and c.name not in ("Interval", "AngleInterval"):
                        return True
        return False

    for pair in PAIRS:
        bkey, fkey, cname = pair[:3]
        prefix = pair[3] if len(pair) > 3 else ()
        if bkey not in w.funcs:
            raise AnalysisError("builder %s.%s missing" % bkey)
        if fkey not in rm.funcs:
            raise AnalysisError("factory %s.%s missing" % fkey)
        f2 = Flow(w, cx.tags)
        leaves = [l for l in f2.walk_builder(bkey) if l.kind != "elem" and l.source and not l.source.startswith("const:")]
        if not leaves:
            raise AnalysisError("builder %s.%s: no value leaves found" % bkey)
        roots = {l.path[0] for l in leaves if not l.path[0].startswith("<param:")}
        wsrc = {}
        all_src_attrs = set()
        bparams = [a_.arg for a_ in w.funcs[bkey][1].args.args if a_.arg not in ("cls", "self")]
        for l in leaves:
            src = l.source[5:] if l.source.startswith("ctrl:") else l.source
            parts = [x.split("[")[0] for x in src.replace("[*]", "").split(".")]
            segs = [x for x in (parts[1:] if len(parts) > 1 else (parts if parts[0] in bparams[1:] else [])) if x and not x.startswith("{") and x not in ("value", "name")]
            if not segs:
                continue
            rel_w = l.path[1:]
            if prefix:
                if rel_w[: len(prefix)] != prefix:
                    continue
                rel_w = rel_w[len(prefix):]
            all_src_attrs.update(segs)
            wsrc.setdefault((rel_w, l.kind, l.name), set()).update(segs)
        fi = rm.funcs[fkey]
        dcls = repo.resolve_class(rmod, cname)
        if dcls is None:
            raise AnalysisError("domain class %s not found" % cname)
        ctors = [(c, call) for c, call in rm.ctor_calls(fkey) if c.name == cname]
        if not ctors:
            raise AnalysisError("factory %s.%s does not construct %s" % (fkey[0], fkey[1], cname))
        cm = ctor_model(repo, dcls)
        pnames = [p_[0] for p_ in cm.params]
        pa = cm.param_attrs() if cm.fn is not None and not cm.kwargs_ctor else {}
        slots = dcls.class_assigns.get("__slots__")
        slot_names = [e.value for e in slots.elts] if isinstance(slots, (ast.List, ast.Tuple)) else []
        done = set()
        for c, call in ctors:
            for k, vexpr in sorted(kw_exprs(fi, call, pnames).items()):
                if k in done:
                    continue
                done.add(k)
                if (cname, k) in FLOW_EXCEPTIONS:
                    res.note("RT-FLOW exception %s(%s): %s" % (cname, k, FLOW_EXCEPTIONS[(cname, k)]))
                    continue
                if is_nested_object(dcls, cm, k):
                    res.note("RT-FLOW: %s(%s) is a nested object, checked in its own pair" % (cname, k))
                    continue
                prov = rm.provenance(fi, vexpr)
                names = {k} | {a_.lstrip("_") for a_ in pa.get(k, set())}
                for b_ in repo.mro(dcls):
                    for pn, pd in b_.props.items():
                        g = pd.get("get")
                        if g is not None:
                            for n in ast.walk(g):
                                ch = attr_chain(n) if isinstance(n, ast.Attribute) else None
                                if ch and ch[0] == "self" and len(ch) == 2 and ch[1].lstrip("_") in names:
                                    names.add(pn)
                matched, others, n_leaves = False, [], 0
                for (p_, path, kind, nm) in prov:
                    if p_ not in fi.node_params or kind not in ("text", "attr"):
                        continue
                    rel = path
                    if rel and rel[0] in roots:
                        rel = rel[1:]
                    n_leaves += 1
                    for (wp, wk, wn), attrs in wsrc.items():
                        if wk == kind and (kind == "text" or wn == nm) and path_match(rel, wp):
                            if attrs & names:
                                matched = True
                            else:
                                others.append(("/".join(wp) + ("@" + str(wn) if wk == "attr" else ""), sorted(attrs)))
                if n_leaves == 0:
                    res.note("RT-FLOW: %s(%s) does not come from the file (computed / default)" % (cname, k))
                    continue
                inst = "%s(%s) <- leaves the writer fills from %s" % (cname, k, sorted(names)[:4])
                if matched:
                    res.ok("RT-FLOW", inst)
                elif others:
                    res.bad("RT-FLOW", inst, Finding("RT-FLOW", rmod, vexpr, "%s.%s: %s(%s=...) is read from %s, which the writer fills from %s" % (fkey[0], fkey[1], cname, k, others[0][0], others[0][1]), "constructor keyword %s receives the value the writer stored for another attribute (%s): fields are crossed between writing and reading" % (k, others[0][1]), qualname="%s.%s" % fkey))
                else:
                    # read from the file, but the paired builder never writes those leaves
                    written_elsewhere = bool(names & all_src_attrs)
                    res.check("RT-WRITTEN", "%s(%s) is read from the file -> the writer stores attribute %s" % (cname, k, sorted(names)[:3]), written_elsewhere, wmod, w.funcs[bkey][1], "%s.%s never writes attribute %s (read by %s.%s into %s(%s))" % (bkey[0], bkey[1], k, fkey[0], fkey[1], cname, k), "the schema has a place for %s and the reader reads it, but the writer never emits it: the value is dropped on writing" % k, qualname="%s.%s" % bkey)

    # ------------------------------------------------------------------ RT-NAMEMAP
    wmap = cx.map_xml
    rsf = rmod.classes["StateFactory"]
    rmap = NameMap(rsf.methods["_map_to_xml_prop"], "StateFactory._map_to_xml_prop", repo, rsf, rmod)
    rinv = NameMap(rsf.methods["_map_to_prop"], "StateFactory._map_to_prop", repo, rsf, rmod)
    # decided per attribute: the three maps are folded over every state attribute name (the finite domain)
    for f in cx.state_fields:
        ok = rinv(wmap(f)) == f and rmap(f) == wmap(f)
        res.check("RT-NAMEMAP", "field %s -> <%s> -> %s" % (f, wmap(f), rinv(wmap(f))), ok, wmod, wmap.fn, "field %s written as <%s>, read back as %s / looked up as <%s>" % (f, wmap(f), rinv(wmap(f)), rmap(f)), "the state attribute %s does not survive the name mapping" % f, qualname="StateXMLNode._map_to_xml_prop")
    # goal states use the plain snake->camel conversion: must coincide with the map on the goal attributes
    for f in ("time_step", "position", "orientation", "velocity"):
        if f not in ("time_step", "position"):
            res.check("RT-NAMEMAP", "goal attribute %s: plain camel case = mapped name" % f, c03.snake_to_camel(f) == wmap(f), wmod, wmap.fn, "goal attribute %s" % f, "goal states are written under another element name than read", qualname="StateXMLNode.create_goal_state_node")

    # ------------------------------------------------------------------ RT-ENUM
    # traffic light direction / activity: decided by an evaluated write -> read round trip through the element model
    from . import c01ev

    c01ev.traffic_light_roundtrip(repo, res, "RT-ENUM")
    c01ev.shared_reference_rule(repo, res, "RT-READ")
    # booleans
    rb = rm.funcs[("SignalStateFactory", "_read_boolean")].fn
    t = " ; ".join(norm(s) for s in rb.body)
    ok = "xml_node.text == 'true'" in t and "return True" in t and "xml_node.text == 'false'" in t and "return False" in t
    res.check("RT-ENUM", "booleans: reader accepts 'true'/'false'", ok, rmod, rb, "SignalStateFactory._read_boolean", "boolean text the writer emits is not parsed back", qualname="SignalStateFactory._read_boolean")
    def leaf_type(l):
        xt = xsd_type_at(l.path[1:-1])
        if xt is None:
            return None
        for c_ in xsd.resolve_children(xt):
            if c_[0] == l.path[-1]:
                return c_[1]
        return None

    bool_leaves = [l for l in wleaves if l.kind == "text" and l.expr is not None and leaf_type(l) == "xs:boolean"]
    ok = len(bool_leaves) >= 6 and all(norm(l.expr).startswith("str(") and norm(l.expr).endswith(".lower()") for l in bool_leaves)
    res.check("RT-ENUM", "booleans: writer emits str(b).lower() at %d sites" % len(bool_leaves), ok, wmod, bool_leaves[0].origin if bool_leaves else None, "writer boolean encoding", "booleans are not written as 'true'/'false'", qualname="SignalStateXMLNode")
    # driving direction
    lf = rm.funcs[("LaneletFactory", "_adjacent_left")].fn
    for side, fnm in (("Left", "_adjacent_left"), ("Right", "_adjacent_right")):
        f = rm.funcs[("LaneletFactory", fnm)].fn
        t = " ; ".join(norm(s) for s in f.body)
        ok = "get('drivingDir') == 'same'" in t
        wl = [norm(l.expr) for l in wleaves if l.kind == "attr" and l.name == "drivingDir" and l.path[-1] == "adjacent" + side]
        ok = ok and sorted(set(wl)) == ["'opposite'", "'same'"]
        res.check("RT-ENUM", "adjacent%s drivingDir: writer same/opposite, reader == 'same'" % side, ok, rmod, f, "drivingDir encoding adjacent%s writer %s" % (side, sorted(set(wl))), "the driving direction flag is inverted or lost", qualname="LaneletFactory." + fnm)
    # schema enumerations are values of the enum the reader constructs
    enum_map = {"lineMarking": "LineMarking", "laneletType": "LaneletType", "vehicleType": "RoadUser", "trafficLightColor": "TrafficLightState", "obstacleTypeStatic": "ObstacleType", "obstacleTypeDynamic": "ObstacleType", "obstacleTypeEnvironment": "ObstacleType", "timeOfDay": "TimeOfDay", "weather": "Weather", "underground": "Underground"}
    for xn, pn in sorted(enum_map.items()):
        if xn not in xsd.enums:
            raise AnalysisError("schema enumeration %s missing" % xn)
        pe = repo.resolve_class(rmod, pn)
        vals = {v.value for v in pe.enum_members().values() if isinstance(v, ast.Constant)}
        missing = sorted(set(xsd.enums[xn]) - vals)
        if missing:
            res.note("RT-ENUM: schema values %s of %s have no member in %s (foreign files with them cannot be read; no Python scenario can hold them, so write->read is not affected)" % (missing, xn, pn))
        else:
            res.ok("RT-ENUM", "schema enumeration %s is covered by %s" % (xn, pn))

    # ------------------------------------------------------------------ RT-ORDER
    ordered = ["state_list", "occupancy_set", "signal_series", "cycle_elements", "vertices", "left_vertices", "right_vertices", "incomings", "traffic_sign_elements", "additional_values"]
    for (cn, fnm), (c, f) in sorted(w.funcs.items(), key=lambda kv: (str(kv[0][0]), kv[0][1])):
        for n in walk_no_nested(f):
            if isinstance(n, ast.For):
                it = norm(n.iter)
                if any(("." + o) in it for o in ordered):
                    ok = not any(x in it for x in ("sorted(", "reversed(", "set(", "[::-1]"))
                    res.check("RT-ORDER", "writer %s.%s iterates %s in stored order" % (cn, fnm, it), ok, wmod, n, "writer loop over %s" % it, "an ordered collection is written in another order than stored", qualname="%s.%s" % (cn, fnm))
    for key in (("TrajectoryFactory", "create_from_xml_node"), ("SetBasedPredictionFactory", "create_from_xml_node"), ("SignalSeriesFactory", "create_from_xml_node"), ("TrafficLightCycleFactory", "create_from_xml_node"), ("PointListFactory", "create_from_xml_node")):
        f = rm.funcs[key].fn
        loops = [n for n in walk_no_nested(f) if isinstance(n, ast.For)]
        ok = len(loops) >= 1 and ".findall(" in norm(loops[0].iter) and not any(x in norm(loops[0].iter) for x in ("sorted(", "reversed(", "set("))
        apps = [c for c in ast.walk(loops[0]) if isinstance(c, ast.Call) and isinstance(c.func, ast.Attribute) and c.func.attr == "append"] if loops else []
        ok = ok and len(apps) == 1
        res.check("RT-ORDER", "reader %s.%s appends in document order" % key, ok, rmod, f, "reader loop of %s.%s" % key, "an ordered collection is read in another order than written (or into an unordered container)", qualname="%s.%s" % key)
    # x,y <-> 0,1
    pf = rm.funcs[("PointFactory", "create_from_xml_node")].fn
    t = " ; ".join(norm(s) for s in pf.body)
    ok = "x = float(xml_node.find('x').text)" in t and "y = float(xml_node.find('y').text)" in t and "np.array([x, y])" in t
    res.check("RT-ORDER", "reader builds points as [x, y]", ok, rmod, pf, "PointFactory", "coordinates are swapped on reading", qualname="PointFactory.create_from_xml_node")
    bad = [l for l in wleaves if l.kind == "text" and l.path[-1] in ("x", "y") and l.source and l.source.endswith("]") and l.source[-3:] in ("[0]", "[1]") and {"x": "[0]", "y": "[1]"}[l.path[-1]] != l.source[-3:]]
    idx = [l for l in wleaves if l.kind == "text" and l.path[-1] in ("x", "y") and l.source and l.source[-3:] in ("[0]", "[1]")]
    res.check("RT-ORDER", "writer takes x from index 0 and y from index 1 (%d indexed sites)" % len(idx), not bad, wmod, bad[0].origin if bad else None, "writer coordinate %s <- %s" % (("/".join(bad[0].path), bad[0].source) if bad else ("", "")), "coordinates are swapped on writing", qualname=bad[0].fn if bad else "Point")
    if cx.w.unresolved:
        raise AnalysisError("the writer model could not interpret what is appended at: %s" % "; ".join("%s:%d %s" % (f, ln, t) for f, t, ln in cx.w.unresolved[:5]))
    return {"writer_leaves": len(wleaves), "reader_lookups": len(rlook)}

"""C05 — translate_rotate is the exact rigid motion on every object.

  T1 MATRIX     rotation_translation_matrix / translation_rotation_matrix evaluated on atoms (c05ev.matrix_rule): the
                3 x 3 result is, entry by entry on sample values, the rigid motion of the given order — for five
                angles including 0, a tiny one and 2 pi
  T8 ANGLES     is_valid_orientation (asserted by every translate_rotate) accepts exactly [-2pi, 2pi], ends included
  T2 COVERAGE   each translate_rotate moves every spatial attribute of its class
  T3 FANOUT     nested translate_rotate / transform calls receive the method's own (translation, angle)
  T4 PROTOCOL   every class a translate_rotate is invoked on (typed receivers, e.g. the obstacle union
                of Scenario.obstacles) defines translate_rotate
  T5 ASSIGNABLE attributes assigned by State.translate_rotate are assignable in every State subclass
  T6 WRAP       `<orientation> + angle` is normalised (argument of a call) or is AngleInterval arithmetic
"""
import ast

from ..core import AnalysisError, Finding, attr_chain, call_name, dominating_guards, norm, walk_no_nested
from ..dataflow import ReachingDefs, Provenance
from ..effects import Effects, FnKey, type_names
from ..classfacts import ctor_model

TR = "commonroad/geometry/transform.py"

# (class, attribute): reason — spatial-looking attributes that are deliberately not moved
COVERAGE_EXCEPTIONS = {
    ("Obstacle", "_obstacle_shape"): "obstacle shapes are given in the local (vehicle) frame; the occupancy is placed by the state",
    ("StaticObstacle", "_obstacle_shape"): "local frame",
    ("DynamicObstacle", "_obstacle_shape"): "local frame",
    ("Obstacle", "_initial_occupancy_shape"): "derived from the initial state by its setter (freshness is C11)",
    ("StaticObstacle", "_initial_occupancy_shape"): "derived (C11)",
    ("DynamicObstacle", "_initial_occupancy_shape"): "derived (C11)",
    ("TrajectoryPrediction", "_shape"): "local frame; occupancies are derived from trajectory + shape (C11)",
    ("TrafficLight", "_shape"): "display rectangle of the light housing, never serialised; not among the components the property lists",
    ("DynamicObstacle", "history"): "past states are not among the components the property enumerates",
    ("Lanelet", "_polygon"): "derived from the boundaries and rebuilt (C11)",
    ("Lanelet", "_distance"): "arc lengths, invariant under a rigid motion",
    ("Lanelet", "_inner_distance"): "arc lengths, invariant under a rigid motion",
    ("LaneletNetwork", "_areas"): "areas are not among the components the property enumerates (Area has no translate_rotate)",
    ("LaneletNetwork", "_intersections"): "intersections hold ids only",
    ("LaneletNetwork", "_information"): "meta data",
    ("Polygon", "_min"): "derived by the constructor of the new polygon",
    ("Polygon", "_max"): "derived by the constructor of the new polygon",
    ("Polygon", "_shapely_polygon"): "derived by the constructor of the new polygon",
    ("Circle", "_shapely_circle"): "derived by the constructor of the new circle",
    ("Rectangle", "_vertices"): "derived lazily in the new rectangle",
    ("Rectangle", "__shapely_polygon"): "derived lazily in the new rectangle",
}

SPATIAL_NAMES = {"position", "center", "vertices", "orientation", "start", "end"}


PARENT_MOVED = {}


def spatial_classes(repo):
    """Classes that define (or inherit) a translate_rotate."""
    out = set()
    for m in repo.modules.values():
        for c in m.classes.values():
            o, f = repo.find_method(c, "translate_rotate")
            if f is not None:
                out.add(c.name)
    return out


def is_abstract_body(fn):
    body = [s for s in fn.body if not (isinstance(s, ast.Expr) and isinstance(s.value, ast.Constant))]
    return all(isinstance(s, ast.Pass) for s in body)


def transform_uses(mod, fn, given=None):
    """Expression nodes that apply the motion: calls whose arguments contain both motion parameters
    (translation, angle), `.dot(` on a matrix built from them, and `x + angle` sums."""
    params = list(given) if given is not None else [a.arg for a in fn.args.args][1:3]
    out = []
    if len(params) < 2:
        return out, params
    tr, an = params
    rd = ReachingDefs(fn)
    matrices = set()
    for n in walk_no_nested(fn):
        if isinstance(n, ast.Assign) and isinstance(n.value, ast.Call):
            names = {x.id for a in list(n.value.args) + [k.value for k in n.value.keywords] for x in ast.walk(a) if isinstance(x, ast.Name)}
            if tr is not None and tr in names and an in names and isinstance(n.targets[0], ast.Name):
                matrices.add(n.targets[0].id)
    for n in walk_no_nested(fn):
        if isinstance(n, ast.Call):
            names = {x.id for a in list(n.args) + [k.value for k in n.keywords] for x in ast.walk(a) if isinstance(x, ast.Name)}
            if tr is not None and tr in names and an in names:
                out.append(n)
            elif isinstance(n.func, ast.Attribute) and n.func.attr == "dot" and isinstance(n.func.value, ast.Name) and n.func.value.id in matrices:
                out.append(n)
        elif isinstance(n, ast.BinOp) and isinstance(n.op, ast.Add) and any(isinstance(x, ast.Name) and x.id == an for x in (n.left, n.right)):
            out.append(n)
    return out, params


def moved_attrs(repo, cls, fn, motion_params, depth=0, seen=None):
    """Attributes of `self` that `fn` moves, decided by data flow rather than by the layout of the code:
    (a) a store into X.A (X = self or a local object) of a value that derives from the motion parameters and reads
        self.A (directly, through locals, or inside same-class helpers it calls), or
    (b) a call that receives motion-derived arguments on a receiver that derives from self.A (the attribute itself,
        an alias, an element of it in a loop / comprehension, a value of a dict of it, through literal tuples), or
    (c) a same-class helper called with motion-derived arguments that does (a)/(b) itself.
    Returns a set of attribute names without leading underscores."""
    seen = seen if seen is not None else set()
    if id(fn) in seen or depth > 4:
        return set()
    seen = seen | {id(fn)}
    rd = ReachingDefs(fn)
    prov = Provenance(fn, rd)
    tainted = set(motion_params)
    changed = True
    stmts = [n for n in walk_no_nested(fn) if isinstance(n, (ast.Assign, ast.AnnAssign, ast.AugAssign, ast.For))]

    def is_tainted(e):
        return any(isinstance(x, ast.Name) and x.id in tainted for x in ast.walk(e))

    while changed:
        changed = False
        for st in stmts:
            if isinstance(st, ast.For):
                val, tgts = st.iter, [st.target]
            else:
                val = st.value
                tgts = st.targets if isinstance(st, ast.Assign) else [st.target]
            if val is None or not is_tainted(val):
                continue
            for t in tgts:
                for x in ast.walk(t):
                    if isinstance(x, ast.Name) and x.id not in tainted:
                        tainted.add(x.id)
                        changed = True

    def helper_of(call):
        f = call.func
        if isinstance(f, ast.Attribute) and isinstance(f.value, ast.Name) and f.value.id in ("self", "cls"):
            _o, m = repo.find_method(cls, f.attr)
            return m
        return None

    def self_attrs(e, d=0):
        """attributes of self the value of e derives from"""
        out = set()
        if d > 6 or e is None:
            return out
        for x in ast.walk(e):
            if isinstance(x, ast.Attribute):
                ch = attr_chain(x)
                if ch and ch[0] == "self" and len(ch) >= 2:
                    out.add(ch[1].lstrip("_"))
            elif isinstance(x, ast.Call) and call_name(x) == "getattr" and len(x.args) >= 2 and norm(x.args[0]) == "self" and isinstance(x.args[1], ast.Constant):
                out.add(str(x.args[1].value).lstrip("_"))
            elif isinstance(x, ast.Name) and isinstance(x.ctx, ast.Load) and x.id not in ("self", "cls") and x.id not in motion_params:
                if id(x) in prov.comp_bind:
                    out |= self_attrs(prov.comp_bind[id(x)], d + 1)
                for df in rd.defs(x.id, x):
                    if df.node is not None and df.kind in ("assign", "for", "unpack", "with"):
                        out |= self_attrs(df.node, d + 1)
            if isinstance(x, ast.Call):
                h = helper_of(x)
                if h is not None and id(h) not in seen:
                    # reads inside a same-class helper
                    for y in walk_no_nested(h):
                        ch = attr_chain(y) if isinstance(y, ast.Attribute) else None
                        if ch and ch[0] == "self" and len(ch) >= 2 and isinstance(y.ctx, ast.Load):
                            _o2, m2 = repo.find_method(cls, ch[1])
                            if m2 is None:
                                out.add(ch[1].lstrip("_"))
        # getters: self.x -> what the getter reads
        more = set()
        for a in out:
            _c, pr = repo.find_prop(cls, a)
            if pr is not None and "get" in pr:
                for y in ast.walk(pr["get"]):
                    ch = attr_chain(y) if isinstance(y, ast.Attribute) else None
                    if ch and ch[0] == "self" and len(ch) == 2:
                        more.add(ch[1].lstrip("_"))
        return out | more

    moved = set()
    for n in walk_no_nested(fn):
        # (a) stores
        if isinstance(n, (ast.Assign, ast.AnnAssign, ast.AugAssign)):
            val = n.value
            tgts = n.targets if isinstance(n, ast.Assign) else [n.target]
            if val is None or not is_tainted(val):
                continue
            reads = self_attrs(val)
            for t in tgts:
                for x in (t.elts if isinstance(t, (ast.Tuple, ast.List)) else [t]):
                    if isinstance(x, ast.Attribute):
                        a = x.attr.lstrip("_")
                        if a in reads:
                            moved.add(a)
                    elif isinstance(x, ast.Subscript):
                        # self.state_list[i] = self.state_list[i].translate_rotate(..)
                        for a in self_attrs(x.value) & reads:
                            moved.add(a)
        # (b) / (c) calls
        if isinstance(n, ast.Call):
            args = list(n.args) + [k.value for k in n.keywords]
            if not any(is_tainted(a) for a in args):
                continue
            # (d) immutable style: the moved value is handed to the constructor parameter that feeds the attribute
            tc = repo.resolve_class(cls.mod, call_name(n) or "")
            if tc is not None:
                try:
                    cm = ctor_model(repo, tc)
                    pnames = [p[0] for p in cm.params]
                    pattrs = cm.param_attrs()
                except Exception:
                    pnames, pattrs = [], {}
                bound = list(zip(pnames, n.args)) + [(k.arg, k.value) for k in n.keywords if k.arg]
                moved_params = set()
                for pn, a in bound:
                    if not is_tainted(a):
                        continue
                    reads = self_attrs(a)
                    fed = {x.lstrip("_") for x in pattrs.get(pn, [])} | {pn.lstrip("_")}
                    if reads & fed:
                        moved_params.add(pn)
                    moved |= reads & fed
                # what the constructor of the new object computes from moved parameters only is moved with them
                if tc is cls or tc in repo.mro(cls):
                    try:
                        for a_ in cm.attributes():
                            fp_ = cm.feeding_params(a_)
                            if fp_ and fp_ <= moved_params:
                                moved.add(a_.lstrip("_"))
                    except Exception:
                        pass
                continue
            h = helper_of(n)
            if h is not None:
                hp = [a.arg for a in h.args.args]
                hp = hp[1:] if hp and hp[0] in ("self", "cls") else hp
                tainted_params = [p for p, a in zip(hp, n.args) if is_tainted(a)] + [k.arg for k in n.keywords if k.arg and is_tainted(k.value)]
                moved |= moved_attrs(repo, cls, h, tainted_params, depth + 1, seen)
            elif isinstance(n.func, ast.Attribute):
                moved |= self_attrs(n.func.value)
    return moved


def run(repo, res, tier):
    res.rule("T1-MATRIX", "rotation blocks are (cos x, -sin x; sin x, cos x) of the angle parameter (or the identity under x == 0)", 2)
    res.rule("T2-COVERAGE", "each translate_rotate moves every spatial attribute of its class", 25)
    res.rule("T3-FANOUT", "nested transform calls receive the method's own (translation, angle) unmodified", 25)
    res.rule("T4-PROTOCOL", "every class translate_rotate is invoked on defines it", 10)
    res.rule("T5-ASSIGNABLE", "attributes assigned by State.translate_rotate are plain (assignable) in every State subclass", 20)
    res.rule("T6-WRAP", "`orientation + angle` is normalised or AngleInterval arithmetic", 3)
    res.rule("T8-ANGLES", "the angle test of translate_rotate accepts exactly [-2pi, 2pi], ends included (evaluated)", 6)
    from . import c05ev as _c05ev

    _c05ev.matrix_rule(repo, res)
    _c05ev.angle_domain_rule(repo, res)
    res.rule("T7-DERIVED", "spatial data derived from what translate_rotate moves (occupancy sets, initial occupancy, polygons, vertices, spatial index) is refreshed by it", 8)
    from . import c11

    for cache_, _cls, fk_, verdict_, f_ in c11.verdicts(repo, res, want_fn=lambda fk: fk.fn.name == "translate_rotate"):
        inst = "%s under %s: %s" % (cache_.name, fk_.name, verdict_)
        if f_ is None:
            res.ok("T7-DERIVED", inst)
        else:
            res.bad("T7-DERIVED", inst, Finding("T7-DERIVED", f_[0], f_[1], f_[2], "the object's own coordinates move but the stored %s does not: part of the object stays at the old pose" % cache_.name, qualname=fk_.name))
    eff = Effects(repo)

    # ------------------------------------------------------------ T1: decided by evaluation (c05ev.matrix_rule, above): the
    # matrices are evaluated on atoms and compared entry by entry with the rigid motion; the structural reading of array
    # displays with a (c, -s; s, c) block that stood here was removed when round 5 built the matrices by index assignment
    tmod = repo.mod(TR)

    # ------------------------------------------------------------ T3 on the containers: decided by evaluation
    from . import c05ev

    c05ev.fanout_rules(repo, res, "T3-FANOUT")
    # ------------------------------------------------------------ T2 / T3 / T6 over every translate_rotate
    sp = spatial_classes(repo)
    methods = []
    for m in repo.modules.values():
        for c in m.classes.values():
            if "translate_rotate" in c.methods and not is_abstract_body(c.methods["translate_rotate"]):
                methods.append((c, c.methods["translate_rotate"]))
    methods.sort(key=lambda cf: len(repo.mro(cf[0])))
    PARENT_MOVED.clear()
    if len(methods) < 20:
        raise AnalysisError("only %d concrete translate_rotate methods found (21 confirmed)" % len(methods))
    for cls, fn in methods:
        mod = cls.mod
        fk = FnKey(cls, fn, mod)
        uses, params = transform_uses(mod, fn)
        qn = "%s.translate_rotate" % cls.name
        if len(params) < 2:
            raise AnalysisError("%s has no (translation, angle) parameters" % qn)
        tr, an = params
        # which attributes does the method move (data flow, independent of layout)
        moved_norm = moved_attrs(repo, cls, fn, [tr, an])
        # delegation to the parent implementation credits what the parent moves
        for u in uses:
            if isinstance(u, ast.Call) and isinstance(u.func, ast.Attribute) and u.func.attr == "translate_rotate" and isinstance(u.func.value, ast.Call) and call_name(u.func.value) == "super":
                for pc in repo.mro(cls)[1:]:
                    if "translate_rotate" in pc.methods:
                        moved_norm |= PARENT_MOVED.get(pc.name, set())
                        break
        PARENT_MOVED[cls.name] = set(moved_norm)
        # spatial attributes of the class
        users = [u for u in repo.subclasses(cls) if repo.find_method(u, "translate_rotate")[1] is fn]
        todo = []
        for u in users:
            cmu = ctor_model(repo, u)
            atu = eff.attr_types(u)
            for a in cmu.attributes():
                names = set(atu.get(a, set()) | atu.get(a.lstrip("_"), set()))
                fp = cmu.feeding_params(a) if cmu.fn is not None else set()
                if len(fp) == 1:
                    for pn, pann, _d in cmu.params:
                        if pn in fp and pann:
                            try:
                                names |= set(type_names(ast.parse(pann, mode="eval").body))
                            except SyntaxError:
                                pass
                if cmu.fn is None and a in cmu.fields:
                    names |= set(type_names(ast.parse(cmu.fields[a][0], mode="eval").body))
                key = (a, tuple(sorted(names)))
                if not any(t[1] == a for t in todo):
                    todo.append((u, a, eff.expand_aliases(names)))
        moved_by_user = {}
        for u, a, names in todo:
            # hooks the method calls on self are resolved in the class the object really has (template methods)
            if u.name not in moved_by_user:
                moved_by_user[u.name] = moved_norm if u is cls else (moved_attrs(repo, u, fn, [tr, an]) | moved_norm)
            spatial = bool(names & sp) or "ndarray" in names or a.lstrip("_") in SPATIAL_NAMES
            if a.lstrip("_") in ("orientation",) and cls.name not in ("Rectangle",) and "State" not in [c.name for c in repo.mro(cls)]:
                spatial = spatial
            if not spatial:
                continue
            inst = "%s moves %s" % (qn, a)
            exc = COVERAGE_EXCEPTIONS.get((cls.name, a)) or COVERAGE_EXCEPTIONS.get((u.name, a))
            if exc:
                res.note("T2 exception %s.%s: %s" % (u.name, a, exc))
                continue
            res.check(
                "T2-COVERAGE",
                inst,
                a.lstrip("_") in moved_by_user[u.name],
                mod,
                fn,
                "%s does not move %s" % (qn, a),
                "spatial attribute %s (declared %s) is not transformed: the object is torn apart by translate_rotate" % (a, sorted(names)[:4]),
                qualname=qn,
            )
        # same-class helpers that receive the motion parameters belong to the method (extract-method refactorings)
        regions = [(fn, tr, an, uses)]
        work = [(fn, tr, an)]
        seen_h = {id(fn)}
        while work:
            f0, t0, a0 = work.pop()
            for c in walk_no_nested(f0):
                if isinstance(c, ast.Call) and isinstance(c.func, ast.Attribute) and isinstance(c.func.value, ast.Name) and c.func.value.id in ("self", "cls"):
                    _o, h = repo.find_method(cls, c.func.attr)
                    if h is None or id(h) in seen_h or h.name == "translate_rotate":
                        continue
                    hp = [x.arg for x in h.args.args]
                    hp = hp[1:] if hp and hp[0] in ("self", "cls") else hp
                    bind = dict(zip(hp, [norm(x) for x in c.args]))
                    bind.update({k.arg: norm(k.value) for k in c.keywords if k.arg})
                    ht = next((p for p, v in bind.items() if t0 is not None and v == t0), None)
                    ha = next((p for p, v in bind.items() if v == a0), None)
                    if ha is None:
                        continue
                    seen_h.add(id(h))
                    hu, _p = transform_uses(mod, h, [ht, ha])
                    regions.append((h, ht, ha, hu))
                    work.append((h, ht, ha))
        # T3: parameter pass-through
        for u in uses:
            if not isinstance(u, ast.Call):
                continue
            cn = norm(u.func)
            if not (cn.endswith("translate_rotate") or cn.endswith("translation_rotation_matrix") or cn.endswith("rotation_translation_matrix") or cn.endswith("rotate_translate")):
                continue
            args = [norm(a) for a in u.args] + ["%s=%s" % (k.arg, norm(k.value)) for k in u.keywords]
            tail = [a for a in args if a in (tr, an) or a.endswith("=" + tr) or a.endswith("=" + an)]
            ok = tail == [tr, an] or tail == ["translation=" + tr, "angle=" + an]
            # the motion is p -> R(a)(p + t): the function that rotates first and translates afterwards has the same
            # signature but is another map
            if cn.split(".")[-1] in ("rotate_translate", "rotation_translation_matrix") and qn.endswith("translate_rotate"):
                ok = False
            # no arithmetic on the motion parameters anywhere in the arguments
            for a in list(u.args) + [k.value for k in u.keywords]:
                for x in ast.walk(a):
                    if isinstance(x, (ast.BinOp, ast.UnaryOp)) and any(isinstance(y, ast.Name) and y.id in (tr, an) for y in ast.walk(x)):
                        ok = False
            res.check("T3-FANOUT", "%s: %s(%s)" % (qn, cn, ", ".join(args)), ok, mod, u, "%s: %s(%s)" % (qn, cn, ", ".join(args)), "the nested transform does not receive (translation, angle) of the enclosing call unmodified, in this order", qualname=qn)
        # T6
        for rfn, _rt, _ra, ruses in regions:
          for u in ruses:
            if isinstance(u, ast.BinOp):
                par = mod.parent.get(u)
                wrapped = isinstance(par, ast.Call) and u in par.args
                guards = dominating_guards(mod, u, stop=rfn)
                interval = any(pol and isinstance(t, ast.Call) and call_name(t) == "isinstance" and "AngleInterval" in norm(t.args[1]) for t, pol in guards)
                plus = isinstance(u.op, ast.Add)
                res.check("T6-WRAP", "%s: %s" % (qn, norm(u)), plus and (wrapped or interval), mod, u, "%s: %s" % (qn, norm(u)), "the rotated orientation is not brought back into the valid range (or is not th + angle)", qualname=qn)

    # ------------------------------------------------------------ T4: protocol over typed receivers
    for cls, fn in methods:
        fk = FnKey(cls, fn, cls.mod)
        qn = "%s.translate_rotate" % cls.name
        for n in walk_no_nested(fn):
            if isinstance(n, ast.Call) and isinstance(n.func, ast.Attribute) and n.func.attr == "translate_rotate" and not isinstance(n.func.value, ast.Name) or (
                isinstance(n, ast.Call) and isinstance(n.func, ast.Attribute) and n.func.attr == "translate_rotate" and isinstance(n.func.value, ast.Name) and n.func.value.id not in ("commonroad",)
            ):
                recv = n.func.value
                if norm(recv).endswith("transform"):
                    continue
                classes = eff.receiver_classes(fk, recv)
                concrete = []
                for c in classes:
                    for sc in repo.subclasses(c):
                        if sc not in concrete:
                            concrete.append(sc)
                for c in concrete:
                    o, f = repo.find_method(c, "translate_rotate")
                    is_abstract_cls = c.name in ("Shape", "Prediction", "Obstacle", "State")
                    ok = f is not None and (not is_abstract_body(f) or is_abstract_cls)
                    res.check(
                        "T4-PROTOCOL",
                        "%s: %s may be a %s" % (qn, norm(recv), c.name),
                        ok,
                        cls.mod,
                        n,
                        "%s: %s.translate_rotate on %s" % (qn, norm(recv), c.name),
                        "%s has no translate_rotate: transforming a container that holds one raises AttributeError" % c.name,
                        qualname=qn,
                    )

    # ------------------------------------------------------------ T5
    st = repo.cls("commonroad/scenario/state.py", "State")
    stf = st.methods.get("translate_rotate")
    if stf is None:
        raise AnalysisError("State.translate_rotate missing")
    assigned = {}
    for n in walk_no_nested(stf):
        if isinstance(n, ast.Assign):
            for t in n.targets:
                if isinstance(t, ast.Attribute) and isinstance(t.value, ast.Name) and t.value.id != "self":
                    assigned.setdefault(t.attr, []).append(n)
    if not {"position", "orientation"} <= set(assigned):
        raise AnalysisError("State.translate_rotate no longer assigns position/orientation on the copy (assigned: %s)" % sorted(assigned))

    def stored_only(a, site):
        """the assignment is guarded by `"a" in self.attributes|__dict__`, i.e. runs only when a is a stored field"""
        for t, pol in dominating_guards(st.mod, site, stop=stf):
            if pol and isinstance(t, ast.Compare) and isinstance(t.ops[0], ast.In) and isinstance(t.left, ast.Constant) and t.left.value == a and norm(t.comparators[0]) in ("self.attributes", "self.__dict__", "vars(self)"):
                return True
        return False

    for sc in repo.subclasses(st):
        for a in sorted(assigned):
            _c, p = repo.find_prop(sc, a)
            readonly = p is not None and "set" not in p
            ok = (not readonly) or all(stored_only(a, site) for site in assigned[a])
            res.check(
                "T5-ASSIGNABLE",
                "%s.%s assignable where State.translate_rotate assigns it" % (sc.name, a),
                ok,
                sc.mod,
                (p or {}).get("get") or sc.node,
                "%s.%s is a read-only property but State.translate_rotate assigns it" % (sc.name, a),
                "translate_rotate of a %s raises AttributeError" % sc.name,
                qualname="%s.%s" % (sc.name, a),
            )
            if readonly and a == "orientation":
                # the heading is derived: the class must rotate what it is derived from
                deps = {ch[1] for y in ast.walk(p["get"]) if isinstance(y, ast.Attribute) for ch in [attr_chain(y)] if ch and ch[0] == "self" and len(ch) == 2}
                own, f = repo.find_method(sc, "translate_rotate")
                rotated = set()
                if f is not None and f is not stf:
                    pv = Provenance(f)
                    an = [x.arg for x in f.args.args][2] if len(f.args.args) > 2 else None
                    for n in walk_no_nested(f):
                        if isinstance(n, ast.Assign):
                            for t in n.targets:
                                if isinstance(t, ast.Attribute) and t.attr in deps and an in pv.roots(n.value, n):
                                    txt = norm(n.value)
                                    if "cos(" in txt and "sin(" in txt:
                                        rotated.add(t.attr)
                res.check(
                    "T5-ASSIGNABLE",
                    "%s: derived heading, translate_rotate rotates %s" % (sc.name, sorted(deps)),
                    bool(deps) and rotated == deps,
                    sc.mod,
                    f if (f is not None and f is not stf) else sc.node,
                    "%s derives its orientation from %s but translate_rotate rotates only %s" % (sc.name, sorted(deps), sorted(rotated)),
                    "the heading of a %s does not turn by the angle when the state is transformed" % sc.name,
                    qualname="%s.translate_rotate" % sc.name,
                )
    return {"unresolved_calls": eff.unresolved[:30]}


def _same_branch(mod, a, b):
    return mod.parent.get(a) is mod.parent.get(b) and _field_of(mod, a) == _field_of(mod, b)


def _field_of(mod, st):
    p = mod.parent.get(st)
    for f in ("body", "orelse", "finalbody"):
        if st in getattr(p, f, []):
            return f
    return None

"""C05 — translate_rotate is the exact rigid motion on every object.

  T1 MATRIX     every 2x2 rotation block built in geometry/transform.py is (c, -s; s, c) with
                (c, s) = (cos x, sin x) of the angle parameter, or (1, 0) under `x == 0`
  T2 COVERAGE   each translate_rotate moves every spatial attribute of its class
  T3 FANOUT     nested translate_rotate / transform calls receive the method's own (translation, angle)
  T4 PROTOCOL   every class a translate_rotate is invoked on (typed receivers, e.g. the obstacle union
                of Scenario.obstacles) defines translate_rotate
  T5 ASSIGNABLE attributes assigned by State.translate_rotate are assignable in every State subclass
  T6 WRAP       `<orientation> + angle` is normalised (argument of a call) or is AngleInterval arithmetic
"""
import ast

from ..core import AnalysisError, Finding, attr_chain, call_name, dominating_guards, norm, walk_no_nested
from ..dataflow import ReachingDefs, Provenance
from ..effects import Effects, FnKey, type_names
from ..classfacts import ctor_model

TR = "commonroad/geometry/transform.py"

# (class, attribute): reason — spatial-looking attributes that are deliberately not moved
COVERAGE_EXCEPTIONS = {
    ("Obstacle", "_obstacle_shape"): "obstacle shapes are given in the local (vehicle) frame; the occupancy is placed by the state",
    ("StaticObstacle", "_obstacle_shape"): "local frame",
    ("DynamicObstacle", "_obstacle_shape"): "local frame",
    ("Obstacle", "_initial_occupancy_shape"): "derived from the initial state by its setter (freshness is C11)",
    ("StaticObstacle", "_initial_occupancy_shape"): "derived (C11)",
    ("DynamicObstacle", "_initial_occupancy_shape"): "derived (C11)",
    ("TrajectoryPrediction", "_shape"): "local frame; occupancies are derived from trajectory + shape (C11)",
    ("TrafficLight", "_shape"): "display rectangle of the light housing, never serialised; not among the components the property lists",
    ("DynamicObstacle", "history"): "past states are not among the components the property enumerates",
    ("Lanelet", "_polygon"): "derived from the boundaries and rebuilt (C11)",
    ("Lanelet", "_distance"): "arc lengths, invariant under a rigid motion",
    ("Lanelet", "_inner_distance"): "arc lengths, invariant under a rigid motion",
    ("LaneletNetwork", "_areas"): "areas are not among the components the property enumerates (Area has no translate_rotate)",
    ("LaneletNetwork", "_intersections"): "intersections hold ids only",
    ("LaneletNetwork", "_information"): "meta data",
    ("Polygon", "_min"): "derived by the constructor of the new polygon",
    ("Polygon", "_max"): "derived by the constructor of the new polygon",
    ("Polygon", "_shapely_polygon"): "derived by the constructor of the new polygon",
    ("Circle", "_shapely_circle"): "derived by the constructor of the new circle",
    ("Rectangle", "_vertices"): "derived lazily in the new rectangle",
    ("Rectangle", "__shapely_polygon"): "derived lazily in the new rectangle",
}

SPATIAL_NAMES = {"position", "center", "vertices", "orientation", "start", "end"}


PARENT_MOVED = {}


def spatial_classes(repo):
    """Classes that define (or inherit) a translate_rotate."""
    out = set()
    for m in repo.modules.values():
        for c in m.classes.values():
            o, f = repo.find_method(c, "translate_rotate")
            if f is not None:
                out.add(c.name)
    return out


def is_abstract_body(fn):
    body = [s for s in fn.body if not (isinstance(s, ast.Expr) and isinstance(s.value, ast.Constant))]
    return all(isinstance(s, ast.Pass) for s in body)


def transform_uses(mod, fn):
    """Expression nodes that apply the motion: calls whose arguments contain both motion parameters
    (translation, angle), `.dot(` on a matrix built from them, and `x + angle` sums."""
    params = [a.arg for a in fn.args.args][1:3]
    out = []
    if len(params) < 2:
        return out, params
    tr, an = params
    rd = ReachingDefs(fn)
    matrices = set()
    for n in walk_no_nested(fn):
        if isinstance(n, ast.Assign) and isinstance(n.value, ast.Call):
            names = {x.id for a in list(n.value.args) + [k.value for k in n.value.keywords] for x in ast.walk(a) if isinstance(x, ast.Name)}
            if tr in names and an in names and isinstance(n.targets[0], ast.Name):
                matrices.add(n.targets[0].id)
    for n in walk_no_nested(fn):
        if isinstance(n, ast.Call):
            names = {x.id for a in list(n.args) + [k.value for k in n.keywords] for x in ast.walk(a) if isinstance(x, ast.Name)}
            if tr in names and an in names:
                out.append(n)
            elif isinstance(n.func, ast.Attribute) and n.func.attr == "dot" and isinstance(n.func.value, ast.Name) and n.func.value.id in matrices:
                out.append(n)
        elif isinstance(n, ast.BinOp) and isinstance(n.op, ast.Add) and any(isinstance(x, ast.Name) and x.id == an for x in (n.left, n.right)):
            out.append(n)
    return out, params


def run(repo, res, tier):
    res.rule("T1-MATRIX", "rotation blocks are (cos x, -sin x; sin x, cos x) of the angle parameter (or the identity under x == 0)", 2)
    res.rule("T2-COVERAGE", "each translate_rotate moves every spatial attribute of its class", 25)
    res.rule("T3-FANOUT", "nested transform calls receive the method's own (translation, angle) unmodified", 25)
    res.rule("T4-PROTOCOL", "every class translate_rotate is invoked on defines it", 10)
    res.rule("T5-ASSIGNABLE", "attributes assigned by State.translate_rotate are plain (assignable) in every State subclass", 20)
    res.rule("T6-WRAP", "`orientation + angle` is normalised or AngleInterval arithmetic", 3)
    eff = Effects(repo)

    # ------------------------------------------------------------ T1
    tmod = repo.mod(TR)
    n_blocks = 0
    for fname, fn in tmod.functions.items():
        rd = ReachingDefs(fn)
        for n in walk_no_nested(fn):
            if not (isinstance(n, ast.List) and len(n.elts) >= 2 and all(isinstance(r, ast.List) and len(r.elts) >= 2 for r in n.elts[:2])):
                continue
            r0, r1 = n.elts[0].elts, n.elts[1].elts
            if not (isinstance(r0[1], ast.UnaryOp) and isinstance(r0[1].op, ast.USub)):
                continue  # not a rotation block (e.g. the translation matrix)
            c0, s0, s1, c1 = r0[0], r0[1].operand, r1[0], r1[1]
            n_blocks += 1
            inst = "%s: rotation block [[%s, -%s], [%s, %s]]" % (fname, norm(c0), norm(s0), norm(s1), norm(c1))
            shape_ok = norm(c0) == norm(c1) and norm(s0) == norm(s1)
            res.check("T1-MATRIX", inst + " has the form (c,-s;s,c)", shape_ok, tmod, n, inst, "the 2x2 block is not of the form (c, -s; s, c)", qualname=fname)
            if not shape_ok or not isinstance(c0, ast.Name) or not isinstance(s0, ast.Name):
                continue
            angle_params = [a.arg for a in fn.args.args if "angle" in a.arg]
            if len(angle_params) != 1:
                raise AnalysisError("%s: angle parameter not identified" % fname)
            ang = angle_params[0]
            cdefs = [d for d in rd.defs(c0.id, n)]
            sdefs = [d for d in rd.defs(s0.id, n)]
            # pair the definitions by the block (branch) they are made in
            for cd in cdefs:
                blk = tmod.parent.get(cd.stmt)
                mates = [sd for sd in sdefs if tmod.parent.get(sd.stmt) is blk and _same_branch(tmod, cd.stmt, sd.stmt)]
                if len(mates) != 1:
                    raise AnalysisError("%s: cannot pair the definitions of %s and %s" % (fname, c0.id, s0.id))
                sd = mates[0]
                ctext, stext = norm(cd.node), norm(sd.node)
                exact = ctext in ("math.cos(%s)" % ang, "np.cos(%s)" % ang, "numpy.cos(%s)" % ang) and stext in ("math.sin(%s)" % ang, "np.sin(%s)" % ang, "numpy.sin(%s)" % ang)
                ident = False
                if isinstance(cd.node, ast.Constant) and isinstance(sd.node, ast.Constant) and float(cd.node.value) == 1.0 and float(sd.node.value) == 0.0:
                    g = dominating_guards(tmod, cd.stmt, stop=fn)
                    ident = any(pol and norm(t) in ("%s == 0" % ang, "%s == 0.0" % ang, "0 == %s" % ang) for t, pol in g)
                res.check(
                    "T1-MATRIX",
                    "%s: (%s, %s) := (%s, %s)" % (fname, c0.id, s0.id, ctext, stext),
                    exact or ident,
                    tmod,
                    cd.stmt,
                    "%s: %s = %s, %s = %s" % (fname, c0.id, ctext, s0.id, stext),
                    "the rotation entries are not (cos, sin) of the angle: the matrix is not orthogonal, lengths and areas change (approximation branch)",
                    qualname=fname,
                )
    if n_blocks < 2:
        raise AnalysisError("fewer than 2 rotation blocks found in geometry/transform.py")
    # every value a matrix function returns contains its rotation block (no path that skips the rotation), except under
    # an exact `angle == 0` test
    for fname, fn in tmod.functions.items():
        blocks = [n for n in walk_no_nested(fn) if isinstance(n, ast.List) and len(n.elts) >= 2 and all(isinstance(r, ast.List) and len(r.elts) >= 2 for r in n.elts[:2]) and isinstance(n.elts[0].elts[1], ast.UnaryOp) and isinstance(n.elts[0].elts[1].op, ast.USub)]
        if not blocks:
            continue
        rd = ReachingDefs(fn)
        angle_params = [a.arg for a in fn.args.args if "angle" in a.arg]
        ang = angle_params[0] if angle_params else "angle"

        def uses_block(e, at, depth=0):
            if any(x is b for b in blocks for x in ast.walk(e)):
                return True
            if depth > 6:
                return False
            for nm in [x for x in ast.walk(e) if isinstance(x, ast.Name) and isinstance(x.ctx, ast.Load)]:
                ds = rd.defs(nm.id, at)
                if ds and all(d.kind == "assign" and d.node is not None and uses_block(d.node, d.stmt, depth + 1) for d in ds):
                    return True
            return False

        for r in walk_no_nested(fn):
            if not (isinstance(r, ast.Return) and r.value is not None):
                continue
            ok = uses_block(r.value, r)
            if not ok:
                g = dominating_guards(tmod, r, stop=fn)
                ok = any(pol and norm(t) in ("%s == 0" % ang, "%s == 0.0" % ang, "0 == %s" % ang) for t, pol in g)
            res.check("T1-MATRIX", "%s: returned matrix contains the rotation block" % fname, ok, tmod, r, "%s: %s" % (fname, norm(r)[:80]), "a matrix without the rotation is returned for some angles (not only for angle == 0 exactly): small rotations are dropped while orientations still change", qualname=fname)

    # ------------------------------------------------------------ T2 / T3 / T6 over every translate_rotate
    sp = spatial_classes(repo)
    methods = []
    for m in repo.modules.values():
        for c in m.classes.values():
            if "translate_rotate" in c.methods and not is_abstract_body(c.methods["translate_rotate"]):
                methods.append((c, c.methods["translate_rotate"]))
    methods.sort(key=lambda cf: len(repo.mro(cf[0])))
    PARENT_MOVED.clear()
    if len(methods) < 20:
        raise AnalysisError("only %d concrete translate_rotate methods found (21 confirmed)" % len(methods))
    for cls, fn in methods:
        mod = cls.mod
        fk = FnKey(cls, fn, mod)
        uses, params = transform_uses(mod, fn)
        qn = "%s.translate_rotate" % cls.name
        if len(params) < 2:
            raise AnalysisError("%s has no (translation, angle) parameters" % qn)
        tr, an = params
        # attributes mentioned (directly, via trivial getter, or through a local alias / loop variable) inside a transform use
        prov = Provenance(fn)
        moved = set()
        for u in uses:
            nodes = [u]
            if isinstance(u, ast.Call) and isinstance(u.func, ast.Attribute):
                nodes.append(u.func.value)
            for root in nodes:
                for x in ast.walk(root):
                    if isinstance(x, ast.Attribute):
                        ch = attr_chain(x)
                        if ch and ch[0] in ("self",) and len(ch) >= 2:
                            moved.add(ch[1])
                    elif isinstance(x, ast.Name) and isinstance(x.ctx, ast.Load) and x.id not in ("self", tr, an):
                        # follow the local to the self attributes it was read from
                        for d in prov.rd.defs(x.id, x):
                            if d.node is not None:
                                for y in ast.walk(d.node):
                                    ch = attr_chain(y) if isinstance(y, ast.Attribute) else None
                                    if ch and ch[0] == "self" and len(ch) >= 2:
                                        moved.add(ch[1])
                        if id(x) in prov.comp_bind:
                            for y in ast.walk(prov.comp_bind[id(x)]):
                                ch = attr_chain(y) if isinstance(y, ast.Attribute) else None
                                if ch and ch[0] == "self" and len(ch) >= 2:
                                    moved.add(ch[1])
        # getattr(self, "position") style
        for x in walk_no_nested(fn):
            if isinstance(x, ast.Call) and call_name(x) == "getattr" and len(x.args) >= 2 and norm(x.args[0]) == "self" and isinstance(x.args[1], ast.Constant):
                pass
        moved_norm = set()
        for a in moved:
            moved_norm.add(a.lstrip("_"))
            _c, p = repo.find_prop(cls, a)
            if p is not None and "get" in p:
                for y in ast.walk(p["get"]):
                    ch = attr_chain(y) if isinstance(y, ast.Attribute) else None
                    if ch and ch[0] == "self" and len(ch) == 2:
                        moved_norm.add(ch[1].lstrip("_"))
        # delegation to the parent implementation credits what the parent moves
        for u in uses:
            if isinstance(u, ast.Call) and isinstance(u.func, ast.Attribute) and u.func.attr == "translate_rotate" and isinstance(u.func.value, ast.Call) and call_name(u.func.value) == "super":
                for pc in repo.mro(cls)[1:]:
                    if "translate_rotate" in pc.methods:
                        moved_norm |= PARENT_MOVED.get(pc.name, set())
                        break
        PARENT_MOVED[cls.name] = set(moved_norm)
        # spatial attributes of the class
        users = [u for u in repo.subclasses(cls) if repo.find_method(u, "translate_rotate")[1] is fn]
        todo = []
        for u in users:
            cmu = ctor_model(repo, u)
            atu = eff.attr_types(u)
            for a in cmu.attributes():
                names = set(atu.get(a, set()) | atu.get(a.lstrip("_"), set()))
                fp = cmu.feeding_params(a) if cmu.fn is not None else set()
                if len(fp) == 1:
                    for pn, pann, _d in cmu.params:
                        if pn in fp and pann:
                            try:
                                names |= set(type_names(ast.parse(pann, mode="eval").body))
                            except SyntaxError:
                                pass
                if cmu.fn is None and a in cmu.fields:
                    names |= set(type_names(ast.parse(cmu.fields[a][0], mode="eval").body))
                key = (a, tuple(sorted(names)))
                if not any(t[1] == a for t in todo):
                    todo.append((u, a, eff.expand_aliases(names)))
        for u, a, names in todo:
            spatial = bool(names & sp) or "ndarray" in names or a.lstrip("_") in SPATIAL_NAMES
            if a.lstrip("_") in ("orientation",) and cls.name not in ("Rectangle",) and "State" not in [c.name for c in repo.mro(cls)]:
                spatial = spatial
            if not spatial:
                continue
            inst = "%s moves %s" % (qn, a)
            exc = COVERAGE_EXCEPTIONS.get((cls.name, a)) or COVERAGE_EXCEPTIONS.get((u.name, a))
            if exc:
                res.note("T2 exception %s.%s: %s" % (u.name, a, exc))
                continue
            res.check(
                "T2-COVERAGE",
                inst,
                a.lstrip("_") in moved_norm,
                mod,
                fn,
                "%s does not move %s" % (qn, a),
                "spatial attribute %s (declared %s) is not transformed: the object is torn apart by translate_rotate" % (a, sorted(names)[:4]),
                qualname=qn,
            )
        # T3: parameter pass-through
        for u in uses:
            if not isinstance(u, ast.Call):
                continue
            cn = norm(u.func)
            if not (cn.endswith("translate_rotate") or cn.endswith("translation_rotation_matrix") or cn.endswith("rotation_translation_matrix") or cn.endswith("rotate_translate")):
                continue
            args = [norm(a) for a in u.args] + ["%s=%s" % (k.arg, norm(k.value)) for k in u.keywords]
            tail = [a for a in args if a in (tr, an) or a.endswith("=" + tr) or a.endswith("=" + an)]
            ok = tail == [tr, an] or tail == ["translation=" + tr, "angle=" + an]
            # no arithmetic on the motion parameters anywhere in the arguments
            for a in list(u.args) + [k.value for k in u.keywords]:
                for x in ast.walk(a):
                    if isinstance(x, (ast.BinOp, ast.UnaryOp)) and any(isinstance(y, ast.Name) and y.id in (tr, an) for y in ast.walk(x)):
                        ok = False
            res.check("T3-FANOUT", "%s: %s(%s)" % (qn, cn, ", ".join(args)), ok, mod, u, "%s: %s(%s)" % (qn, cn, ", ".join(args)), "the nested transform does not receive (translation, angle) of the enclosing call unmodified, in this order", qualname=qn)
        # T6
        for u in uses:
            if isinstance(u, ast.BinOp):
                par = mod.parent.get(u)
                wrapped = isinstance(par, ast.Call) and u in par.args
                guards = dominating_guards(mod, u, stop=fn)
                interval = any(pol and isinstance(t, ast.Call) and call_name(t) == "isinstance" and "AngleInterval" in norm(t.args[1]) for t, pol in guards)
                plus = isinstance(u.op, ast.Add)
                res.check("T6-WRAP", "%s: %s" % (qn, norm(u)), plus and (wrapped or interval), mod, u, "%s: %s" % (qn, norm(u)), "the rotated orientation is not brought back into the valid range (or is not th + angle)", qualname=qn)

    # ------------------------------------------------------------ T4: protocol over typed receivers
    for cls, fn in methods:
        fk = FnKey(cls, fn, cls.mod)
        qn = "%s.translate_rotate" % cls.name
        for n in walk_no_nested(fn):
            if isinstance(n, ast.Call) and isinstance(n.func, ast.Attribute) and n.func.attr == "translate_rotate" and not isinstance(n.func.value, ast.Name) or (
                isinstance(n, ast.Call) and isinstance(n.func, ast.Attribute) and n.func.attr == "translate_rotate" and isinstance(n.func.value, ast.Name) and n.func.value.id not in ("commonroad",)
            ):
                recv = n.func.value
                if norm(recv).endswith("transform"):
                    continue
                classes = eff.receiver_classes(fk, recv)
                concrete = []
                for c in classes:
                    for sc in repo.subclasses(c):
                        if sc not in concrete:
                            concrete.append(sc)
                for c in concrete:
                    o, f = repo.find_method(c, "translate_rotate")
                    is_abstract_cls = c.name in ("Shape", "Prediction", "Obstacle", "State")
                    ok = f is not None and (not is_abstract_body(f) or is_abstract_cls)
                    res.check(
                        "T4-PROTOCOL",
                        "%s: %s may be a %s" % (qn, norm(recv), c.name),
                        ok,
                        cls.mod,
                        n,
                        "%s: %s.translate_rotate on %s" % (qn, norm(recv), c.name),
                        "%s has no translate_rotate: transforming a container that holds one raises AttributeError" % c.name,
                        qualname=qn,
                    )

    # ------------------------------------------------------------ T5
    st = repo.cls("commonroad/scenario/state.py", "State")
    stf = st.methods.get("translate_rotate")
    if stf is None:
        raise AnalysisError("State.translate_rotate missing")
    assigned = {}
    for n in walk_no_nested(stf):
        if isinstance(n, ast.Assign):
            for t in n.targets:
                if isinstance(t, ast.Attribute) and isinstance(t.value, ast.Name) and t.value.id != "self":
                    assigned.setdefault(t.attr, []).append(n)
    if not {"position", "orientation"} <= set(assigned):
        raise AnalysisError("State.translate_rotate no longer assigns position/orientation on the copy (assigned: %s)" % sorted(assigned))

    def stored_only(a, site):
        """the assignment is guarded by `"a" in self.attributes|__dict__`, i.e. runs only when a is a stored field"""
        for t, pol in dominating_guards(st.mod, site, stop=stf):
            if pol and isinstance(t, ast.Compare) and isinstance(t.ops[0], ast.In) and isinstance(t.left, ast.Constant) and t.left.value == a and norm(t.comparators[0]) in ("self.attributes", "self.__dict__", "vars(self)"):
                return True
        return False

    for sc in repo.subclasses(st):
        for a in sorted(assigned):
            _c, p = repo.find_prop(sc, a)
            readonly = p is not None and "set" not in p
            ok = (not readonly) or all(stored_only(a, site) for site in assigned[a])
            res.check(
                "T5-ASSIGNABLE",
                "%s.%s assignable where State.translate_rotate assigns it" % (sc.name, a),
                ok,
                sc.mod,
                (p or {}).get("get") or sc.node,
                "%s.%s is a read-only property but State.translate_rotate assigns it" % (sc.name, a),
                "translate_rotate of a %s raises AttributeError" % sc.name,
                qualname="%s.%s" % (sc.name, a),
            )
            if readonly and a == "orientation":
                # the heading is derived: the class must rotate what it is derived from
                deps = {ch[1] for y in ast.walk(p["get"]) if isinstance(y, ast.Attribute) for ch in [attr_chain(y)] if ch and ch[0] == "self" and len(ch) == 2}
                own, f = repo.find_method(sc, "translate_rotate")
                rotated = set()
                if f is not None and f is not stf:
                    pv = Provenance(f)
                    an = [x.arg for x in f.args.args][2] if len(f.args.args) > 2 else None
                    for n in walk_no_nested(f):
                        if isinstance(n, ast.Assign):
                            for t in n.targets:
                                if isinstance(t, ast.Attribute) and t.attr in deps and an in pv.roots(n.value, n):
                                    txt = norm(n.value)
                                    if "cos(" in txt and "sin(" in txt:
                                        rotated.add(t.attr)
                res.check(
                    "T5-ASSIGNABLE",
                    "%s: derived heading, translate_rotate rotates %s" % (sc.name, sorted(deps)),
                    bool(deps) and rotated == deps,
                    sc.mod,
                    f if (f is not None and f is not stf) else sc.node,
                    "%s derives its orientation from %s but translate_rotate rotates only %s" % (sc.name, sorted(deps), sorted(rotated)),
                    "the heading of a %s does not turn by the angle when the state is transformed" % sc.name,
                    qualname="%s.translate_rotate" % sc.name,
                )
    return {"unresolved_calls": eff.unresolved[:30]}


def _same_branch(mod, a, b):
    return mod.parent.get(a) is mod.parent.get(b) and _field_of(mod, a) == _field_of(mod, b)


def _field_of(mod, st):
    p = mod.parent.get(st)
    for f in ("body", "orelse", "finalbody"):
        if st in getattr(p, f, []):
            return f
    return None

"""C12 — equality and hashing follow their contract (engine E-EQHASH).

Decided clauses (necessary conditions, all read off the code of every __eq__/__hash__):
  EQ-A  every ==/!= in an __eq__ confronts a value derived from `self` with one derived from
        `other` on every reaching definition (self/self or other/other never distinguishes)
  EQ-B  every constructor-visible attribute of every class using that __eq__ is compared
  EQ-C  __hash__ reads only attributes __eq__ compares; a class with __hash__ has an __eq__
  EQ-D  __hash__ is total: no constructor-nullable attribute is iterated / dereferenced without
        a dominating None test, no element of the hashed tuple has an unhashable declared type
  EQ-E  id sets — and the views of a mapping — are not turned into sequences (list()/tuple()) before being compared
  EQ-I  ordered sequences of objects are not reduced to sets (set()/frozenset()/sorted()) before being compared
  EQ-J  an attribute compared in rounded / formatted form by __eq__ is rounded for __hash__ as well
"""
import ast

from ..core import AnalysisError, Finding, attr_chain, call_name, dominating_guards, guard_says_not_none, norm, walk_no_nested
from ..dataflow import Provenance, ReachingDefs
from ..classfacts import ann_container_kinds, ctor_model, params_of

# Constructor parameters that are legitimately not part of equality (one line of reason each).
EQ_COVERAGE_EXCEPTIONS = {
    # (class, param): reason
}

ROUNDERS = {"np.around", "np.round", "np.round_", "numpy.around", "numpy.round", "round", "np.array2string", "np.format_float_positional", "np.floor", "np.rint", "math.floor"}
ITER_CALLS = {"frozenset", "tuple", "set", "list", "sorted", "iter", "len", "sum", "min", "max", "dict", "enumerate", "zip"}


def strip(name):
    return name.lstrip("_")


def eq_classes(repo):
    out = []
    for m in repo.modules.values():
        for c in m.classes.values():
            if "__eq__" in c.methods or "__hash__" in c.methods:
                out.append(c)
    return sorted(out, key=lambda c: (c.mod.rel, c.node.lineno))


def generic_attr_loop(fn, who="other"):
    """True if the function compares/hashes via `for a in self.attributes|X.__slots__: getattr(<who>, a)`."""
    for n in walk_no_nested(fn):
        if isinstance(n, ast.For) and isinstance(n.target, ast.Name):
            it = norm(n.iter)
            if it.endswith(".attributes") or it.endswith(".__slots__") or "dataclasses.fields" in it:
                v = n.target.id
                for c in ast.walk(n):
                    if isinstance(c, ast.Call) and call_name(c) == "getattr" and len(c.args) >= 2 and norm(c.args[0]) == who and norm(c.args[1]) == v:
                        return True
    return False


def names_on(fn, who):
    """Attribute names read on parameter `who` (other.x / other._x / getattr(other, 'x'))."""
    out = set()
    for n in walk_no_nested(fn):
        if isinstance(n, ast.Attribute) and isinstance(n.value, ast.Name) and n.value.id == who:
            out.add(n.attr)
        elif isinstance(n, ast.Call) and call_name(n) == "getattr" and len(n.args) >= 2 and norm(n.args[0]) == who and isinstance(n.args[1], ast.Constant):
            out.add(str(n.args[1].value))
    return out


def parent_calls(repo, cls, fn, dunder):
    """Classes whose `dunder` is explicitly called from fn (P.__eq__(self, other) / super().__eq__(other))."""
    out = []
    for n in walk_no_nested(fn):
        if isinstance(n, ast.Call) and isinstance(n.func, ast.Attribute) and n.func.attr == dunder:
            recv = n.func.value
            if isinstance(recv, ast.Call) and call_name(recv) == "super":
                for c in repo.mro(cls)[1:]:
                    if dunder in c.methods:
                        out.append(c)
                        break
            else:
                pc = repo.resolve_class(cls.mod, norm(recv))
                if pc is not None and dunder in pc.methods:
                    out.append(pc)
    return out


def covered_names(repo, cls, dunder, who, seen=None):
    """(set of stripped attribute names read on `who`, generic?) including explicitly called parents."""
    seen = seen or set()
    if id(cls) in seen or dunder not in cls.methods:
        return set(), False
    seen.add(id(cls))
    fn = cls.methods[dunder]
    names = {strip(x) for x in names_on(fn, who)}
    for x in list(names_on(fn, who)):
        t = trivial_getter_attr(repo, cls, x)  # other.goal -> _goal_region
        if t is not None:
            names.add(strip(t))
    generic = generic_attr_loop(fn, who)
    for pc in parent_calls(repo, cls, fn, dunder):
        n2, g2 = covered_names(repo, pc, dunder, who, seen)
        names |= n2
        generic = generic or g2
    return names, generic


def trivial_getter_attr(repo, cls, prop):
    """If property `prop` of cls is `return self._x`, return '_x'."""
    _c, p = repo.find_prop(cls, prop)
    if p is None or "get" not in p:
        return None
    body = [s for s in p["get"].body if not (isinstance(s, ast.Expr) and isinstance(s.value, ast.Constant))]
    if len(body) == 1 and isinstance(body[0], ast.Return) and body[0].value is not None:
        ch = attr_chain(body[0].value)
        if ch and len(ch) == 2 and ch[0] == "self":
            return ch[1]
    return None


def getter_annotation(repo, cls, prop):
    _c, p = repo.find_prop(cls, prop)
    if p is None or "get" not in p or p["get"].returns is None:
        return None
    return norm(p["get"].returns)


def declared_kinds(repo, cls, attr_or_prop):
    """Container kinds the declared type of self.<name> admits (property return, ctor parameter annotation)."""
    kinds = set()
    ann = getter_annotation(repo, cls, attr_or_prop)
    if ann:
        kinds |= ann_container_kinds(ann)
    priv = trivial_getter_attr(repo, cls, attr_or_prop) or attr_or_prop
    pub = strip(priv)
    ann2 = getter_annotation(repo, cls, pub)
    if ann2:
        kinds |= ann_container_kinds(ann2)
    cm = ctor_model(repo, cls)
    feeding = cm.feeding_params(priv) if priv in cm.attributes() else set()
    for pn, pann, _d in cm.params:
        if pn in feeding and len(feeding) == 1 and pann:
            kinds |= ann_container_kinds(pann)
    return kinds


def declared_annotations(repo, cls, attr_or_prop):
    """texts of the declared types of self.<name>: property return and the constructor parameter feeding it"""
    out = []
    priv = trivial_getter_attr(repo, cls, attr_or_prop) or attr_or_prop
    for nm in (attr_or_prop, strip(priv)):
        a = getter_annotation(repo, cls, nm)
        if a:
            out.append(a)
    cm = ctor_model(repo, cls)
    feeding = cm.feeding_params(priv) if priv in cm.attributes() else set()
    for pn, pann, _d in cm.params:
        if pn in feeding and len(feeding) == 1 and pann:
            out.append(pann)
    return out


def sequence_of_objects(ann):
    """True if the annotation is a list / tuple / sequence whose elements are objects (not ids, names or numbers)"""
    try:
        t = ast.parse(ann.strip("'\""), mode="eval").body
    except SyntaxError:
        return False
    for n in ast.walk(t):
        if isinstance(n, ast.Subscript) and norm(n.value).split(".")[-1] in ("List", "list", "Sequence", "Tuple", "tuple"):
            elems = n.slice.elts if isinstance(n.slice, ast.Tuple) else [n.slice]
            for e in elems:
                names = {norm(x).split(".")[-1].strip("'\"") for x in ast.walk(e) if isinstance(x, (ast.Name, ast.Attribute, ast.Constant)) and not (isinstance(x, ast.Constant) and not isinstance(x.value, str))}
                if names and not names & {"int", "str", "float", "bool", "Ellipsis", "None", "Optional", "Union"}:
                    return True
    return False


def users_of(repo, owner, dunder):
    """Concrete classes whose `dunder` resolves (through the MRO) to owner's."""
    out = []
    for c in repo.subclasses(owner):
        oc, _f = repo.find_method(c, dunder)
        if oc is owner:
            out.append(c)
    return out


TOLERANT = ("allclose", "isclose", "assert_allclose", "assert_almost_equal", "assert_array_almost_equal", "approx")


def tolerant_comparisons(repo, cls, eq, depth=0, seen=None):
    """[(node, text)] of tolerance-based comparisons reachable from __eq__ through helpers of the class / module"""
    seen = seen if seen is not None else set()
    out = []
    if id(eq) in seen or depth > 3:
        return out
    seen.add(id(eq))
    for n in walk_no_nested(eq):
        if isinstance(n, ast.Call):
            f = n.func
            nm = f.attr if isinstance(f, ast.Attribute) else (f.id if isinstance(f, ast.Name) else None)
            if nm in TOLERANT:
                out.append((n, norm(n)[:100]))
                continue
            callee = None
            if isinstance(f, ast.Attribute) and isinstance(f.value, ast.Name) and f.value.id in ("self", "cls", cls.name):
                callee = repo.find_method(cls, f.attr)[1]
            elif isinstance(f, ast.Name) and f.id in cls.mod.functions:
                callee = cls.mod.functions[f.id]
            if callee is not None:
                out += tolerant_comparisons(repo, cls, callee, depth + 1, seen)
        if isinstance(n, ast.Compare) and len(n.ops) == 1 and isinstance(n.ops[0], (ast.Lt, ast.LtE)):
            l = n.left
            if isinstance(l, ast.Call) and norm(l.func) in ("abs", "np.abs", "math.fabs", "np.linalg.norm", "np.max", "np.amax") and l.args and any(isinstance(x, ast.BinOp) and isinstance(x.op, ast.Sub) for x in ast.walk(l.args[0])):
                out.append((n, norm(n)[:100]))
    return out


def run(repo, res, tier):
    res.rule("EQ-A", "each ==/!= in __eq__ confronts a self-derived with an other-derived value on every reaching definition", 60)
    res.rule("EQ-B", "every constructor parameter feeds an attribute that __eq__ compares (per class using the __eq__)", 100)
    res.rule("EQ-C", "__hash__ reads a subset of what __eq__ compares; __hash__ implies __eq__", 30)
    res.rule("EQ-D", "__hash__ total: nullable attributes guarded, hashed elements hashable by declared type", 100)
    res.rule("EQ-E", "set-typed attributes are not converted to sequences before comparison", 10)
    res.rule("EQ-I", "ordered sequences of objects are not reduced to sets before comparison", 2)
    res.rule("EQ-J", "attributes rounded for equality are rounded for the hash", 1)
    res.rule("EQ-K", "both sides of a comparison in __eq__ are computed alike", 10)
    res.rule("EQ-F", "element-wise matching of a collection of self against other's is two-sided (sizes compared)", 2)
    res.rule("EQ-G", "__hash__ is order-insensitive wherever __eq__ is", 3)
    res.rule("EQ-H", "__eq__ compares exactly (on the same canonical form __hash__ uses): no tolerance-based comparison", 30)

    classes = eq_classes(repo)
    if len(classes) < 35:
        raise AnalysisError("only %d classes with __eq__/__hash__ found (39 confirmed by hand)" % len(classes))

    for cls in classes:
        mod = cls.mod
        eq = cls.methods.get("__eq__")
        hs = cls.methods.get("__hash__")
        cname = cls.name

        # ---------------- EQ-H: a tolerance is not an equivalence (and cannot agree with any hash of the value)
        if eq is not None:
            tol = tolerant_comparisons(repo, cls, eq)
            res.check("EQ-H", "%s.__eq__ compares exactly" % cname, not tol, mod, tol[0][0] if tol else eq, "%s.__eq__: %s" % (cname, tol[0][1] if tol else ""), "values closer than a tolerance compare equal: with a relative tolerance objects that differ by far more than 1e-10 are equal, and objects that are equal get different hashes (the hash is computed from the exact / rounded value)", qualname="%s.__eq__" % cname)
        # ---------------- EQ-J: where __eq__ compares a rounded / formatted form of an attribute, __hash__ hashes a
        # rounded form of it too (values within the rounding are equal, so their hashes must agree)
        if eq is not None and hs is not None:
            def rounded(fn):
                me_ = fn.args.args[0].arg
                out = {}
                for n in walk_no_nested(fn):
                    if isinstance(n, ast.Call) and (norm(n.func) in ROUNDERS or (isinstance(n.func, ast.Attribute) and n.func.attr == "round" and not isinstance(n.func.value, ast.Name))):
                        for x in ast.walk(n):
                            ch = attr_chain(x) if isinstance(x, ast.Attribute) else None
                            if ch and len(ch) == 2 and ch[0] == me_:
                                out.setdefault(strip(ch[1]), n)
                    if isinstance(n, ast.JoinedStr) or (isinstance(n, ast.BinOp) and isinstance(n.op, ast.Mod) and isinstance(n.left, ast.Constant) and isinstance(n.left.value, str)):
                        for x in ast.walk(n):
                            ch = attr_chain(x) if isinstance(x, ast.Attribute) else None
                            if ch and len(ch) == 2 and ch[0] == me_:
                                out.setdefault(strip(ch[1]), n)
                return out

            r_eq, r_hs = rounded(eq), rounded(hs)
            read_hs = {strip(a) for a in names_on(hs, hs.args.args[0].arg)}
            for a in sorted(r_eq):
                if a in read_hs:
                    res.check("EQ-J", "%s: %s is rounded for equality and for the hash" % (cname, a), a in r_hs, mod, hs, "%s.__hash__ hashes %s as it is while __eq__ compares its rounded form" % (cname, a), "two objects whose values differ by less than the rounding are equal but hash differently", qualname="%s.__hash__" % cname)
        # ---------------- EQ-A
        if eq is not None:
            ps = [a.arg for a in eq.args.args]
            if len(ps) != 2:
                raise AnalysisError("%s.__eq__ has an unexpected signature" % cname)
            me, ot = ps
            prov = Provenance(eq)
            for n in walk_no_nested(eq):
                if not isinstance(n, ast.Compare):
                    continue
                operands = [n.left] + list(n.comparators)
                for i, op in enumerate(n.ops):
                    if not isinstance(op, (ast.Eq, ast.NotEq)):
                        continue
                    L, R = operands[i], operands[i + 1]
                    if isinstance(L, ast.Constant) or isinstance(R, ast.Constant):
                        continue
                    dl = prov.def_root_sets(L)
                    dr = prov.def_root_sets(R)
                    verdict = True
                    witness = None
                    relevant = False
                    for _d1, r1 in dl:
                        for _d2, r2 in dr:
                            u = (r1 | r2) & {me, ot}
                            if not u:
                                continue
                            relevant = True
                            if u != {me, ot}:
                                verdict = False
                                witness = (sorted(r1 & {me, ot}), sorted(r2 & {me, ot}))
                    if not relevant:
                        continue
                    cons = "%s %s %s" % (norm(L), "==" if isinstance(op, ast.Eq) else "!=", norm(R))
                    res.check(
                        "EQ-A",
                        "%s.__eq__: %s" % (cname, cons),
                        verdict,
                        mod,
                        n,
                        cons,
                        "comparison does not confront self with other: a reaching definition pair derives from %s only"
                        % (witness,),
                    )

        # ---------------- EQ-K: both sides of a comparison are brought into the same form.  Where the compared values are
        # computed from self.x and other.x (rounded, formatted, converted), the two computations are the same up to
        # self / other: a conversion applied on one side only makes x == x (or x == copy(x)) fail for some values.
        if eq is not None:
            from ..core import canon as _canon
            import re as _re

            me_, ot_ = eq.args.args[0].arg, eq.args.args[1].arg
            rd_ = ReachingDefs(eq)

            def shape(e, at):
                t = _canon(e, rd_, at, [me_, ot_])
                t = _re.sub(r"\b(%s|%s)\._?([A-Za-z_][A-Za-z0-9_]*)" % (_re.escape(me_), _re.escape(ot_)), lambda m_: "OBJ__." + m_.group(2).lstrip("_"), t)
                return t

            for n in walk_no_nested(eq):
                if not (isinstance(n, ast.Compare) and len(n.ops) == 1 and isinstance(n.ops[0], (ast.Eq, ast.NotEq))):
                    continue
                L, R = n.left, n.comparators[0]
                st_ = n
                while st_ is not None and not isinstance(st_, ast.stmt):
                    st_ = mod.parent.get(st_)
                try:
                    a_, b_ = shape(L, st_), shape(R, st_)
                except Exception:
                    continue
                if "OBJ__." not in a_ or "OBJ__." not in b_ or not any(isinstance(x, ast.Call) for x in ast.walk(ast.parse(a_, mode="eval"))) and not any(isinstance(x, ast.Call) for x in ast.walk(ast.parse(b_, mode="eval"))):
                    continue
                res.check("EQ-K", "%s.__eq__: %s and %s are computed alike" % (cname, norm(L)[:40], norm(R)[:40]), a_ == b_, mod, n, "%s.__eq__: %s vs %s" % (cname, a_[:90], b_[:90]), "the two sides of the comparison are brought into different forms (a conversion / rounding on one side only): an object can be unequal to itself or to its copy", qualname="%s.__eq__" % cname)
        # ---------------- EQ-B (per class whose equality resolves to this __eq__)
        if eq is not None:
            other_name = eq.args.args[1].arg
            names, generic = covered_names(repo, cls, "__eq__", other_name)
            # the self side counts as well for names (self._x == other.x uses both spellings)
            names_self, _g = covered_names(repo, cls, "__eq__", eq.args.args[0].arg)
            both = names & names_self if names_self else names
            for user in users_of(repo, cls, "__eq__"):
                cm = ctor_model(repo, user)
                if cm.kwargs_ctor:
                    res.note("EQ-B: %s has a **kwargs constructor; attributes are dynamic (covered by the generic loop: %s)" % (user.name, generic))
                    if not generic:
                        res.bad("EQ-B", "%s(**kwargs)" % user.name, Finding("EQ-B", mod, eq, "%s.__eq__ without generic attribute loop" % cname, "dynamic attributes of %s are not compared" % user.name))
                    else:
                        res.ok("EQ-B", "%s(**kwargs) via generic loop" % user.name)
                    continue
                pa = cm.param_attrs()
                for pn, _ann, _d in cm.params:
                    inst = "%s(%s) in %s.__eq__" % (user.name, pn, cname)
                    if (user.name, pn) in EQ_COVERAGE_EXCEPTIONS:
                        res.note("EQ-B exception %s: %s" % (inst, EQ_COVERAGE_EXCEPTIONS[(user.name, pn)]))
                        continue
                    attrs = pa.get(pn, set()) if cm.fn is not None else {pn}
                    if not attrs:
                        res.note("EQ-B: constructor parameter %s.%s feeds no attribute (not stored)" % (user.name, pn))
                        continue
                    ok = generic or any(strip(a) in both for a in attrs)
                    res.check(
                        "EQ-B",
                        inst,
                        ok,
                        mod,
                        eq,
                        "%s.__eq__ ignores %s" % (cname, "/".join(sorted(attrs))),
                        "constructor parameter %s of %s is stored in %s but never compared: two objects differing only there are equal"
                        % (pn, user.name, sorted(attrs)),
                    )

        # ---------------- EQ-C
        if hs is not None:
            eq_owner, eq_fn = repo.find_method(cls, "__eq__")
            inst = "%s.__hash__" % cname
            if eq_fn is None:
                res.bad(
                    "EQ-C",
                    inst,
                    Finding("EQ-C", mod, hs, "%s defines __hash__ without __eq__" % cname, "equality is identity: x != deepcopy(x) although hashes agree"),
                )
            else:
                hnames, hgeneric = covered_names(repo, cls, "__hash__", hs.args.args[0].arg)
                enames, egeneric = covered_names(repo, eq_owner, "__eq__", eq_fn.args.args[0].arg)
                enames |= covered_names(repo, eq_owner, "__eq__", eq_fn.args.args[1].arg)[0]
                if hgeneric or egeneric:
                    res.check("EQ-C", inst + " (generic)", (not hgeneric) or egeneric, mod, hs, "%s.__hash__ generic, __eq__ not" % cname, "hash loops over all attributes but equality does not")
                else:
                    for hn in sorted(hnames):
                        if hn.startswith("__") or not _is_data_attr(repo, cls, hn):
                            continue
                        res.check(
                            "EQ-C",
                            "%s reads %s" % (inst, hn),
                            hn in enames,
                            mod,
                            hs,
                            "%s.__hash__ reads %s" % (cname, hn),
                            "attribute %s feeds the hash but not the equality: equal objects may hash differently" % hn,
                        )

        # ---------------- EQ-D
        if hs is not None:
            _hash_totality(repo, res, cls, hs)

        # ---------------- EQ-F: one-directional matching needs a size comparison (or the reverse direction)
        if eq is not None:
            me, ot = [a.arg for a in eq.args.args]
            prov = Provenance(eq)

            def side(e):
                r = set()
                for _d, rs in prov.def_root_sets(e):
                    r |= rs & {me, ot}
                return r

            directional = []
            for n in ast.walk(eq):
                its = []
                if isinstance(n, ast.For):
                    its = [(n.iter, n)]
                elif isinstance(n, (ast.GeneratorExp, ast.ListComp, ast.SetComp)):
                    its = [(g.iter, n) for g in n.generators]
                for it, scope in its:
                    s_it = side(it)
                    if len(s_it) != 1:
                        continue
                    # does the scope look things up in a collection of the other side?
                    oth = (ot if s_it == {me} else me)
                    uses_other = False
                    for x in ast.walk(scope):
                        if x is it:
                            continue
                        if isinstance(x, (ast.Compare, ast.Subscript, ast.Call)) and not any(y is x for y in ast.walk(it)):
                            sx = side(x) if isinstance(x, ast.Compare) else set()
                            if isinstance(x, ast.Compare) and any(isinstance(o, (ast.In, ast.NotIn)) for o in x.ops) and oth in (side(x.comparators[0]) | set()):
                                uses_other = True
                    if uses_other:
                        directional.append((it, scope, s_it))
            if directional:
                sized = False
                for n in ast.walk(eq):
                    if isinstance(n, ast.Compare) and len(n.ops) >= 2 and all(isinstance(o, ast.Eq) for o in n.ops):
                        # a chain len(a) == len(b) == ..: every neighbouring pair is an equation of its own
                        terms = [n.left] + list(n.comparators)
                        lens = [t for t in terms if isinstance(t, ast.Call) and call_name(t) == "len" and t.args]
                        sides_ = set()
                        for t in lens:
                            sides_ |= side(t.args[0])
                        if sides_ >= {me, ot}:
                            sized = True
                    if isinstance(n, ast.Compare) and len(n.ops) == 1 and isinstance(n.ops[0], (ast.Eq, ast.NotEq)):
                        L, R = n.left, n.comparators[0]
                        if isinstance(L, ast.Call) and isinstance(R, ast.Call) and call_name(L) == "len" and call_name(R) == "len" and side(L.args[0]) | side(R.args[0]) == {me, ot}:
                            sized = True
                        # key-set / set equality of both collections is two-sided as well
                        if isinstance(L, ast.Call) and isinstance(R, ast.Call) and call_name(L) in ("set", "frozenset", "sorted") and call_name(R) == call_name(L) and side(L) | side(R) == {me, ot}:
                            sized = True
                both = {frozenset(sd) for _i, _s, sd in directional}
                two_way = frozenset({me}) in both and frozenset({ot}) in both
                for it, scope, sd in directional[:1]:
                    res.check("EQ-F", "%s.__eq__: matching over %s is two-sided" % (cname, norm(it)), sized or two_way, mod, scope, "%s.__eq__ matches the elements of %s against the other object's without comparing sizes" % (cname, norm(it)), "every element of one side has a partner, but the other side may have more: a == b can hold while b == a does not (equality is not symmetric)")

        # ---------------- EQ-G: order sensitivity of the hash vs. equality
        if eq is not None and hs is not None:
            me_e = eq.args.args[0].arg
            me_h = hs.args.args[0].arg

            def attrs_in(fn, selfname, wrappers):
                out = set()
                for n in ast.walk(fn):
                    if isinstance(n, ast.Call) and call_name(n) in wrappers and n.args:
                        for x in ast.walk(n.args[0]):
                            ch = attr_chain(x) if isinstance(x, ast.Attribute) else None
                            if ch and len(ch) == 2 and ch[0] == selfname:
                                out.add(strip(ch[1]))
                return out

            unordered_eq = attrs_in(eq, me_e, ("set", "frozenset", "sorted"))
            ordered_hash = attrs_in(hs, me_h, ("tuple", "list")) - attrs_in(hs, me_h, ("set", "frozenset", "sorted"))
            for a in sorted(unordered_eq):
                res.check("EQ-G", "%s: %s compared without order, hashed without order" % (cname, a), a not in ordered_hash, mod, hs, "%s.__hash__ hashes %s as an ordered sequence while __eq__ compares it as a set" % (cname, a), "two objects that differ only in the order of this collection are equal but hash differently")

        # ---------------- EQ-E
        if eq is not None:
            for n in walk_no_nested(eq):
                if isinstance(n, ast.Call) and call_name(n) in ("list", "tuple") and len(n.args) == 1 and isinstance(n.args[0], ast.Call) and isinstance(n.args[0].func, ast.Attribute) and n.args[0].func.attr in ("values", "keys", "items") and not n.args[0].args:
                    # the view of a mapping turned into a sequence: its order is the insertion order of the mapping
                    ch = attr_chain(n.args[0].func.value)
                    if ch and ch[0] in (eq.args.args[0].arg, eq.args.args[1].arg):
                        res.check("EQ-E", "%s.__eq__: %s" % (cname, norm(n)), False, mod, n, norm(n), "the entries of a mapping are compared as a sequence: two objects holding the same entries inserted in a different order compare unequal (and hash equal)")
                elif isinstance(n, ast.Call) and call_name(n) in ("list", "tuple") and len(n.args) == 1:
                    ch = attr_chain(n.args[0])
                    if ch and len(ch) == 2 and ch[0] in (eq.args.args[0].arg, eq.args.args[1].arg):
                        kinds = declared_kinds(repo, cls, ch[1])
                        inst = "%s.__eq__: %s" % (cname, norm(n))
                        res.check(
                            "EQ-E",
                            inst,
                            "set" not in kinds,
                            mod,
                            n,
                            norm(n),
                            "a set-typed attribute is turned into a sequence before comparison: equality depends on insertion order",
                        )
                elif isinstance(n, ast.Call) and call_name(n) in ("set", "frozenset", "sorted") and len(n.args) == 1:
                    res.ok("EQ-E", "%s.__eq__: %s" % (cname, norm(n)))
                    # the dual: an ordered sequence of objects (a cycle, a state list) loses order and multiplicity
                    ch = attr_chain(n.args[0])
                    if ch and len(ch) == 2 and ch[0] in (eq.args.args[0].arg, eq.args.args[1].arg):
                        anns = declared_annotations(repo, cls, ch[1])
                        kinds = declared_kinds(repo, cls, ch[1])
                        ordered = bool(anns) and "set" not in kinds and all(sequence_of_objects(a) for a in anns)
                        res.check("EQ-I", "%s.__eq__: %s keeps what distinguishes the declared type" % (cname, norm(n)), not ordered, mod, n, "%s.__eq__: %s" % (cname, norm(n)), "an ordered sequence of objects is compared as a set: two objects whose sequences differ in order or multiplicity compare equal although a constructor-visible attribute differs")


def _is_data_attr(repo, cls, name):
    """name (stripped) denotes data of the object: a ctor-fed attribute or a property, not a method."""
    return all(repo.find_method(cls, n)[1] is None for n in (name, "_" + name, "__" + name))


def _self_attr_expr(node, me):
    """node is self.X -> X else None"""
    if isinstance(node, ast.Attribute) and isinstance(node.value, ast.Name) and node.value.id == me:
        return node.attr
    return None


def _hash_totality(repo, res, cls, hs):
    mod = cls.mod
    me = hs.args.args[0].arg
    cname = cls.name
    users = users_of(repo, cls, "__hash__")
    if not users:
        users = [cls]

    def nullable_in(attr_or_prop):
        """user classes in which self.<attr_or_prop> can be None after construction."""
        bad = []
        for u in users:
            priv = attr_or_prop
            if not attr_or_prop.startswith("_"):
                t = trivial_getter_attr(repo, u, attr_or_prop)
                if t is not None:
                    priv = t
                else:
                    _c, p = repo.find_prop(u, attr_or_prop)
                    if p is not None:
                        continue  # computed property: not decided here
            cm = ctor_model(repo, u)
            if cm.kwargs_ctor:
                continue
            if priv in cm.attributes() and cm.nullable(priv):
                bad.append(u.name)
        return bad

    # (1) dereference / iteration of nullable attributes
    for n in walk_no_nested(hs):
        attr = _self_attr_expr(n, me)
        if attr is None:
            continue
        parent = mod.parent.get(n)
        use = None
        if isinstance(parent, ast.Call) and n in parent.args and call_name(parent) in ITER_CALLS:
            use = "%s(%s)" % (call_name(parent), norm(n))
        elif isinstance(parent, ast.Attribute) and parent.value is n:
            use = norm(parent)
        elif isinstance(parent, ast.Subscript) and parent.value is n:
            use = norm(parent)
        elif isinstance(parent, (ast.For, ast.comprehension)) and parent.iter is n:
            use = "for .. in %s" % norm(n)
        elif isinstance(parent, ast.Starred):
            use = "*%s" % norm(n)
        if use is None:
            continue
        inst = "%s.__hash__: %s" % (cname, use)
        bad = nullable_in(attr)
        guards = dominating_guards(mod, n)
        guarded = guard_says_not_none(guards, norm(n))
        if not guarded and not attr.startswith("_"):
            t = trivial_getter_attr(repo, cls, attr)
            if t is not None:
                guarded = guard_says_not_none(guards, "%s.%s" % (me, t))
        elif not guarded:
            guarded = guard_says_not_none(guards, "%s.%s" % (me, attr.lstrip("_")))
        res.check(
            "EQ-D",
            inst,
            (not bad) or guarded,
            mod,
            n,
            use,
            "attribute may be None after construction of %s (default argument) and is dereferenced/iterated without a None test: hash() raises TypeError/AttributeError"
            % ",".join(bad),
        )

    # (2) hashability of the elements handed to hash()
    for n in walk_no_nested(hs):
        if not (isinstance(n, ast.Call) and call_name(n) == "hash" and len(n.args) == 1):
            continue
        arg = n.args[0]
        elts = arg.elts if isinstance(arg, ast.Tuple) else [arg]
        rd = ReachingDefs(hs)
        for e in elts:
            exprs = [e]
            if isinstance(e, ast.Name):
                exprs = [d.node for d in rd.defs(e.id, n) if d.kind == "assign" and d.node is not None] or [e]
            for x in exprs:
                for leaf, lguards in _leaves(x):
                    inst = "%s.__hash__: element %s" % (cname, norm(leaf))
                    problem = None
                    if isinstance(leaf, ast.Call) and isinstance(leaf.func, ast.Attribute) and leaf.func.attr in ("items", "keys", "values") and not leaf.args:
                        problem = "a dict view (%s) is unhashable" % leaf.func.attr
                    elif isinstance(leaf, (ast.List, ast.Set, ast.Dict, ast.ListComp, ast.SetComp, ast.DictComp)):
                        problem = "a list/set/dict display is unhashable"
                    elif isinstance(leaf, ast.Call) and call_name(leaf) in ("list", "set", "dict"):
                        problem = "%s(..) is unhashable" % call_name(leaf)
                    else:
                        attr = _self_attr_expr(leaf, me)
                        if attr is not None:
                            kinds = set()
                            for u in users:
                                kinds |= declared_kinds(repo, u, attr)
                            bad = (kinds & {"list", "set", "dict", "ndarray"}) - _excluded_kinds(leaf, lguards)
                            if bad:
                                problem = "declared type admits %s, which is unhashable" % "/".join(sorted(bad))
                    res.check("EQ-D", inst, problem is None, mod, leaf, "hash element %s" % norm(leaf), "hash() raises TypeError: %s" % problem)


def _leaves(x, guards=()):
    """Value alternatives of an element expression (branches of conditional expressions), each with
    the (test, polarity) pairs under which it is the value."""
    if isinstance(x, ast.IfExp):
        return _leaves(x.body, guards + ((x.test, True),)) + _leaves(x.orelse, guards + ((x.test, False),))
    return [(x, guards)]


def _excluded_kinds(leaf, guards):
    """Container kinds ruled out for `leaf` by `not isinstance(leaf, list)`-style guards."""
    out = set()
    for t, pol in guards:
        if not pol and isinstance(t, ast.Call) and call_name(t) == "isinstance" and len(t.args) == 2 and norm(t.args[0]) == norm(leaf):
            for n in ast.walk(t.args[1]):
                if isinstance(n, ast.Name) and n.id in ("list", "set", "dict", "List", "Set", "Dict"):
                    out.add(n.id.lower())
                elif isinstance(n, ast.Attribute) and n.attr == "ndarray":
                    out.add("ndarray")
    return out

"""C10 decided by abstract evaluation: no dangling references after a removal / clean-up in a lanelet network.

World: a real LaneletNetwork object (constructor evaluated) with three lanelets, two traffic signs, two traffic
lights and one intersection, densely cross-referenced (predecessor / successor / adjacent ids, sign and light ids on
lanelets and stop lines, incoming / successor / crossing ids of the intersection), plus references to ids that do not
exist (as after a cut-out).  The removal and clean-up methods of the network are evaluated over the AST; afterwards

    DANGLING   no reference anywhere names an id that is not in the network, and
    KEPT       every reference to an id that still exists is still there

whatever the code that got there looks like (shared helpers with getattr / setattr, try / except, early returns).
"""
from ..core import AnalysisError
from ..strdom import NONE, ClassRef, DictV, Ev, ListV, Obj, SetV, Undecided, _Raise, show

LA = "commonroad/scenario/lanelet.py"
CL = "commonroad/common/common_lanelet.py"
IN = "commonroad/scenario/intersection.py"
TS = "commonroad/scenario/traffic_sign.py"
TL = "commonroad/scenario/traffic_light.py"
GHOST = 99  # an id that exists nowhere


def geometry(label):
    g = Obj(None, {}, closed=True, label=label)
    g.ext_types = {"Polygon", "ShapelyPolygon"}
    return g


class World:
    def __init__(self, repo, ghosts=True):
        self.repo = repo
        G = [GHOST] if ghosts else []
        ev = self.ev = Ev(repo)
        ev.pure_modules = {"shapely", "np", "numpy", "math"}
        ev.instantiate = {"LaneletNetwork"}
        net_cls = repo.cls(LA, "LaneletNetwork")
        self.net_cls = net_cls
        n = self.net = ev.apply(ClassRef(net_cls), [], {}, net_cls.node, net_cls.mod)
        if not isinstance(n, Obj):
            raise AnalysisError("LaneletNetwork() could not be evaluated")
        lan, sl = repo.cls(LA, "Lanelet"), repo.cls(CL, "StopLine")

        def lanelet(k, pred, succ, adj_l, adj_r, signs, lights, stop=None):
            g = geometry("geometry of lanelet %d" % k)
            f = {"_lanelet_id": k, "_predecessor": ListV(pred), "_successor": ListV(succ), "_adj_left": adj_l, "_adj_left_same_direction": None if adj_l is None else True, "_adj_right": adj_r, "_adj_right_same_direction": None if adj_r is None else False, "_traffic_signs": SetV(signs), "_traffic_lights": SetV(lights), "_polygon": Obj(None, {"shapely_object": g}, closed=True), "_stop_line": NONE}
            f = {a: (NONE if v is None else v) for a, v in f.items()}
            if stop is not None:
                f["_stop_line"] = Obj(sl, {"_traffic_sign_ref": NONE if stop[0] is None else SetV(stop[0]), "_traffic_light_ref": NONE if stop[1] is None else SetV(stop[1])}, label="stop line of lanelet %d" % k)
            return Obj(lan, f, label="lanelet %d" % k)

        self.lanelets = {1: lanelet(1, list(G), [2, 3], 2, None, [5, 6], [7], ([5] + G, [7, 8])), 2: lanelet(2, [1], [3] + G, None, 1, [5], [8] + G, (None, [8])), 3: lanelet(3, [1, 2], [], 2, GHOST if ghosts else 2, [6] + G, [], None)}
        for k, l in self.lanelets.items():
            n.fields["_lanelets"].d[k] = l
            n.fields["_buffered_polygons"].d[k] = l.fields["_polygon"].fields["shapely_object"]
        for k in (5, 6):
            n.fields["_traffic_signs"].d[k] = Obj(repo.cls(TS, "TrafficSign"), {"_traffic_sign_id": k, "_first_occurrence": SetV([1])}, label="traffic sign %d" % k)
        for k in (7, 8):
            n.fields["_traffic_lights"].d[k] = Obj(repo.cls(TL, "TrafficLight"), {"_traffic_light_id": k}, label="traffic light %d" % k)
        inc_cls, int_cls = repo.cls(IN, "IntersectionIncomingElement"), repo.cls(IN, "Intersection")
        self.incomings = [Obj(inc_cls, {"_incoming_id": 41, "_incoming_lanelets": SetV([1]), "_successors_right": SetV([2]), "_successors_straight": SetV([3] + G), "_successors_left": SetV([]), "_left_of": NONE}, label="incoming 41"), Obj(inc_cls, {"_incoming_id": 42, "_incoming_lanelets": SetV([3]), "_successors_right": SetV([]), "_successors_straight": SetV([1]), "_successors_left": SetV([2, 3]), "_left_of": 41}, label="incoming 42")]
        self.intersection = Obj(int_cls, {"_intersection_id": 40, "_incomings": ListV(self.incomings), "_crossings": SetV([2, 3] + G)}, label="intersection 40")
        n.fields["_intersections"].d[40] = self.intersection
        n.label = "network"

    def refs(self):
        """{(kind of id, holder description): [ids]} of every reference in the world"""
        out = {}

        def ids(v):
            if isinstance(v, ListV):
                return [x for x in v.items]
            return [] if v is NONE or v is None else [v]

        for k, l in self.lanelets.items():
            if k not in self.net.fields["_lanelets"].d:
                continue
            f = l.fields
            for a in ("_predecessor", "_successor", "_adj_left", "_adj_right"):
                out[("lanelet", "lanelet %d.%s" % (k, a[1:]))] = ids(f[a])
            out[("sign", "lanelet %d.traffic_signs" % k)] = ids(f["_traffic_signs"])
            out[("light", "lanelet %d.traffic_lights" % k)] = ids(f["_traffic_lights"])
            sl = f["_stop_line"]
            if isinstance(sl, Obj):
                out[("sign", "stop line of lanelet %d.traffic_sign_ref" % k)] = ids(sl.fields["_traffic_sign_ref"])
                out[("light", "stop line of lanelet %d.traffic_light_ref" % k)] = ids(sl.fields["_traffic_light_ref"])
        if 40 in self.net.fields["_intersections"].d:
            for inc in self.incomings:
                for a in ("_incoming_lanelets", "_successors_right", "_successors_straight", "_successors_left"):
                    out[("lanelet", "%s.%s" % (inc.label, a[1:]))] = ids(inc.fields[a])
            out[("lanelet", "intersection 40.crossings")] = ids(self.intersection.fields["_crossings"])
        return out

    def existing(self):
        f = self.net.fields
        return {"lanelet": set(f["_lanelets"].d), "sign": set(f["_traffic_signs"].d), "light": set(f["_traffic_lights"].d)}

    def call(self, name, args, kwargs=None):
        fn = self.repo.find_method(self.net_cls, name)[1]
        if fn is None:
            raise AnalysisError("LaneletNetwork.%s missing" % name)
        return self.ev.call_fn(self.ev.bind(fn, self.net_cls, self.net), args, kwargs or {}, fn), fn


def judge(w, before, kinds):
    """dangling / lost references among the given kinds of id"""
    bad = []
    ex = w.existing()
    after = w.refs()
    for (kind, holder), ids in sorted(after.items()):
        if kind not in kinds:
            continue
        dang = sorted(set(i for i in ids if isinstance(i, int)) - ex[kind])
        if dang:
            bad.append("%s still names %s" % (holder, dang))
        odd = [i for i in ids if not isinstance(i, int)]
        if odd:
            bad.append("%s holds %s" % (holder, show(odd[0])))
    if "lanelet" in kinds:
        for k, l in w.lanelets.items():
            if k in w.net.fields["_lanelets"].d:
                for side in ("left", "right"):
                    adj, flag = l.fields["_adj_%s" % side], l.fields["_adj_%s_same_direction" % side]
                    if (adj is NONE) != (flag is NONE):
                        bad.append("lanelet %d: adjacent %s is %s but its direction flag is %s" % (k, side, show(adj), show(flag)))
    for (kind, holder), ids in sorted(before.items()):
        if kind not in kinds or (kind, holder) not in after:
            continue
        lost = sorted((set(ids) & ex[kind]) - set(after[(kind, holder)]))
        if lost:
            bad.append("%s lost its reference to %s, which still exists" % (holder, lost))
    return bad


def reference_rules(repo, res):
    net_cls = repo.cls(LA, "LaneletNetwork")

    def run(rule, name, label, prepare, kinds, check=None, kwargs=None):
        w = World(repo, ghosts=(rule == "REF-CLEAN"))
        fn = repo.find_method(net_cls, name)[1]
        if fn is None:
            raise AnalysisError("LaneletNetwork.%s missing" % name)
        qn = "LaneletNetwork.%s" % name
        try:
            before = w.refs()
            args = prepare(w)
            w.call(name, args, kwargs)
            bad = judge(w, before, kinds)
            if check is not None:
                bad += check(w)
        except _Raise as x:
            bad = ["raises %s" % x.what]
        except Undecided as x:
            raise AnalysisError("%s [%s]: %s" % (qn, label, x))
        res.check(rule, "%s [%s]: no dangling reference, no lost reference" % (qn, label), not bad, net_cls.mod, fn, "%s [%s]: %s" % (qn, label, "; ".join(bad[:3])), "after the operation an object still refers to an id that is not in the network (or a reference to an object that is still there was dropped)", qualname=qn)

    run("REF-CLEAN", "cleanup_lanelet_references", "network with references to a lanelet id that does not exist", lambda w: [], {"lanelet"})
    run("REF-CLEAN", "cleanup_traffic_sign_references", "network with references to a sign id that does not exist", lambda w: [], {"sign"})
    run("REF-CLEAN", "cleanup_traffic_light_references", "network with references to a light id that does not exist", lambda w: [], {"light"})
    for k in (1, 2, 3):
        run("REF-AFTER", "remove_lanelet", "lanelet %d, referenced by lanelets and by the intersection" % k, lambda w, k=k: [k], {"lanelet"}, lambda w, k=k: ["the lanelet is still in the network"] if k in w.net.fields["_lanelets"].d else [])
    for k in (1, 2):
        run("REF-AFTER", "remove_lanelet", "lanelet %d, index rebuild deferred" % k, lambda w, k=k: [k], {"lanelet"}, lambda w, k=k: ["the lanelet is still in the network"] if k in w.net.fields["_lanelets"].d else [], kwargs={"rtree": False})
    run("REF-AFTER", "remove_lanelet", "id that is not in the network", lambda w: [77], set(), lambda w: [] if set(w.net.fields["_lanelets"].d) == {1, 2, 3} else ["lanelets %s" % sorted(w.net.fields["_lanelets"].d)])
    for k in (5, 6):
        run("REF-AFTER", "remove_traffic_sign", "sign %d, referenced by lanelets and a stop line" % k, lambda w, k=k: [k], {"sign"} if k == 5 else {"sign"}, lambda w, k=k: ["the sign is still in the network"] if k in w.net.fields["_traffic_signs"].d else [])
    for k in (7, 8):
        run("REF-AFTER", "remove_traffic_light", "light %d, referenced by lanelets and stop lines" % k, lambda w, k=k: [k], {"light"}, lambda w, k=k: ["the light is still in the network"] if k in w.net.fields["_traffic_lights"].d else [])
    run("REF-AFTER", "remove_traffic_sign", "id that is not in the network", lambda w: [77], set(), lambda w: [] if set(w.net.fields["_traffic_signs"].d) == {5, 6} else ["signs %s" % sorted(w.net.fields["_traffic_signs"].d)])
    run("REF-AFTER", "remove_intersection", "the intersection", lambda w: [40], set(), lambda w: ["the intersection is still in the network"] if 40 in w.net.fields["_intersections"].d else [])

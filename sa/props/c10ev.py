"""C10 decided by abstract evaluation: no dangling references after a removal / clean-up in a lanelet network.

World: a real LaneletNetwork object (constructor evaluated) with three lanelets, two traffic signs, two traffic
lights and one intersection, densely cross-referenced (predecessor / successor / adjacent ids, sign and light ids on
lanelets and stop lines, incoming / successor / crossing ids of the intersection), plus references to ids that do not
exist (as after a cut-out).  The removal and clean-up methods of the network are evaluated over the AST; afterwards

    DANGLING   no reference anywhere names an id that is not in the network, and
    KEPT       every reference to an id that still exists is still there

whatever the code that got there looks like (shared helpers with getattr / setattr, try / except, early returns).
"""
from ..core import AnalysisError
from ..strdom import NONE, ClassRef, DictV, Ev, ListV, Obj, SetV, Undecided, _Raise, show

LA = "commonroad/scenario/lanelet.py"
CL = "commonroad/common/common_lanelet.py"
IN = "commonroad/scenario/intersection.py"
TS = "commonroad/scenario/traffic_sign.py"
TL = "commonroad/scenario/traffic_light.py"
GHOST = 99  # an id that exists nowhere
GHOST2 = 98  # another one (two dangling ids next to each other in one list: an in-place clean-up must not skip the second)


def geometry(label):
    g = Obj(None, {}, closed=True, label=label)
    g.ext_types = {"Polygon", "ShapelyPolygon"}
    return g


class World:
    def __init__(self, repo, ghosts=True):
        self.repo = repo
        G = [GHOST, GHOST2] if ghosts else []
        ev = self.ev = Ev(repo)
        ev.pure_modules = {"shapely", "np", "numpy", "math"}
        ev.instantiate = {"LaneletNetwork"}
        net_cls = repo.cls(LA, "LaneletNetwork")
        self.net_cls = net_cls
        n = self.net = ev.apply(ClassRef(net_cls), [], {}, net_cls.node, net_cls.mod)
        if not isinstance(n, Obj):
            raise AnalysisError("LaneletNetwork() could not be evaluated")
        lan, sl = repo.cls(LA, "Lanelet"), repo.cls(CL, "StopLine")

        def lanelet(k, pred, succ, adj_l, adj_r, signs, lights, stop=None):
            g = geometry("geometry of lanelet %d" % k)
            f = {"_lanelet_id": k, "_predecessor": ListV(pred), "_successor": ListV(succ), "_adj_left": adj_l, "_adj_left_same_direction": None if adj_l is None else True, "_adj_right": adj_r, "_adj_right_same_direction": None if adj_r is None else False, "_traffic_signs": SetV(signs), "_traffic_lights": SetV(lights), "_polygon": Obj(None, {"shapely_object": g}, closed=True), "_stop_line": NONE}
            f = {a: (NONE if v is None else v) for a, v in f.items()}
            if stop is not None:
                f["_stop_line"] = Obj(sl, {"_traffic_sign_ref": NONE if stop[0] is None else SetV(stop[0]), "_traffic_light_ref": NONE if stop[1] is None else SetV(stop[1])}, label="stop line of lanelet %d" % k)
            return Obj(lan, f, label="lanelet %d" % k)

        self.lanelets = {1: lanelet(1, list(G), [2, 3], 2, None, [5, 6], [7], ([5] + G, [7, 8])), 2: lanelet(2, [1], [3] + G, None, 1, [5], [8] + G, (None, [8])), 3: lanelet(3, [1, 2], [], 2, GHOST if ghosts else 2, [6] + G, [7], None)}
        for k, l in self.lanelets.items():
            n.fields["_lanelets"].d[k] = l
            n.fields["_buffered_polygons"].d[k] = l.fields["_polygon"].fields["shapely_object"]
        for k in (5, 6):
            n.fields["_traffic_signs"].d[k] = Obj(repo.cls(TS, "TrafficSign"), {"_traffic_sign_id": k, "_first_occurrence": SetV([1])}, label="traffic sign %d" % k)
        for k in (7, 8):
            n.fields["_traffic_lights"].d[k] = Obj(repo.cls(TL, "TrafficLight"), {"_traffic_light_id": k}, label="traffic light %d" % k)
        inc_cls, int_cls = repo.cls(IN, "IntersectionIncomingElement"), repo.cls(IN, "Intersection")
        self.incomings = [Obj(inc_cls, {"_incoming_id": 41, "_incoming_lanelets": SetV([1]), "_successors_right": SetV([2]), "_successors_straight": SetV([3] + G), "_successors_left": SetV([]), "_left_of": NONE}, label="incoming 41"), Obj(inc_cls, {"_incoming_id": 42, "_incoming_lanelets": SetV([3]), "_successors_right": SetV([]), "_successors_straight": SetV([1]), "_successors_left": SetV([2, 3]), "_left_of": 41}, label="incoming 42")]
        self.intersection = Obj(int_cls, {"_intersection_id": 40, "_incomings": ListV(self.incomings), "_crossings": SetV([2, 3] + G)}, label="intersection 40")
        n.fields["_intersections"].d[40] = self.intersection
        # a second intersection with other crossings (what belongs to one intersection must not reach the other)
        self.incomings2 = [Obj(inc_cls, {"_incoming_id": 51, "_incoming_lanelets": SetV([2]), "_successors_right": SetV([]), "_successors_straight": SetV([3]), "_successors_left": SetV([1]), "_left_of": NONE}, label="incoming 51")]
        self.intersection2 = Obj(int_cls, {"_intersection_id": 50, "_incomings": ListV(self.incomings2), "_crossings": SetV([1])}, label="intersection 50")
        n.fields["_intersections"].d[50] = self.intersection2
        self.intersections = {40: (self.intersection, self.incomings), 50: (self.intersection2, self.incomings2)}
        n.label = "network"

    def refs(self):
        """{(kind of id, holder description): [ids]} of every reference in the world"""
        out = {}

        def ids(v):
            if isinstance(v, ListV):
                return [x for x in v.items]
            return [] if v is NONE or v is None else [v]

        for k, l in self.lanelets.items():
            if k not in self.net.fields["_lanelets"].d:
                continue
            f = l.fields
            for a in ("_predecessor", "_successor", "_adj_left", "_adj_right"):
                out[("lanelet", "lanelet %d.%s" % (k, a[1:]))] = ids(f[a])
            out[("sign", "lanelet %d.traffic_signs" % k)] = ids(f["_traffic_signs"])
            out[("light", "lanelet %d.traffic_lights" % k)] = ids(f["_traffic_lights"])
            sl = f["_stop_line"]
            if isinstance(sl, Obj):
                out[("sign", "stop line of lanelet %d.traffic_sign_ref" % k)] = ids(sl.fields["_traffic_sign_ref"])
                out[("light", "stop line of lanelet %d.traffic_light_ref" % k)] = ids(sl.fields["_traffic_light_ref"])
        for iid, (inter, incs) in self.intersections.items():
            if iid in self.net.fields["_intersections"].d:
                for inc in incs:
                    for a in ("_incoming_lanelets", "_successors_right", "_successors_straight", "_successors_left"):
                        out[("lanelet", "%s.%s" % (inc.label, a[1:]))] = ids(inc.fields[a])
                out[("lanelet", "intersection %d.crossings" % iid)] = ids(inter.fields["_crossings"])
        return out

    def existing(self):
        f = self.net.fields
        return {"lanelet": set(f["_lanelets"].d), "sign": set(f["_traffic_signs"].d), "light": set(f["_traffic_lights"].d)}

    def call(self, name, args, kwargs=None):
        fn = self.repo.find_method(self.net_cls, name)[1]
        if fn is None:
            raise AnalysisError("LaneletNetwork.%s missing" % name)
        return self.ev.call_fn(self.ev.bind(fn, self.net_cls, self.net), args, kwargs or {}, fn), fn


def judge(w, before, kinds):
    """dangling / lost references among the given kinds of id"""
    bad = []
    ex = w.existing()
    after = w.refs()
    for (kind, holder), ids in sorted(after.items()):
        if kind not in kinds:
            continue
        dang = sorted(set(i for i in ids if isinstance(i, int)) - ex[kind])
        if dang:
            bad.append("%s still names %s" % (holder, dang))
        odd = [i for i in ids if not isinstance(i, int)]
        if odd:
            bad.append("%s holds %s" % (holder, show(odd[0])))
    if "lanelet" in kinds:
        for k, l in w.lanelets.items():
            if k in w.net.fields["_lanelets"].d:
                for side in ("left", "right"):
                    adj, flag = l.fields["_adj_%s" % side], l.fields["_adj_%s_same_direction" % side]
                    if (adj is NONE) != (flag is NONE):
                        bad.append("lanelet %d: adjacent %s is %s but its direction flag is %s" % (k, side, show(adj), show(flag)))
    for (kind, holder), ids in sorted(before.items()):
        if kind not in kinds or (kind, holder) not in after:
            continue
        lost = sorted((set(ids) & ex[kind]) - set(after[(kind, holder)]))
        if lost:
            bad.append("%s lost its reference to %s, which still exists" % (holder, lost))
    return bad


def reference_rules(repo, res):
    net_cls = repo.cls(LA, "LaneletNetwork")

    def run(rule, name, label, prepare, kinds, check=None, kwargs=None):
        w = World(repo, ghosts=(rule == "REF-CLEAN"))
        fn = repo.find_method(net_cls, name)[1]
        if fn is None:
            raise AnalysisError("LaneletNetwork.%s missing" % name)
        qn = "LaneletNetwork.%s" % name
        try:
            before = w.refs()
            args = prepare(w)
            w.call(name, args, kwargs)
            bad = judge(w, before, kinds)
            if check is not None:
                bad += check(w)
        except _Raise as x:
            bad = ["raises %s" % x.what]
        except Undecided as x:
            raise AnalysisError("%s [%s]: %s" % (qn, label, x))
        res.check(rule, "%s [%s]: no dangling reference, no lost reference" % (qn, label), not bad, net_cls.mod, fn, "%s [%s]: %s" % (qn, label, "; ".join(bad[:3])), "after the operation an object still refers to an id that is not in the network (or a reference to an object that is still there was dropped)", qualname=qn)

    run("REF-CLEAN", "cleanup_lanelet_references", "network with references to a lanelet id that does not exist", lambda w: [], {"lanelet"})
    run("REF-CLEAN", "cleanup_traffic_sign_references", "network with references to a sign id that does not exist", lambda w: [], {"sign"})
    run("REF-CLEAN", "cleanup_traffic_light_references", "network with references to a light id that does not exist", lambda w: [], {"light"})
    for k in (1, 2, 3):
        run("REF-AFTER", "remove_lanelet", "lanelet %d, referenced by lanelets and by the intersection" % k, lambda w, k=k: [k], {"lanelet"}, lambda w, k=k: ["the lanelet is still in the network"] if k in w.net.fields["_lanelets"].d else [])
    for k in (1, 2):
        run("REF-AFTER", "remove_lanelet", "lanelet %d, index rebuild deferred" % k, lambda w, k=k: [k], {"lanelet"}, lambda w, k=k: ["the lanelet is still in the network"] if k in w.net.fields["_lanelets"].d else [], kwargs={"rtree": False})
    run("REF-AFTER", "remove_lanelet", "id that is not in the network", lambda w: [77], set(), lambda w: [] if set(w.net.fields["_lanelets"].d) == {1, 2, 3} else ["lanelets %s" % sorted(w.net.fields["_lanelets"].d)])
    for k in (5, 6):
        run("REF-AFTER", "remove_traffic_sign", "sign %d, referenced by lanelets and a stop line" % k, lambda w, k=k: [k], {"sign"} if k == 5 else {"sign"}, lambda w, k=k: ["the sign is still in the network"] if k in w.net.fields["_traffic_signs"].d else [])
    for k in (7, 8):
        run("REF-AFTER", "remove_traffic_light", "light %d, referenced by lanelets and stop lines" % k, lambda w, k=k: [k], {"light"}, lambda w, k=k: ["the light is still in the network"] if k in w.net.fields["_traffic_lights"].d else [])
    run("REF-AFTER", "remove_traffic_sign", "id that is not in the network", lambda w: [77], set(), lambda w: [] if set(w.net.fields["_traffic_signs"].d) == {5, 6} else ["signs %s" % sorted(w.net.fields["_traffic_signs"].d)])
    run("REF-AFTER", "remove_intersection", "the intersection", lambda w: [40], set(), lambda w: ["the intersection is still in the network"] if 40 in w.net.fields["_intersections"].d else [])


def hanging_rules(repo, res, RULE="REF-HANG"):
    """Scenario.remove_hanging_lanelet_members(removed lanelets): the signs and lights handed to the scenario's removal
    functions are exactly those referenced by a removed lanelet and by no remaining one — evaluated on the world above
    (lanelet 1: signs 5, 6, light 7; lanelet 2: sign 5, light 8; lanelet 3: sign 6, light 7)."""
    SC = "commonroad/scenario/scenario.py"
    sc = repo.cls(SC, "Scenario")
    fn = sc.methods.get("remove_hanging_lanelet_members")
    if fn is None:
        raise AnalysisError("Scenario.remove_hanging_lanelet_members missing")
    qn = "Scenario.remove_hanging_lanelet_members"
    cases = [([1], [], []), ([2], [], [8]), ([3], [], []), ([1, 2], [5], [8]), ([1, 3], [6], [7]), ([1, 2, 3], [5, 6], [7, 8])]
    for removed, want_signs, want_lights in cases:
        w = World(repo, ghosts=False)
        calls = {"sign": [], "light": []}
        ev = w.ev
        ev.stubs["Scenario.remove_traffic_sign"] = lambda a: (calls["sign"].append(a.get("traffic_sign")), NONE)[1]
        ev.stubs["Scenario.remove_traffic_light"] = lambda a: (calls["light"].append(a.get("traffic_light")), NONE)[1]
        me = Obj(sc, {"_lanelet_network": w.net}, label="scenario")
        label = "removing lanelet%s %s" % ("s" if len(removed) > 1 else "", ", ".join(map(str, removed)))
        bad = []
        try:
            ev.call_fn(ev.bind(fn, sc, me), [ListV([w.lanelets[k] for k in removed])], {}, fn)
            for kind, want, table, idf in (("sign", want_signs, "_traffic_signs", "_traffic_sign_id"), ("light", want_lights, "_traffic_lights", "_traffic_light_id")):
                got = []
                for a in calls[kind]:
                    items = a.items if isinstance(a, ListV) else [a]
                    for x in items:
                        if isinstance(x, Obj) and idf in x.fields and w.net.fields[table].d.get(x.fields[idf]) is x:
                            got.append(x.fields[idf])
                        else:
                            bad.append("hands %s to the %s removal" % (show(x), kind))
                if sorted(got) != want:
                    bad.append("removes the %ss %s; referenced by the removed and by no remaining lanelet are %s" % (kind, sorted(got), want))
        except _Raise as x:
            bad.append("raises %s" % x.what)
        except Undecided as x:
            raise AnalysisError("%s [%s]: %s" % (qn, label, x))
        res.check(RULE, "%s [%s]: exactly the signs and lights no remaining lanelet references go" % (qn, label), not bad, sc.mod, fn, "%s [%s]: %s" % (qn, label, "; ".join(bad[:2])), "signs / lights are removed although a remaining lanelet still references them, or hanging ones are kept", qualname=qn)


def cut_out_rules(repo, res, RULE="REF-CUT"):
    """LaneletNetwork.create_from_lanelet_network(network, shape / excluded types): evaluated on the world above; the
    new network holds copies of exactly the selected lanelets, the signs and lights those reference, intersections
    restricted to them, and no reference to anything that was cut away; the source network is as before."""
    from ..strdom import EnumMember, PyFunc

    net_cls = repo.cls(LA, "LaneletNetwork")
    fn = net_cls.methods.get("create_from_lanelet_network")
    if fn is None:
        raise AnalysisError("LaneletNetwork.create_from_lanelet_network missing")
    qn = "LaneletNetwork.create_from_lanelet_network"
    lt = repo.cls(CL, "LaneletType")
    members = list(lt.enum_members())
    if len(members) < 3:
        raise AnalysisError("LaneletType has fewer than 3 members")

    def member(i):
        return EnumMember(lt, members[i], Str_lit(members[i]))

    from ..strdom import Str

    def Str_lit(x):
        return Str.lit(x)

    types = {1: [0], 2: [1], 3: [0, 2]}
    # (label, excluded type indices, lanelets the shape touches or None, kept lanelets)
    cases = [
        ("nothing cut away", [], None, {1, 2, 3}),
        ("lanelets of one type excluded", [1], None, {1, 3}),
        ("a shape that touches lanelets 2 and 3", [], {2, 3}, {2, 3}),
        ("a shape that touches lanelets 1 and 2, one type excluded", [2], {1, 2, 3}, {1, 2}),
        ("only lanelet 3 left", [1], {2, 3}, {3}),
        # without the final clean-up the lanelets keep their relations as they were (that is what the switch asks for);
        # the intersections are rebuilt by the function itself and must name selected lanelets only
        ("lanelets of one type excluded, clean-up switched off", [1], None, {1, 3}),
        ("a shape that touches lanelets 2 and 3, clean-up switched off", [], {2, 3}, {2, 3}),
    ]
    for label, excl, touched, kept in cases:
        cleanup = "switched off" not in label
        w = World(repo, ghosts=False)
        ev = w.ev
        ev.instantiate = {"LaneletNetwork", "Intersection", "IntersectionIncomingElement"}
        ev.assume_valid = True
        for k, l in w.lanelets.items():
            l.fields["_lanelet_type"] = SetV([member(i) for i in types[k]])
            l.fields["_adjacent_areas"] = SetV([])
        shape = NONE
        if touched is not None:
            geos = {id(w.lanelets[k].fields["_polygon"].fields["shapely_object"]): k for k in w.lanelets}
            sg = geometry("geometry of the cut-out shape")

            def intersects(a, kw, geos=geos, touched=touched):
                g = a[0]
                if id(g) not in geos:
                    raise Undecided("the cut-out shape is compared with %s" % show(g))
                return geos[id(g)] in touched

            sg.fields["intersects"] = PyFunc(intersects, "intersects")
            for k, l in w.lanelets.items():
                g = l.fields["_polygon"].fields["shapely_object"]
                g.fields["intersects"] = PyFunc(lambda a, kw, k=k, sg=sg, touched=touched: (k in touched) if a[0] is sg else (_ for _ in ()).throw(Undecided("lanelet geometry compared with %s" % show(a[0]))), "intersects")
            shape = Obj(None, {"shapely_object": sg}, closed=True, label="cut-out shape")
        before = w.refs()
        src_ids = {t: set(w.net.fields[t].d) for t in ("_lanelets", "_traffic_signs", "_traffic_lights", "_intersections")}
        bad = []
        try:
            new = ev.call_fn(ev.bind(fn, net_cls, None, via_class=ClassRef(net_cls)), [w.net, shape, SetV([member(i) for i in excl])], {} if cleanup else {"cleanup_ids": False}, fn)
            if not isinstance(new, Obj) or "_lanelets" not in new.fields:
                raise Undecided("result is %s" % show(new))
            f = new.fields
            got = set(f["_lanelets"].d)
            if got != kept:
                bad.append("the new network holds lanelets %s, selected are %s" % (sorted(got), sorted(kept)))
            for k, l in f["_lanelets"].d.items():
                if l is w.lanelets.get(k):
                    bad.append("lanelet %s of the new network is the source network's object, not a copy" % k)
            want_signs = set().union(*[set(w.lanelets[k].fields["_traffic_signs"].items) for k in kept]) if kept else set()
            want_lights = set().union(*[set(w.lanelets[k].fields["_traffic_lights"].items) for k in kept]) if kept else set()
            if set(f["_traffic_signs"].d) != want_signs:
                bad.append("signs %s copied, the selected lanelets reference %s" % (sorted(f["_traffic_signs"].d), sorted(want_signs)))
            if set(f["_traffic_lights"].d) != want_lights:
                bad.append("lights %s copied, the selected lanelets reference %s" % (sorted(f["_traffic_lights"].d), sorted(want_lights)))
            # references inside the new network
            for k, l in f["_lanelets"].d.items() if cleanup else []:
                for a in ("_predecessor", "_successor"):
                    dang = sorted(set(x for x in l.fields[a].items if isinstance(x, int)) - got)
                    want = sorted(set(w.lanelets[k].fields[a].items) & kept)
                    if dang:
                        bad.append("lanelet %s.%s still names %s" % (k, a[1:], dang))
                    elif sorted(l.fields[a].items) != want:
                        bad.append("lanelet %s.%s is %s, the relations among the selected lanelets are %s" % (k, a[1:], sorted(l.fields[a].items), want))
                for a in ("_adj_left", "_adj_right"):
                    v = l.fields[a]
                    src = w.lanelets[k].fields[a]
                    if v is not NONE and v not in got:
                        bad.append("lanelet %s.%s still names %s" % (k, a[1:], show(v)))
                    elif src is not NONE and src in kept and v != src:
                        bad.append("lanelet %s.%s lost its reference to %s" % (k, a[1:], src))
            for iid, inter in f["_intersections"].d.items():
                if iid not in w.intersections:
                    bad.append("the new network has an intersection %s the source does not have" % show(iid))
                    continue
                src_inter, src_incs = w.intersections[iid]
                if inter is src_inter:
                    bad.append("the intersection of the new network is the source network's object")
                incs = inter.fields["_incomings"].items
                for inc in incs:
                    src = [x for x in src_incs if x.fields["_incoming_id"] == inc.fields["_incoming_id"]]
                    for a in ("_incoming_lanelets", "_successors_right", "_successors_straight", "_successors_left"):
                        ids = set(inc.fields[a].items)
                        if ids - got:
                            bad.append("incoming %s.%s still names %s" % (show(inc.fields["_incoming_id"]), a[1:], sorted(ids - got)))
                        elif src and ids != set(src[0].fields[a].items) & kept:
                            bad.append("incoming %s.%s is %s, expected %s" % (show(inc.fields["_incoming_id"]), a[1:], sorted(ids), sorted(set(src[0].fields[a].items) & kept)))
                cr = set(inter.fields["_crossings"].items)
                if cr - got:
                    bad.append("intersection %s.crossings still names %s" % (iid, sorted(cr - got)))
                elif cr != set(src_inter.fields["_crossings"].items) & kept:
                    bad.append("intersection %s.crossings is %s, expected %s" % (iid, sorted(cr), sorted(set(src_inter.fields["_crossings"].items) & kept)))
            if kept == {1, 2, 3} and 40 not in f["_intersections"].d:
                bad.append("the intersection is missing although nothing was cut away")
            # the source network is untouched
            if w.refs() != before:
                bad.append("the source network's references changed")
            for t, ids in src_ids.items():
                if set(w.net.fields[t].d) != ids:
                    bad.append("the source network's %s changed" % t[1:])
        except _Raise as x:
            bad.append("raises %s" % x.what)
        except Undecided as x:
            raise AnalysisError("%s [%s]: %s" % (qn, label, x))
        res.check(RULE, "%s [%s]: copies of exactly the selected elements, no reference to anything cut away" % (qn, label), not bad, net_cls.mod, fn, "%s [%s]: %s" % (qn, label, "; ".join(bad[:3])), "the cut-out network misses a selected element, holds one that was not selected, or refers to a lanelet that was cut away", qualname=qn)

"""C08 — goal-region membership is decided correctly (structural clauses).

  Q1 CLOBBER   no function in planning/ stores into an attribute a derived state property is
               computed from (PMState.orientation <- velocity, velocity_y; ExtendedPMState.velocity_y
               <- velocity, orientation) of an object that may be of such a class and afterwards reads
               that derived property from the same object (in the function or, through the returned
               alias, in its callers)
  Q2 DISPATCH  scalar/interval dispatch in Interval.contains / AngleInterval.contains admits int and float
  Q3 FIELDS    the attributes _validate_goal_state admits are exactly the ones is_reached checks
  Q4 LOGIC     every check is and-ed into the per-goal flag; the result is an `any` over goal states
  Q5 PAIRING   each check compares the state's attribute with the goal's attribute of the same name;
               speed is the norm of (velocity, velocity_y), heading is atan2(velocity_y, velocity)
  Q6 INDEX     goal_reached returns the index enumerated together with the state that reached the goal
"""
import ast

from ..core import AnalysisError, Finding, attr_chain, call_name, canon, dominating_guards, norm, walk_no_nested
from ..dataflow import ReachingDefs, Provenance
from ..effects import Effects, FnKey
from . import c16

G = "commonroad/planning/goal.py"
PP = "commonroad/planning/planning_problem.py"
ST = "commonroad/scenario/state.py"
PR = "commonroad/prediction/prediction.py"


def derived_props(repo):
    """{(class name, property): set of fields} for State subclasses with computed (setter-less) properties."""
    st = repo.cls(ST, "State")
    out = {}
    for sc in repo.subclasses(st):
        fields = set(repo.dataclass_fields(sc))
        for pn, pd in sc.props.items():
            if "get" in pd and "set" not in pd and pn not in ("attributes", "used_attributes", "is_uncertain_position", "is_uncertain_orientation"):
                deps = {ch[1] for n in ast.walk(pd["get"]) if isinstance(n, ast.Attribute) for ch in [attr_chain(n)] if ch and ch[0] == "self" and len(ch) == 2 and ch[1] in fields}
                if deps:
                    out[(sc.name, pn)] = deps
    return out


def membership_rules(repo, res):
    """Q8: the two set-membership primitives behind position and orientation goals.  The shape group is evaluated
    abstractly on a group of three member shapes for every pattern of which members contain the point; the angle
    interval containment is the interval abstract interpretation of C16 (shared)."""
    from ..strdom import Ev, ListV, Obj, PyFunc, Sym, Undecided, _Raise, show

    SH = "commonroad/geometry/shape.py"
    sg = repo.cls(SH, "ShapeGroup")
    fn = sg.methods.get("contains_point")
    if fn is None:
        raise AnalysisError("ShapeGroup.contains_point missing")
    qn = "ShapeGroup.contains_point"
    point = Sym("point", "num")
    for pattern in ((False, False, False), (True, False, False), (False, True, False), (False, False, True), (True, True, False)):
        asked = []
        members = []
        for i, inside in enumerate(pattern):
            members.append(Obj(None, {"contains_point": PyFunc(lambda a, k, inside=inside, i=i: (asked.append((i, a[0] if a else None)), inside)[1], "contains_point")}, closed=True, label="member %d" % i))
        me = Obj(sg, {"_shapes": ListV(members)}, label="shape group")
        ev = Ev(repo)
        ev.pure_modules = {"np", "numpy", "math", "shapely"}
        label = "point inside member(s) %s" % ([i for i, x in enumerate(pattern) if x] or "none")
        bad = None
        try:
            r = ev.call_fn(ev.bind(fn, sg, me), [point], {}, fn)
            if ev.truth(r) != any(pattern):
                bad = "answers %s" % show(r)
            elif any(p is not point for _i, p in asked):
                bad = "asks a member about another point"
        except _Raise as x:
            bad = "raises %s" % x.what
        except Undecided as x:
            raise AnalysisError("%s [%s]: %s" % (qn, label, x))
        res.check("Q8-MEMBERSHIP", "%s [%s]: true iff some member contains the point" % (qn, label), bad is None, sg.mod, fn, "%s [%s] %s" % (qn, label, bad), "a goal given by several lanelets / shapes is reached only through some of them (the group is not the union of its members)", qualname=qn)
    from .c16 import range_rule

    range_rule(repo, res, "Q8-MEMBERSHIP")


def run(repo, res, tier):
    res.rule("Q1-CLOBBER", "no store into a dependency of a derived state property followed by a read of that property on the same object", 1)
    res.rule("Q2-DISPATCH", "number/interval dispatch admits int and float", 2)
    res.rule("Q3-FIELDS", "validated goal attributes = checked goal attributes", 1)
    res.rule("Q4-LOGIC", "checks are conjoined per goal state and disjoined over goal states", 5)
    res.rule("Q5-PAIRING", "state attribute compared with the goal attribute of the same name; speed/heading conventions", 6)
    res.rule("Q6-INDEX", "goal_reached returns the index of the state that reached the goal", 2)
    res.rule("Q7-PER-GOAL", "each goal state is evaluated on data built afresh in its own loop iteration", 1)
    res.rule("Q8-MEMBERSHIP", "the membership tests the goal check relies on: a shape group (lanelet goal) contains a point iff one of its members does; an angle interval contains an orientation modulo 2pi", 9)
    membership_rules(repo, res)
    eff = Effects(repo)
    gmod = repo.mod(G)
    goal = repo.cls(G, "GoalRegion")

    # ---------------------------------------------------------------- Q1
    dp = derived_props(repo)
    if ("PMState", "orientation") not in dp:
        raise AnalysisError("PMState.orientation is no longer a derived property (found %s)" % sorted(dp))
    all_deps = set().union(*dp.values())
    n_sites = 0
    for rel in (G, PP):
        m = repo.mod(rel)
        for c in m.classes.values():
            for mn, fn in c.methods.items():
                fk = FnKey(c, fn, m)
                rd = ReachingDefs(fn)
                for n in walk_no_nested(fn):
                    if not isinstance(n, (ast.Assign, ast.AugAssign)):
                        continue
                    tg = n.targets if isinstance(n, ast.Assign) else [n.target]
                    for t in tg:
                        if not (isinstance(t, ast.Attribute) and isinstance(t.value, ast.Name) and t.attr in all_deps and t.value.id != "self"):
                            continue
                        n_sites += 1
                        x = t.value.id
                        classes = {k.name for k in eff.receiver_classes(fk, t.value)}
                        for k in list(classes):
                            kc = repo.class_index.get(k, [None])[0]
                            if kc is not None:
                                classes |= {s.name for s in repo.subclasses(kc)}
                        victims = [(cn, pn) for (cn, pn), deps in dp.items() if t.attr in deps and (cn in classes or not classes)]
                        if not victims:
                            res.ok("Q1-CLOBBER", "%s.%s: %s on %s (no derived property depends on it there)" % (c.name, mn, norm(t), sorted(classes)[:4]))
                            continue
                        props = sorted({pn for _cn, pn in victims})
                        # reads of the derived property on x after the store (same function) ...
                        later = [u for u in walk_no_nested(fn) if isinstance(u, ast.Attribute) and isinstance(u.value, ast.Name) and u.value.id == x and u.attr in props and isinstance(u.ctx, ast.Load) and (u.lineno, u.col_offset) > (n.lineno, n.col_offset)]
                        # ... or on the returned alias in callers within the class
                        ret_pos = None
                        for r in walk_no_nested(fn):
                            if isinstance(r, ast.Return) and r.value is not None:
                                elts = r.value.elts if isinstance(r.value, ast.Tuple) else [r.value]
                                for i, e in enumerate(elts):
                                    if isinstance(e, ast.Name) and e.id == x:
                                        ret_pos = i if isinstance(r.value, ast.Tuple) else -1
                        caller_reads = []
                        if ret_pos is not None:
                            for mn2, fn2 in c.methods.items():
                                for a in walk_no_nested(fn2):
                                    if isinstance(a, ast.Assign) and isinstance(a.value, ast.Call) and norm(a.value.func) in ("self.%s" % mn, "cls.%s" % mn, "%s.%s" % (c.name, mn)):
                                        tgt = a.targets[0]
                                        var = None
                                        if ret_pos == -1 and isinstance(tgt, ast.Name):
                                            var = tgt.id
                                        elif ret_pos >= 0 and isinstance(tgt, ast.Tuple) and ret_pos < len(tgt.elts) and isinstance(tgt.elts[ret_pos], ast.Name):
                                            var = tgt.elts[ret_pos].id
                                        if var:
                                            for u in walk_no_nested(fn2):
                                                if isinstance(u, ast.Attribute) and isinstance(u.value, ast.Name) and u.value.id == var and u.attr in props and (u.lineno, u.col_offset) > (a.lineno, a.col_offset):
                                                    caller_reads.append((mn2, u))
                                                if isinstance(u, ast.Call) and isinstance(u.func, ast.Attribute) and u.func.attr in ("has_value", "getattr") and isinstance(u.func.value, ast.Name) and u.func.value.id == var and u.args and isinstance(u.args[0], ast.Constant) and u.args[0].value in props and u.lineno > a.lineno:
                                                    caller_reads.append((mn2, u))
                        bad = later or caller_reads
                        where = norm(later[0]) if later else ("%s: %s" % (caller_reads[0][0], norm(caller_reads[0][1])) if caller_reads else "")
                        res.check(
                            "Q1-CLOBBER",
                            "%s.%s: store %s (may be %s)" % (c.name, mn, norm(t), sorted({cn for cn, _p in victims})),
                            not bad,
                            m,
                            n,
                            "%s.%s: %s then read of derived %s (%s)" % (c.name, mn, norm(n)[:80], props, where),
                            "%s of a %s is computed from %s; after this store the derived value read later is computed from the overwritten field (wrong heading / lateral velocity in the goal check)" % (props, sorted({cn for cn, _p in victims}), sorted(set().union(*[dp[v] for v in victims]))),
                            qualname="%s.%s" % (c.name, mn),
                        )
    if n_sites == 0:
        res.ok("Q1-CLOBBER", "no store into velocity / velocity_y / orientation of a foreign state object in planning/ (nothing can be clobbered)")

    # ---------------------------------------------------------------- Q2 (shared with C16)
    umod = repo.mod(c16.U)
    for cn in ("Interval", "AngleInterval"):
        cls = repo.cls(c16.U, cn)
        fn = cls.methods.get("contains")
        if fn is None:
            continue
        p = fn.args.args[1].arg
        found = False
        for n in walk_no_nested(fn):
            if isinstance(n, ast.Call) and call_name(n) == "isinstance" and norm(n.args[0]) == p:
                found = True
                t = norm(n.args[1])
                ok = "Interval" in t or c16.numeric_isinstance_ok(n)
                res.check("Q2-DISPATCH", "%s.contains: %s" % (cn, norm(n)), ok, umod, n, "%s.contains: %s" % (cn, norm(n)), "integer-valued state attributes (time steps, whole-number velocities) raise AttributeError in the goal check", qualname="%s.contains" % cn)
            if isinstance(n, ast.Compare) and isinstance(n.left, ast.Call) and call_name(n.left) == "type" and norm(n.left.args[0]) == p:
                found = True
                res.check("Q2-DISPATCH", "%s.contains: %s" % (cn, norm(n)), "Interval" in norm(n.comparators[0]), umod, n, "%s.contains: %s" % (cn, norm(n)), "dispatch on a concrete numeric type", qualname="%s.contains" % cn)
        if not found:
            raise AnalysisError("%s.contains: dispatch test not found" % cn)

    # ---------------------------------------------------------------- Q3..Q5 is_reached (region: is_reached + the
    # same-class helpers it hands the state / goal state to; layout independent)
    isr = goal.methods["is_reached"]
    qn = "GoalRegion.is_reached"
    rd = ReachingDefs(isr)
    loops = [n for n in ast.walk(isr) if isinstance(n, (ast.For, ast.GeneratorExp, ast.ListComp)) and any(canon(it, rd, None, []) == "self.state_list" for it in ([n.iter] if isinstance(n, ast.For) else [g.iter for g in n.generators]))]
    if len(loops) != 1:
        raise AnalysisError("is_reached: loop over the goal states not found")
    loop = loops[0]
    gvar = norm(loop.target) if isinstance(loop, ast.For) else norm(loop.generators[0].target)
    svar = None
    for n in ast.walk(isr):
        if isinstance(n, ast.Assign) and isinstance(n.value, ast.Call) and norm(n.value.func).endswith("_harmonize_state_types") and isinstance(n.targets[0], ast.Tuple):
            svar = n.targets[0].elts[0].id
    if svar is None:
        raise AnalysisError("is_reached: harmonized state variable not found")

    class Chk:
        pass

    def attr_names(e, fn_):
        """(base name, set of attribute names) an expression `x.a` / getattr(x, v) denotes"""
        if isinstance(e, ast.Attribute) and isinstance(e.value, ast.Name):
            return e.value.id, {e.attr}
        if isinstance(e, ast.Call) and call_name(e) == "getattr" and len(e.args) >= 2 and isinstance(e.args[0], ast.Name):
            v = e.args[1]
            if isinstance(v, ast.Constant):
                return e.args[0].id, {v.value}
            if isinstance(v, ast.Name):
                for lp in ast.walk(fn_):
                    if isinstance(lp, ast.For) and norm(lp.target) == v.id and isinstance(lp.iter, (ast.Tuple, ast.List)) and all(isinstance(x, ast.Constant) for x in lp.iter.elts) and any(y is e for y in ast.walk(lp)):
                        return e.args[0].id, {x.value for x in lp.iter.elts}
        return None, set()

    checks = []
    region = [(isr, {svar: "state", gvar: "goal"})]
    seen_fn = {id(isr)}
    i = 0
    while i < len(region):
        fn_, roles = region[i]
        i += 1
        for c in ast.walk(fn_):
            if not isinstance(c, ast.Call):
                continue
            f = c.func
            if isinstance(f, ast.Attribute) and f.attr == "_check_value_in_interval" and len(c.args) == 2:
                k = Chk()
                k.call, k.fn, k.roles = c, fn_, roles
                k.sb, k.sa = attr_names(c.args[0], fn_)
                k.gb, k.ga = attr_names(c.args[1], fn_)
                checks.append(k)
            elif isinstance(f, ast.Attribute) and f.attr == "contains_point" and len(c.args) == 1:
                k = Chk()
                k.call, k.fn, k.roles = c, fn_, roles
                k.sb, k.sa = attr_names(c.args[0], fn_)
                k.gb, k.ga = attr_names(f.value, fn_)
                checks.append(k)
            elif isinstance(f, ast.Attribute) and isinstance(f.value, ast.Name) and f.value.id in ("self", "cls") and f.attr not in ("_harmonize_state_types", "_check_value_in_interval"):
                h = goal.methods.get(f.attr)
                if h is not None and id(h) not in seen_fn:
                    hp = [x.arg for x in h.args.args]
                    hp = hp[1:] if hp and hp[0] in ("self", "cls") else hp
                    r2 = {}
                    for pn_, a_ in list(zip(hp, c.args)) + [(kw.arg, kw.value) for kw in c.keywords if kw.arg]:
                        if isinstance(a_, ast.Name) and a_.id in roles:
                            r2[pn_] = roles[a_.id]
                    if r2:
                        seen_fn.add(id(h))
                        region.append((h, r2))
    if len(checks) < 3:
        raise AnalysisError("is_reached: only %d attribute checks found in %s" % (len(checks), [f.name for f, _r in region]))
    checked = set()
    seq_flags = set()
    for k in checks:
        t = norm(k.call)[:100]
        ok = k.roles.get(k.sb) == "state" and k.roles.get(k.gb) == "goal" and bool(k.sa) and k.sa == k.ga
        res.check("Q5-PAIRING", "check %s pairs state.%s with goal.%s" % (t, sorted(k.sa), sorted(k.ga)), ok, gmod, k.call, "%s: %s" % (k.fn.name, t), "the state's attribute is not compared with the goal's attribute of the same name (on the harmonized state)", qualname="GoalRegion." + k.fn.name)
        if ok:
            checked |= set(k.sa)
        # conjunctive use of the check
        par = gmod.parent.get(k.call)
        conj = False
        node = k.call
        while isinstance(par, ast.BoolOp) and isinstance(par.op, ast.And):
            node, par = par, gmod.parent.get(par)
        if isinstance(par, (ast.Assign, ast.Return)):
            conj = True  # flag = flag and check  /  return a and check  /  return check
            if isinstance(par, ast.Assign) and isinstance(node, ast.BoolOp):
                tgt = norm(par.targets[0])
                conj = any(norm(v) == tgt for v in node.values)
            elif isinstance(par, ast.Assign):
                # flag = check, executed only while the flag still holds (or as the first check after flag = True)
                tgt = norm(par.targets[0])
                g_ = dominating_guards(gmod, par, stop=k.fn)
                guarded = any(pol and norm(t) == tgt for t, pol in g_)
                earlier = [k2 for k2 in checks if k2.fn is k.fn and (k2.call.lineno, k2.call.col_offset) < (k.call.lineno, k.call.col_offset)]
                inits_ = [n_ for n_ in walk_no_nested(k.fn) if isinstance(n_, ast.Assign) and norm(n_.targets[0]) == tgt and isinstance(n_.value, ast.Constant) and n_.value.value is True and n_.lineno < par.lineno]
                conj = guarded or (not earlier and bool(inits_))
                if conj:
                    seq_flags.add((id(k.fn), tgt))
        elif isinstance(par, ast.UnaryOp) and isinstance(par.op, ast.Not):
            iff = gmod.parent.get(par)
            if isinstance(iff, ast.If) and iff.test is par and len(iff.body) == 1:
                st0 = iff.body[0]
                conj = (isinstance(st0, ast.Return) and isinstance(st0.value, ast.Constant) and st0.value.value is False) or (isinstance(st0, ast.Assign) and isinstance(st0.value, ast.Constant) and st0.value.value is False)
        res.check("Q4-LOGIC", "check of %s is conjoined into the per-goal result" % sorted(k.sa), conj, gmod, k.call, "%s: %s" % (k.fn.name, t), "a failing attribute check does not make the goal state unreached (the checks are not and-ed)", qualname="GoalRegion." + k.fn.name)
    valid = None
    vfn = goal.methods["_validate_goal_state"]
    for n in walk_no_nested(vfn):
        if isinstance(n, ast.Assign) and isinstance(n.value, ast.List) and all(isinstance(e, ast.Constant) for e in n.value.elts) and "valid" in norm(n.targets[0]):
            valid = [e.value for e in n.value.elts]
    if valid is None:
        raise AnalysisError("_validate_goal_state: list of valid fields not found")
    res.check("Q3-FIELDS", "validated %s = checked %s" % (sorted(valid), sorted(checked)), sorted(valid) == sorted(checked), gmod, isr, "is_reached checks %s, goal states may constrain %s" % (sorted(checked), sorted(valid)), "a goal state may constrain an attribute that is_reached never checks (or vice versa): the constraint is silently ignored", qualname=qn)
    # helper predicates: every returned value is True / False / a conjunction containing checks
    for fn_, _roles in region[1:]:
        for r in walk_no_nested(fn_):
            if isinstance(r, ast.Return):
                v = r.value
                ok = (isinstance(v, ast.Constant) and v.value in (True, False) or any(any(k.call is y for y in ast.walk(v)) for k in checks) or (isinstance(v, ast.Name) and (id(fn_), v.id) in seq_flags)) if v is not None else False
                res.check("Q4-LOGIC", "%s returns a truth value of its checks" % fn_.name, ok, gmod, r, "%s: %s" % (fn_.name, norm(r)[:80]), "the per-goal predicate returns something else than the conjunction of its checks", qualname="GoalRegion." + fn_.name)
    # flag style inside is_reached: starts True, only conjoined
    flags = {norm(gmod.parent.get(k.call if not isinstance(gmod.parent.get(k.call), ast.BoolOp) else gmod.parent.get(k.call)).targets[0]) for k in checks if k.fn is isr and isinstance(gmod.parent.get(k.call), ast.BoolOp) and isinstance(gmod.parent.get(gmod.parent.get(k.call)), ast.Assign)}
    for flag in sorted(flags):
        inits = [n for n in ast.walk(loop) if isinstance(n, ast.Assign) and norm(n.targets[0]) == flag and not isinstance(n.value, ast.BoolOp)]
        res.check("Q4-LOGIC", "per-goal flag %s starts True and is only conjoined" % flag, len(inits) == 1 and isinstance(inits[0].value, ast.Constant) and inits[0].value.value is True, gmod, loop, "is_reached flag assignments %s" % [norm(o)[:60] for o in inits], "the conjunction does not start from True or is overridden later", qualname=qn)
    # the region-level disjunction over goal states
    per_goal = None
    ok = False
    if isinstance(loop, ast.For):
        apps = [n for n in ast.walk(loop) if isinstance(n, ast.Call) and isinstance(n.func, ast.Attribute) and n.func.attr == "append" and len(n.args) == 1]
        rets = [n for n in walk_no_nested(isr) if isinstance(n, ast.Return)]
        lists = {norm(a.func.value) for a in apps}
        for lst in lists:
            mine = [a for a in apps if norm(a.func.value) == lst]
            final = [r for r in rets if r.value is not None and norm(r.value) in ("np.any(%s)" % lst, "any(%s)" % lst, "bool(np.any(%s))" % lst)]
            if final and len(rets) == 1 and len(mine) == 1 and mod_parent_is(gmod, mine[0], loop):
                per_goal = mine[0].args[0]
                ok = True
        if not ok:
            # early `return True` per reached goal state, False after the loop
            trues = [r for r in ast.walk(loop) if isinstance(r, ast.Return) and isinstance(r.value, ast.Constant) and r.value.value is True]
            tail = [r for r in isr.body if isinstance(r, ast.Return)]
            if len(trues) == 1 and len(tail) == 1 and isinstance(tail[0].value, ast.Constant) and tail[0].value.value is False:
                iff = gmod.parent.get(trues[0])
                if isinstance(iff, ast.If):
                    per_goal = iff.test
                    ok = True
    else:
        par = gmod.parent.get(loop)
        if isinstance(par, ast.Call) and norm(par.func) in ("any", "np.any") and isinstance(gmod.parent.get(par), ast.Return):
            per_goal = loop.elt
            ok = True
    res.check("Q4-LOGIC", "result = any(per-goal results), one per goal state", ok, gmod, isr, "is_reached combination", "the goal region is not the union of its goal states", qualname=qn)
    if per_goal is not None:
        # the per-goal value is the flag or the helper predicate (or a conjunction of checks)
        t = norm(per_goal)
        okp = t in flags or (isinstance(per_goal, ast.Call) and isinstance(per_goal.func, ast.Attribute) and any(per_goal.func.attr == f.name for f, _r in region[1:])) or any(any(k.call is y for y in ast.walk(per_goal)) for k in checks)
        res.check("Q4-LOGIC", "the per-goal result is the conjunction of the attribute checks", okp, gmod, per_goal, "is_reached per-goal value %s" % t[:80], "what is collected per goal state is not the result of its attribute checks", qualname=qn)
    cvi = goal.methods["_check_value_in_interval"]
    t = " ; ".join(norm(s) for s in cvi.body if not (isinstance(s, ast.Expr) and isinstance(s.value, ast.Constant)))
    p1, p2 = cvi.args.args[1].arg, cvi.args.args[2].arg
    res.check("Q5-PAIRING", "_check_value_in_interval = interval.contains(value)", "%s.contains(%s)" % (p2, p1) in t, gmod, cvi, "_check_value_in_interval", "the value is not tested for containment in the goal interval", qualname="GoalRegion._check_value_in_interval")
    hz = goal.methods["_harmonize_state_types"]
    hrd = ReachingDefs(hz)
    norms = [n for n in walk_no_nested(hz) if isinstance(n, ast.Call) and norm(n.func) in ("np.linalg.norm", "math.hypot", "np.hypot")]
    ok = len(norms) == 1
    if ok:
        from ..flowtools import mentions

        t = canon(norms[0], hrd, None, [a.arg for a in hz.args.args])
        ok = mentions(t, "velocity") and mentions(t, "velocity_y")
    res.check("Q5-PAIRING", "speed = norm(velocity, velocity_y)", ok, gmod, hz, "_harmonize_state_types speed", "speed of a point-mass state is not hypot(vx, vy)", qualname="GoalRegion._harmonize_state_types")
    # heading convention atan2(vy, vx) at every site of the package
    from ..flowtools import mentions as _m

    n_at = 0
    for rel in (G, ST, PR):
        m = repo.mod(rel)
        for fdef in [x for x in ast.walk(m.tree) if isinstance(x, ast.FunctionDef)]:
            frd = None
            for n in walk_no_nested(fdef):
                if isinstance(n, ast.Call) and norm(n.func) in ("math.atan2", "np.arctan2", "numpy.arctan2") and len(n.args) == 2:
                    frd = frd or ReachingDefs(fdef)
                    a0, a1 = [canon(x, frd, frd.stmt_of(n), []) for x in n.args]
                    if _m(a0, "velocity") or _m(a1, "velocity") or _m(a0, "velocity_y") or _m(a1, "velocity_y"):
                        n_at += 1
                        ok = _m(a0, "velocity_y") and not _m(a1, "velocity_y") and _m(a1, "velocity")
                        res.check("Q5-PAIRING", "%s: %s" % (rel.split("/")[-1], norm(n)), ok, m, n, "%s: %s" % (m.qualname(n), norm(n)), "heading of a point-mass state must be atan2(vy, vx)", qualname=m.qualname(n))
    if n_at < 2:
        raise AnalysisError("fewer than 2 atan2(velocity_y, velocity) sites found")

    # ---------------------------------------------------------------- Q6
    pmod = repo.mod(PP)
    gr = repo.method(PP, "PlanningProblem", "goal_reached")
    grd = ReachingDefs(gr)
    tpar = gr.args.args[1].arg
    succ = [r for r in walk_no_nested(gr) if isinstance(r, ast.Return) and isinstance(r.value, ast.Tuple) and len(r.value.elts) == 2 and isinstance(r.value.elts[0], ast.Constant) and r.value.elts[0].value is True]
    ok = len(succ) >= 1
    for r in succ:
        idx = r.value.elts[1]
        tests = [t for t, pol in dominating_guards(pmod, r, stop=gr) if pol and isinstance(t, ast.Call) and isinstance(t.func, ast.Attribute) and t.func.attr == "is_reached" and len(t.args) == 1]
        good = False
        for t in tests:
            recv = canon(t.func.value, grd, grd.stmt_of(t), [tpar])
            st_ = t.args[0]
            if recv not in ("self.goal", "self.goal_region"):
                continue
            # (a) the tested state is state_list[idx]
            if canon(st_, grd, grd.stmt_of(t), [tpar]) == "%s.state_list[%s]" % (tpar, norm(idx)):
                good = True
            # (b) idx and the tested state are the two components of enumerate(state_list)
            lp = pmod.parent.get(r)
            while lp is not None and not isinstance(lp, ast.For):
                lp = pmod.parent.get(lp)
            if lp is not None and isinstance(lp.target, ast.Tuple) and len(lp.target.elts) == 2 and [norm(x) for x in lp.target.elts] == [norm(idx), norm(st_)]:
                it = lp.iter
                while isinstance(it, ast.Call) and norm(it.func) in ("reversed", "list", "tuple") and len(it.args) == 1:
                    it = it.args[0]
                if isinstance(it, ast.Call) and norm(it.func) == "enumerate" and len(it.args) == 1 and canon(it.args[0], grd, lp, [tpar]) == "%s.state_list" % tpar:
                    good = True
        ok = ok and good
    res.check("Q6-INDEX", "goal_reached returns (True, index of the state for which is_reached held)", ok, pmod, gr, "goal_reached success return", "the reported index does not belong to a state that reaches the goal", qualname="PlanningProblem.goal_reached")
    tail = [n for n in gr.body if isinstance(n, ast.Return)]
    res.check("Q6-INDEX", "goal_reached returns (False, -1) when no state reaches the goal", len(tail) == 1 and norm(tail[0].value) == "(False, -1)", pmod, gr, "goal_reached failure return", "failure is not reported as (False, -1)", qualname="PlanningProblem.goal_reached")
    # ---------------------------------------------------------------- Q7: no state carried from one goal state to the next
    gmod = repo.mod(GO) if "GO" in globals() else repo.mod("commonroad/planning/goal.py")
    gcls = gmod.classes.get("GoalRegion")
    ir = gcls.methods.get("is_reached") if gcls is not None else None
    if ir is None:
        raise AnalysisError("GoalRegion.is_reached missing")
    from ..dataflow import ReachingDefs as _RD
    from ..effects import FnKey as _FK

    fk = _FK(gcls, ir, gmod)
    rd = _RD(ir)
    gloops = [n for n in ir.body if isinstance(n, ast.For) and "state_list" in norm(n.iter)]
    if len(gloops) != 1:
        raise AnalysisError("is_reached: loop over the goal states not found")
    lp = gloops[0]
    inside = {id(x) for x in ast.walk(lp)}
    n7 = 0
    for c in ast.walk(lp):
        if not isinstance(c, ast.Call):
            continue
        mutated = []  # (argument Name node, description)
        cands, mode, recv = eff.resolve_call(fk, c)
        if mode in ("exact", "typed", "exact-unbound") and cands:
            for k in cands:
                b = eff.bind(k, recv, list(c.args), {kw.arg: kw.value for kw in c.keywords if kw.arg})
                for pname, arg in b.items():
                    if isinstance(arg, ast.Name) and eff.mutates_param(k, pname):
                        mutated.append((arg, "%s mutates its parameter %s" % (k.name, pname)))
        if isinstance(c.func, ast.Attribute) and isinstance(c.func.value, ast.Name) and c.func.attr in ("add", "remove", "discard", "append", "pop", "clear", "update", "extend"):
            v = c.func.value
            # a pure accumulator (only ever the receiver of such calls inside the loop) collects results, it is no input
            other_loads = [x for x in ast.walk(lp) if isinstance(x, ast.Name) and x.id == v.id and isinstance(x.ctx, ast.Load) and not (isinstance(gmod.parent.get(x), ast.Attribute) and gmod.parent.get(x).attr in ("add", "append", "extend", "update"))]
            if other_loads:
                mutated.append((v, "%s(..)" % norm(c.func)))
        for arg, why in mutated:
            if arg.id in ("self",) or arg.id in [a.arg for a in ir.args.args]:
                continue
            n7 += 1
            outside = [d for d in rd.defs(arg.id, c) if d.stmt is not None and id(d.stmt) not in inside]
            res.check("Q7-PER-GOAL", "is_reached: %s passed to a mutating operation is built inside the loop (%s)" % (arg.id, why), not outside, gmod, c, "is_reached: %s defined before the goal-state loop and mutated inside it (%s)" % (arg.id, why), "what one goal state's evaluation changes is seen by the next goal state: the disjunction over goal states depends on their order", qualname="GoalRegion.is_reached")
    if n7 < 1:
        raise AnalysisError("is_reached: no mutated input found in the goal-state loop (1 confirmed: state_fields, changed by _harmonize_state_types)")
    return {"derived_properties": {"%s.%s" % k: sorted(v) for k, v in dp.items()}}


def mod_parent_is(mod, node, loop):
    n = node
    while n is not None and not isinstance(n, ast.stmt):
        n = mod.parent.get(n)
    return mod.parent.get(n) is loop

"""C08 — goal-region membership is decided correctly (structural clauses).

  Q1 CLOBBER   no function in planning/ stores into an attribute a derived state property is
               computed from (PMState.orientation <- velocity, velocity_y; ExtendedPMState.velocity_y
               <- velocity, orientation) of an object that may be of such a class and afterwards reads
               that derived property from the same object (in the function or, through the returned
               alias, in its callers)
  Q2 DISPATCH  scalar/interval dispatch in Interval.contains / AngleInterval.contains admits int and float
  Q3 FIELDS    the attributes _validate_goal_state admits are exactly the ones is_reached checks
  Q4 LOGIC     every check is and-ed into the per-goal flag; the result is an `any` over goal states
  Q5 PAIRING   each check compares the state's attribute with the goal's attribute of the same name;
               speed is the norm of (velocity, velocity_y), heading is atan2(velocity_y, velocity)
  Q6 INDEX     goal_reached returns the index enumerated together with the state that reached the goal
"""
import ast

from ..core import AnalysisError, Finding, attr_chain, call_name, canon, dominating_guards, norm, walk_no_nested
from ..dataflow import ReachingDefs, Provenance
from ..effects import Effects, FnKey
from . import c16

G = "commonroad/planning/goal.py"
PP = "commonroad/planning/planning_problem.py"
ST = "commonroad/scenario/state.py"
PR = "commonroad/prediction/prediction.py"


def derived_props(repo):
    """{(class name, property): set of fields} for State subclasses with computed (setter-less) properties."""
    st = repo.cls(ST, "State")
    out = {}
    for sc in repo.subclasses(st):
        fields = set(repo.dataclass_fields(sc))
        for pn, pd in sc.props.items():
            if "get" in pd and "set" not in pd and pn not in ("attributes", "used_attributes", "is_uncertain_position", "is_uncertain_orientation"):
                deps = {ch[1] for n in ast.walk(pd["get"]) if isinstance(n, ast.Attribute) for ch in [attr_chain(n)] if ch and ch[0] == "self" and len(ch) == 2 and ch[1] in fields}
                if deps:
                    out[(sc.name, pn)] = deps
    return out


def run(repo, res, tier):
    res.rule("Q1-CLOBBER", "no store into a dependency of a derived state property followed by a read of that property on the same object", 1)
    res.rule("Q2-DISPATCH", "number/interval dispatch admits int and float", 2)
    res.rule("Q3-FIELDS", "validated goal attributes = checked goal attributes", 1)
    res.rule("Q4-LOGIC", "checks are conjoined per goal state and disjoined over goal states", 5)
    res.rule("Q5-PAIRING", "state attribute compared with the goal attribute of the same name; speed/heading conventions", 6)
    res.rule("Q6-INDEX", "goal_reached returns the index of the state that reached the goal", 2)
    res.rule("Q7-PER-GOAL", "each goal state is evaluated on data built afresh in its own loop iteration", 1)
    eff = Effects(repo)
    gmod = repo.mod(G)
    goal = repo.cls(G, "GoalRegion")

    # ---------------------------------------------------------------- Q1
    dp = derived_props(repo)
    if ("PMState", "orientation") not in dp:
        raise AnalysisError("PMState.orientation is no longer a derived property (found %s)" % sorted(dp))
    all_deps = set().union(*dp.values())
    n_sites = 0
    for rel in (G, PP):
        m = repo.mod(rel)
        for c in m.classes.values():
            for mn, fn in c.methods.items():
                fk = FnKey(c, fn, m)
                rd = ReachingDefs(fn)
                for n in walk_no_nested(fn):
                    if not isinstance(n, (ast.Assign, ast.AugAssign)):
                        continue
                    tg = n.targets if isinstance(n, ast.Assign) else [n.target]
                    for t in tg:
                        if not (isinstance(t, ast.Attribute) and isinstance(t.value, ast.Name) and t.attr in all_deps and t.value.id != "self"):
                            continue
                        n_sites += 1
                        x = t.value.id
                        classes = {k.name for k in eff.receiver_classes(fk, t.value)}
                        for k in list(classes):
                            kc = repo.class_index.get(k, [None])[0]
                            if kc is not None:
                                classes |= {s.name for s in repo.subclasses(kc)}
                        victims = [(cn, pn) for (cn, pn), deps in dp.items() if t.attr in deps and (cn in classes or not classes)]
                        if not victims:
                            res.ok("Q1-CLOBBER", "%s.%s: %s on %s (no derived property depends on it there)" % (c.name, mn, norm(t), sorted(classes)[:4]))
                            continue
                        props = sorted({pn for _cn, pn in victims})
                        # reads of the derived property on x after the store (same function) ...
                        later = [u for u in walk_no_nested(fn) if isinstance(u, ast.Attribute) and isinstance(u.value, ast.Name) and u.value.id == x and u.attr in props and isinstance(u.ctx, ast.Load) and (u.lineno, u.col_offset) > (n.lineno, n.col_offset)]
                        # ... or on the returned alias in callers within the class
                        ret_pos = None
                        for r in walk_no_nested(fn):
                            if isinstance(r, ast.Return) and r.value is not None:
                                elts = r.value.elts if isinstance(r.value, ast.Tuple) else [r.value]
                                for i, e in enumerate(elts):
                                    if isinstance(e, ast.Name) and e.id == x:
                                        ret_pos = i if isinstance(r.value, ast.Tuple) else -1
                        caller_reads = []
                        if ret_pos is not None:
                            for mn2, fn2 in c.methods.items():
                                for a in walk_no_nested(fn2):
                                    if isinstance(a, ast.Assign) and isinstance(a.value, ast.Call) and norm(a.value.func) in ("self.%s" % mn, "cls.%s" % mn, "%s.%s" % (c.name, mn)):
                                        tgt = a.targets[0]
                                        var = None
                                        if ret_pos == -1 and isinstance(tgt, ast.Name):
                                            var = tgt.id
                                        elif ret_pos >= 0 and isinstance(tgt, ast.Tuple) and ret_pos < len(tgt.elts) and isinstance(tgt.elts[ret_pos], ast.Name):
                                            var = tgt.elts[ret_pos].id
                                        if var:
                                            for u in walk_no_nested(fn2):
                                                if isinstance(u, ast.Attribute) and isinstance(u.value, ast.Name) and u.value.id == var and u.attr in props and (u.lineno, u.col_offset) > (a.lineno, a.col_offset):
                                                    caller_reads.append((mn2, u))
                                                if isinstance(u, ast.Call) and isinstance(u.func, ast.Attribute) and u.func.attr in ("has_value", "getattr") and isinstance(u.func.value, ast.Name) and u.func.value.id == var and u.args and isinstance(u.args[0], ast.Constant) and u.args[0].value in props and u.lineno > a.lineno:
                                                    caller_reads.append((mn2, u))
                        bad = later or caller_reads
                        where = norm(later[0]) if later else ("%s: %s" % (caller_reads[0][0], norm(caller_reads[0][1])) if caller_reads else "")
                        res.check(
                            "Q1-CLOBBER",
                            "%s.%s: store %s (may be %s)" % (c.name, mn, norm(t), sorted({cn for cn, _p in victims})),
                            not bad,
                            m,
                            n,
                            "%s.%s: %s then read of derived %s (%s)" % (c.name, mn, norm(n)[:80], props, where),
                            "%s of a %s is computed from %s; after this store the derived value read later is computed from the overwritten field (wrong heading / lateral velocity in the goal check)" % (props, sorted({cn for cn, _p in victims}), sorted(set().union(*[dp[v] for v in victims]))),
                            qualname="%s.%s" % (c.name, mn),
                        )
    if n_sites == 0:
        res.ok("Q1-CLOBBER", "no store into velocity / velocity_y / orientation of a foreign state object in planning/ (nothing can be clobbered)")

    # ---------------------------------------------------------------- Q2 (shared with C16)
    umod = repo.mod(c16.U)
    for cn in ("Interval", "AngleInterval"):
        cls = repo.cls(c16.U, cn)
        fn = cls.methods.get("contains")
        if fn is None:
            continue
        p = fn.args.args[1].arg
        found = False
        for n in walk_no_nested(fn):
            if isinstance(n, ast.Call) and call_name(n) == "isinstance" and norm(n.args[0]) == p:
                found = True
                t = norm(n.args[1])
                ok = "Interval" in t or c16.numeric_isinstance_ok(n)
                res.check("Q2-DISPATCH", "%s.contains: %s" % (cn, norm(n)), ok, umod, n, "%s.contains: %s" % (cn, norm(n)), "integer-valued state attributes (time steps, whole-number velocities) raise AttributeError in the goal check", qualname="%s.contains" % cn)
            if isinstance(n, ast.Compare) and isinstance(n.left, ast.Call) and call_name(n.left) == "type" and norm(n.left.args[0]) == p:
                found = True
                res.check("Q2-DISPATCH", "%s.contains: %s" % (cn, norm(n)), "Interval" in norm(n.comparators[0]), umod, n, "%s.contains: %s" % (cn, norm(n)), "dispatch on a concrete numeric type", qualname="%s.contains" % cn)
        if not found:
            raise AnalysisError("%s.contains: dispatch test not found" % cn)

    # ---------------------------------------------------------------- Q3..Q5 is_reached
    isr = goal.methods["is_reached"]
    qn = "GoalRegion.is_reached"
    loops = [n for n in isr.body if isinstance(n, ast.For)]
    if len(loops) != 1 or norm(loops[0].iter) not in ("self.state_list", "self._state_list"):
        raise AnalysisError("is_reached: loop over the goal states not found")
    loop = loops[0]
    gvar = loop.target.id
    rd = ReachingDefs(isr)
    checked = {}
    flag = None
    for n in ast.walk(loop):
        if isinstance(n, ast.Assign) and isinstance(n.targets[0], ast.Name) and isinstance(n.value, ast.BoolOp) and isinstance(n.value.op, ast.And):
            vals = n.value.values
            if isinstance(vals[0], ast.Name) and vals[0].id == n.targets[0].id and len(vals) == 2:
                flag = flag or n.targets[0].id
                chk = vals[1]
                # attribute name: from the goal-side operand
                attrs = {a.attr for a in ast.walk(chk) if isinstance(a, ast.Attribute) and isinstance(a.value, ast.Name) and a.value.id in (gvar,)}
                for a in attrs - {"contains_point"}:
                    checked[a] = (n, chk)
    valid = None
    vfn = goal.methods["_validate_goal_state"]
    for n in walk_no_nested(vfn):
        if isinstance(n, ast.Assign) and isinstance(n.value, ast.List) and all(isinstance(e, ast.Constant) for e in n.value.elts) and "valid" in norm(n.targets[0]):
            valid = [e.value for e in n.value.elts]
    if valid is None:
        raise AnalysisError("_validate_goal_state: list of valid fields not found")
    res.check("Q3-FIELDS", "validated %s = checked %s" % (sorted(valid), sorted(checked)), sorted(valid) == sorted(checked), gmod, isr, "is_reached checks %s, goal states may constrain %s" % (sorted(checked), sorted(valid)), "a goal state may constrain an attribute that is_reached never checks (or vice versa): the constraint is silently ignored", qualname=qn)
    # Q4: initial flag True, each check conjoined, appended once per goal state, any() at the end
    init = [n for n in loop.body if isinstance(n, ast.Assign) and isinstance(n.targets[0], ast.Name) and n.targets[0].id == flag]
    res.check("Q4-LOGIC", "per-goal flag starts True", bool(init) and isinstance(init[0].value, ast.Constant) and init[0].value.value is True, gmod, loop, "is_reached flag initialisation", "the conjunction does not start from True", qualname=qn)
    for a, (n, chk) in sorted(checked.items()):
        res.ok("Q4-LOGIC", "%s: %s" % (a, norm(n)[:100]))
    # no assignment to the flag other than init and `flag = flag and ..`
    others = [n for n in ast.walk(loop) if isinstance(n, (ast.Assign, ast.AugAssign)) and any(isinstance(t, ast.Name) and t.id == flag for t in (n.targets if isinstance(n, ast.Assign) else [n.target])) and n not in init and n not in [x[0] for x in checked.values()]]
    res.check("Q4-LOGIC", "flag only conjoined", not others, gmod, others[0] if others else loop, "is_reached flag assignments %s" % [norm(o)[:60] for o in others], "a later assignment overrides the conjunction of the attribute checks", qualname=qn)
    apps = [n for n in ast.walk(loop) if isinstance(n, ast.Call) and isinstance(n.func, ast.Attribute) and n.func.attr == "append" and n.args and norm(n.args[0]) == flag]
    ok = len(apps) == 1 and mod_parent_is(gmod, apps[0], loop)
    lst = norm(apps[0].func.value) if apps else None
    res.check("Q4-LOGIC", "flag appended once per goal state", ok, gmod, loop, "is_reached append", "the per-goal results are not collected once per goal state", qualname=qn)
    rets = [n for n in walk_no_nested(isr) if isinstance(n, ast.Return)]
    ok = len(rets) == 1 and norm(rets[0].value) in ("np.any(%s)" % lst, "any(%s)" % lst, "bool(np.any(%s))" % lst)
    res.check("Q4-LOGIC", "result = any(goal results)", ok, gmod, isr, "is_reached return %s" % (norm(rets[0].value) if rets else "?"), "the goal region is not the union of its goal states", qualname=qn)
    # Q5 pairing
    svar = None
    for n in walk_no_nested(isr):
        if isinstance(n, ast.Assign) and isinstance(n.value, ast.Call) and norm(n.value.func).endswith("_harmonize_state_types") and isinstance(n.targets[0], ast.Tuple):
            svar = n.targets[0].elts[0].id
    if svar is None:
        raise AnalysisError("is_reached: harmonized state variable not found")
    for a, (n, chk) in sorted(checked.items()):
        t = norm(chk)
        if a == "position":
            ok = t == "%s.position.contains_point(%s.position)" % (gvar, svar)
        else:
            ok = t == "self._check_value_in_interval(%s.%s, %s.%s)" % (svar, a, gvar, a)
        guards = [norm(g) for g, pol in dominating_guards(gmod, n, stop=isr) if pol]
        res.check("Q5-PAIRING", "check of %s: %s" % (a, t), ok, gmod, n, "is_reached: %s" % t, "the state's attribute is not compared with the goal's attribute of the same name (on the harmonized state)", qualname=qn)
    cvi = goal.methods["_check_value_in_interval"]
    t = " ; ".join(norm(s) for s in cvi.body if not (isinstance(s, ast.Expr) and isinstance(s.value, ast.Constant)))
    p1, p2 = cvi.args.args[1].arg, cvi.args.args[2].arg
    res.check("Q5-PAIRING", "_check_value_in_interval = interval.contains(value)", "%s.contains(%s)" % (p2, p1) in t, gmod, cvi, "_check_value_in_interval", "the value is not tested for containment in the goal interval", qualname="GoalRegion._check_value_in_interval")
    hz = goal.methods["_harmonize_state_types"]
    hrd = ReachingDefs(hz)
    norms = [n for n in walk_no_nested(hz) if isinstance(n, ast.Call) and norm(n.func) in ("np.linalg.norm", "math.hypot", "np.hypot")]
    ok = len(norms) == 1
    if ok:
        t = canon(norms[0], hrd, None, [a.arg for a in hz.args.args])
        ok = ".velocity" in t and ".velocity_y" in t
    res.check("Q5-PAIRING", "speed = norm(velocity, velocity_y)", ok, gmod, hz, "_harmonize_state_types speed", "speed of a point-mass state is not hypot(vx, vy)", qualname="GoalRegion._harmonize_state_types")
    # heading convention atan2(vy, vx) at every site of the package
    n_at = 0
    for rel in (G, ST, PR):
        m = repo.mod(rel)
        for n in ast.walk(m.tree):
            if isinstance(n, ast.Call) and norm(n.func) in ("math.atan2", "np.arctan2", "numpy.arctan2") and len(n.args) == 2:
                a0, a1 = norm(n.args[0]), norm(n.args[1])
                if "velocity" in a0 or "velocity" in a1:
                    n_at += 1
                    ok = "velocity_y" in a0 and "velocity_y" not in a1 and "velocity" in a1
                    res.check("Q5-PAIRING", "%s: %s" % (rel.split("/")[-1], norm(n)), ok, m, n, "%s: %s" % (m.qualname(n), norm(n)), "heading of a point-mass state must be atan2(vy, vx)", qualname=m.qualname(n))
    if n_at < 2:
        raise AnalysisError("fewer than 2 atan2(velocity_y, velocity) sites found")

    # ---------------------------------------------------------------- Q6
    pmod = repo.mod(PP)
    gr = repo.method(PP, "PlanningProblem", "goal_reached")
    loops = [n for n in gr.body if isinstance(n, ast.For)]
    ok = len(loops) == 1 and isinstance(loops[0].target, ast.Tuple) and len(loops[0].target.elts) == 2 and "enumerate(trajectory.state_list)" in norm(loops[0].iter)
    if ok:
        i, s = [e.id for e in loops[0].target.elts]
        rets = [n for n in ast.walk(loops[0]) if isinstance(n, ast.Return)]
        ok = len(rets) == 1 and norm(rets[0].value) == "(True, %s)" % i
        if ok:
            g = [norm(t) for t, pol in dominating_guards(pmod, rets[0], stop=gr) if pol]
            ok = g == ["self.goal.is_reached(%s)" % s]
    res.check("Q6-INDEX", "goal_reached returns (True, index of the state for which is_reached held)", ok, pmod, gr, "goal_reached success return", "the reported index does not belong to a state that reaches the goal", qualname="PlanningProblem.goal_reached")
    tail = [n for n in gr.body if isinstance(n, ast.Return)]
    res.check("Q6-INDEX", "goal_reached returns (False, -1) when no state reaches the goal", len(tail) == 1 and norm(tail[0].value) == "(False, -1)", pmod, gr, "goal_reached failure return", "failure is not reported as (False, -1)", qualname="PlanningProblem.goal_reached")
    # ---------------------------------------------------------------- Q7: no state carried from one goal state to the next
    gmod = repo.mod(GO) if "GO" in globals() else repo.mod("commonroad/planning/goal.py")
    gcls = gmod.classes.get("GoalRegion")
    ir = gcls.methods.get("is_reached") if gcls is not None else None
    if ir is None:
        raise AnalysisError("GoalRegion.is_reached missing")
    from ..dataflow import ReachingDefs as _RD
    from ..effects import FnKey as _FK

    fk = _FK(gcls, ir, gmod)
    rd = _RD(ir)
    gloops = [n for n in ir.body if isinstance(n, ast.For) and "state_list" in norm(n.iter)]
    if len(gloops) != 1:
        raise AnalysisError("is_reached: loop over the goal states not found")
    lp = gloops[0]
    inside = {id(x) for x in ast.walk(lp)}
    n7 = 0
    for c in ast.walk(lp):
        if not isinstance(c, ast.Call):
            continue
        mutated = []  # (argument Name node, description)
        cands, mode, recv = eff.resolve_call(fk, c)
        if mode in ("exact", "typed", "exact-unbound") and cands:
            for k in cands:
                b = eff.bind(k, recv, list(c.args), {kw.arg: kw.value for kw in c.keywords if kw.arg})
                for pname, arg in b.items():
                    if isinstance(arg, ast.Name) and eff.mutates_param(k, pname):
                        mutated.append((arg, "%s mutates its parameter %s" % (k.name, pname)))
        if isinstance(c.func, ast.Attribute) and isinstance(c.func.value, ast.Name) and c.func.attr in ("add", "remove", "discard", "append", "pop", "clear", "update", "extend"):
            v = c.func.value
            # a pure accumulator (only ever the receiver of such calls inside the loop) collects results, it is no input
            other_loads = [x for x in ast.walk(lp) if isinstance(x, ast.Name) and x.id == v.id and isinstance(x.ctx, ast.Load) and not (isinstance(gmod.parent.get(x), ast.Attribute) and gmod.parent.get(x).attr in ("add", "append", "extend", "update"))]
            if other_loads:
                mutated.append((v, "%s(..)" % norm(c.func)))
        for arg, why in mutated:
            if arg.id in ("self",) or arg.id in [a.arg for a in ir.args.args]:
                continue
            n7 += 1
            outside = [d for d in rd.defs(arg.id, c) if d.stmt is not None and id(d.stmt) not in inside]
            res.check("Q7-PER-GOAL", "is_reached: %s passed to a mutating operation is built inside the loop (%s)" % (arg.id, why), not outside, gmod, c, "is_reached: %s defined before the goal-state loop and mutated inside it (%s)" % (arg.id, why), "what one goal state's evaluation changes is seen by the next goal state: the disjunction over goal states depends on their order", qualname="GoalRegion.is_reached")
    if n7 < 1:
        raise AnalysisError("is_reached: no mutated input found in the goal-state loop (1 confirmed: state_fields, changed by _harmonize_state_types)")
    return {"derived_properties": {"%s.%s" % k: sorted(v) for k, v in dp.items()}}


def mod_parent_is(mod, node, loop):
    n = node
    while n is not None and not isinstance(n, ast.stmt):
        n = mod.parent.get(n)
    return mod.parent.get(n) is loop

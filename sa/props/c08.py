"""C08 — goal-region membership is decided correctly (structural clauses).

  Q1 CLOBBER   no function in planning/ stores into an attribute a derived state property is
               computed from (PMState.orientation <- velocity, velocity_y; ExtendedPMState.velocity_y
               <- velocity, orientation) of an object that may be of such a class and afterwards reads
               that derived property from the same object (in the function or, through the returned
               alias, in its callers)
  Q2 DISPATCH  scalar/interval dispatch in Interval.contains / AngleInterval.contains admits int and float
  Q3 FIELDS    the attributes _validate_goal_state admits are exactly the ones the evaluated suites show tested
  Q5 PAIRING   heading is atan2(velocity_y, velocity) in the state classes
  Q6 INDEX     goal_reached, evaluated (c08ev): success exactly when a state reaches the goal, with such an index
  Q8 MEMBERSHIP shape group = union of members (evaluated), angle interval modulo 2pi (C16), closed polygon (C06)
  Q9 REACHED   is_reached, evaluated (c08ev) on one / two goal states x subsets of constrained attributes x state
               kinds: the answer is `some goal state satisfied in all it constrains`, every containment test is asked
               about the state's value of the same attribute (speed = norm, heading = atan2 for point-mass states),
               goal states are judged independently
"""
import ast

from ..core import AnalysisError, Finding, attr_chain, call_name, canon, dominating_guards, norm, walk_no_nested
from ..dataflow import ReachingDefs, Provenance
from ..effects import Effects, FnKey
from . import c16

G = "commonroad/planning/goal.py"
PP = "commonroad/planning/planning_problem.py"
ST = "commonroad/scenario/state.py"
PR = "commonroad/prediction/prediction.py"


def derived_props(repo):
    """{(class name, property): set of fields} for State subclasses with computed (setter-less) properties."""
    st = repo.cls(ST, "State")
    out = {}
    for sc in repo.subclasses(st):
        fields = set(repo.dataclass_fields(sc))
        for pn, pd in sc.props.items():
            if "get" in pd and "set" not in pd and pn not in ("attributes", "used_attributes", "is_uncertain_position", "is_uncertain_orientation"):
                deps = {ch[1] for n in ast.walk(pd["get"]) if isinstance(n, ast.Attribute) for ch in [attr_chain(n)] if ch and ch[0] == "self" and len(ch) == 2 and ch[1] in fields}
                if deps:
                    out[(sc.name, pn)] = deps
    return out


def membership_rules(repo, res):
    """Q8: the two set-membership primitives behind position and orientation goals.  The shape group is evaluated
    abstractly on a group of three member shapes for every pattern of which members contain the point; the angle
    interval containment is the interval abstract interpretation of C16 (shared)."""
    shape_group_rule(repo, res, "Q8-MEMBERSHIP")
    from .c16 import range_rule

    range_rule(repo, res, "Q8-MEMBERSHIP")
    # a goal position given by a polygon (every lanelet goal is one): the closed vertex ring, boundary included — the
    # case analysis of C06 on Polygon.contains_point, shared
    from .c06ev import polygon_rules

    polygon_rules(repo, res, "Q8-MEMBERSHIP")


def shape_group_rule(repo, res, RULE):
    """ShapeGroup.contains_point, evaluated on a group of three member shapes for every pattern of which members
    contain the point: true iff some member contains it (shared with C06)."""
    from ..strdom import Ev, ListV, Obj, PyFunc, Sym, Undecided, _Raise, show

    SH = "commonroad/geometry/shape.py"
    sg = repo.cls(SH, "ShapeGroup")
    fn = sg.methods.get("contains_point")
    if fn is None:
        raise AnalysisError("ShapeGroup.contains_point missing")
    qn = "ShapeGroup.contains_point"
    point = Sym("point", "num")
    for pattern in ((False, False, False), (True, False, False), (False, True, False), (False, False, True), (True, True, False)):
        asked = []
        members = []
        for i, inside in enumerate(pattern):
            members.append(Obj(None, {"contains_point": PyFunc(lambda a, k, inside=inside, i=i: (asked.append((i, a[0] if a else None)), inside)[1], "contains_point")}, closed=True, label="member %d" % i))
        me = Obj(sg, {"_shapes": ListV(members)}, label="shape group")
        ev = Ev(repo)
        ev.pure_modules = {"np", "numpy", "math", "shapely"}
        label = "point inside member(s) %s" % ([i for i, x in enumerate(pattern) if x] or "none")
        bad = None
        try:
            r = ev.call_fn(ev.bind(fn, sg, me), [point], {}, fn)
            if ev.truth(r) != any(pattern):
                bad = "answers %s" % show(r)
            elif any(p is not point for _i, p in asked):
                bad = "asks a member about another point"
        except _Raise as x:
            bad = "raises %s" % x.what
        except Undecided as x:
            raise AnalysisError("%s [%s]: %s" % (qn, label, x))
        res.check(RULE, "%s [%s]: true iff some member contains the point" % (qn, label), bad is None, sg.mod, fn, "%s [%s] %s" % (qn, label, bad), "a goal given by several lanelets / shapes is reached only through some of them (the group is not the union of its members)", qualname=qn)


def run(repo, res, tier):
    res.rule("Q1-CLOBBER", "no store into a dependency of a derived state property followed by a read of that property on the same object", 1)
    res.rule("Q2-DISPATCH", "number/interval dispatch admits int and float", 2)
    res.rule("Q3-FIELDS", "validated goal attributes = checked goal attributes", 1)
    res.rule("Q9-REACHED", "is_reached, evaluated: some goal state satisfied in all its constrained attributes; every test asked about the state's value of the same attribute (speed = norm, heading = atan2 for point-mass states); goal states judged independently", 60)
    res.rule("Q5-PAIRING", "heading convention atan2(velocity_y, velocity) in the state classes", 1)
    res.rule("Q6-INDEX", "goal_reached, evaluated: success exactly when a state reaches the goal, with the index of such a state", 7)
    res.rule("Q10-READ", "a goal read from a file refers to every element the file lists (loops of the XML reader over document elements read their loop variable; shared with C01)", 20)
    from .c01 import loop_variable_rule

    loop_variable_rule(repo, res, "Q10-READ")
    res.rule("Q8-MEMBERSHIP", "the membership tests the goal check relies on: a shape group (lanelet goal) contains a point iff one of its members does; an angle interval contains an orientation modulo 2pi; a polygon contains the points of its closed vertex ring", 16)
    membership_rules(repo, res)
    eff = Effects(repo)
    gmod = repo.mod(G)
    goal = repo.cls(G, "GoalRegion")

    # ---------------------------------------------------------------- Q1
    dp = derived_props(repo)
    if ("PMState", "orientation") not in dp:
        raise AnalysisError("PMState.orientation is no longer a derived property (found %s)" % sorted(dp))
    all_deps = set().union(*dp.values())
    n_sites = 0
    for rel in (G, PP):
        m = repo.mod(rel)
        for c in m.classes.values():
            for mn, fn in c.methods.items():
                fk = FnKey(c, fn, m)
                rd = ReachingDefs(fn)
                for n in walk_no_nested(fn):
                    if not isinstance(n, (ast.Assign, ast.AugAssign)):
                        continue
                    tg = n.targets if isinstance(n, ast.Assign) else [n.target]
                    for t in tg:
                        if not (isinstance(t, ast.Attribute) and isinstance(t.value, ast.Name) and t.attr in all_deps and t.value.id != "self"):
                            continue
                        n_sites += 1
                        x = t.value.id
                        classes = {k.name for k in eff.receiver_classes(fk, t.value)}
                        for k in list(classes):
                            kc = repo.class_index.get(k, [None])[0]
                            if kc is not None:
                                classes |= {s.name for s in repo.subclasses(kc)}
                        victims = [(cn, pn) for (cn, pn), deps in dp.items() if t.attr in deps and (cn in classes or not classes)]
                        if not victims:
                            res.ok("Q1-CLOBBER", "%s.%s: %s on %s (no derived property depends on it there)" % (c.name, mn, norm(t), sorted(classes)[:4]))
                            continue
                        props = sorted({pn for _cn, pn in victims})
                        # reads of the derived property on x after the store (same function) ...
                        later = [u for u in walk_no_nested(fn) if isinstance(u, ast.Attribute) and isinstance(u.value, ast.Name) and u.value.id == x and u.attr in props and isinstance(u.ctx, ast.Load) and (u.lineno, u.col_offset) > (n.lineno, n.col_offset)]
                        # ... or on the returned alias in callers within the class
                        ret_pos = None
                        for r in walk_no_nested(fn):
                            if isinstance(r, ast.Return) and r.value is not None:
                                elts = r.value.elts if isinstance(r.value, ast.Tuple) else [r.value]
                                for i, e in enumerate(elts):
                                    if isinstance(e, ast.Name) and e.id == x:
                                        ret_pos = i if isinstance(r.value, ast.Tuple) else -1
                        caller_reads = []
                        if ret_pos is not None:
                            for mn2, fn2 in c.methods.items():
                                for a in walk_no_nested(fn2):
                                    if isinstance(a, ast.Assign) and isinstance(a.value, ast.Call) and norm(a.value.func) in ("self.%s" % mn, "cls.%s" % mn, "%s.%s" % (c.name, mn)):
                                        tgt = a.targets[0]
                                        var = None
                                        if ret_pos == -1 and isinstance(tgt, ast.Name):
                                            var = tgt.id
                                        elif ret_pos >= 0 and isinstance(tgt, ast.Tuple) and ret_pos < len(tgt.elts) and isinstance(tgt.elts[ret_pos], ast.Name):
                                            var = tgt.elts[ret_pos].id
                                        if var:
                                            for u in walk_no_nested(fn2):
                                                if isinstance(u, ast.Attribute) and isinstance(u.value, ast.Name) and u.value.id == var and u.attr in props and (u.lineno, u.col_offset) > (a.lineno, a.col_offset):
                                                    caller_reads.append((mn2, u))
                                                if isinstance(u, ast.Call) and isinstance(u.func, ast.Attribute) and u.func.attr in ("has_value", "getattr") and isinstance(u.func.value, ast.Name) and u.func.value.id == var and u.args and isinstance(u.args[0], ast.Constant) and u.args[0].value in props and u.lineno > a.lineno:
                                                    caller_reads.append((mn2, u))
                        bad = later or caller_reads
                        where = norm(later[0]) if later else ("%s: %s" % (caller_reads[0][0], norm(caller_reads[0][1])) if caller_reads else "")
                        res.check(
                            "Q1-CLOBBER",
                            "%s.%s: store %s (may be %s)" % (c.name, mn, norm(t), sorted({cn for cn, _p in victims})),
                            not bad,
                            m,
                            n,
                            "%s.%s: %s then read of derived %s (%s)" % (c.name, mn, norm(n)[:80], props, where),
                            "%s of a %s is computed from %s; after this store the derived value read later is computed from the overwritten field (wrong heading / lateral velocity in the goal check)" % (props, sorted({cn for cn, _p in victims}), sorted(set().union(*[dp[v] for v in victims]))),
                            qualname="%s.%s" % (c.name, mn),
                        )
    if n_sites == 0:
        res.ok("Q1-CLOBBER", "no store into velocity / velocity_y / orientation of a foreign state object in planning/ (nothing can be clobbered)")

    # ---------------------------------------------------------------- Q2 (shared with C16): evaluated
    c16.dispatch_rule(repo, res, "Q2-DISPATCH")

    # ---------------------------------------------------------------- Q3..Q7: decided by evaluation (c08ev)
    from . import c08ev

    before = len(res.findings)
    c08ev.reached_rules(repo, res, "Q9-REACHED")
    c08ev.index_rules(repo, res, "Q6-INDEX")
    isr = goal.methods["is_reached"]
    qn = "GoalRegion.is_reached"
    # Q3: the attributes a goal state may constrain are the ones the evaluated suites show to be tested (each of them,
    # violated alone, makes the goal state unreached)
    valid = None
    vfn = goal.methods["_validate_goal_state"]
    for n in walk_no_nested(vfn):
        if isinstance(n, ast.Assign) and isinstance(n.value, (ast.List, ast.Tuple, ast.Set)) and all(isinstance(e, ast.Constant) for e in n.value.elts) and "valid" in norm(n.targets[0]):
            valid = [e.value for e in n.value.elts]
    if valid is None:
        raise AnalysisError("_validate_goal_state: list of valid fields not found")
    checked = list(c08ev.ATTRS)
    res.check("Q3-FIELDS", "validated %s = checked %s" % (sorted(valid), sorted(checked)), sorted(valid) == sorted(checked), gmod, vfn, "is_reached checks %s, goal states may constrain %s" % (sorted(checked), sorted(valid)), "a goal state may constrain an attribute that is_reached never checks (or vice versa): the constraint is silently ignored", qualname="GoalRegion._validate_goal_state")
    # heading convention atan2(vy, vx) at every site of the package
    from ..flowtools import mentions as _m

    n_at = 0
    for rel in (G, ST, PR):
        m = repo.mod(rel)
        for fdef in [x for x in ast.walk(m.tree) if isinstance(x, ast.FunctionDef)]:
            frd = None
            for n in walk_no_nested(fdef):
                if isinstance(n, ast.Call) and norm(n.func) in ("math.atan2", "np.arctan2", "numpy.arctan2") and len(n.args) == 2:
                    frd = frd or ReachingDefs(fdef)
                    a0, a1 = [canon(x, frd, frd.stmt_of(n), []) for x in n.args]
                    if rel != G and (_m(a0, "velocity") or _m(a1, "velocity") or _m(a0, "velocity_y") or _m(a1, "velocity_y")):
                        n_at += 1
                        ok = _m(a0, "velocity_y") and not _m(a1, "velocity_y") and _m(a1, "velocity")
                        res.check("Q5-PAIRING", "%s: %s" % (rel.split("/")[-1], norm(n)), ok, m, n, "%s: %s" % (m.qualname(n), norm(n)), "heading of a point-mass state must be atan2(vy, vx)", qualname=m.qualname(n))
    if n_at < 1:
        raise AnalysisError("no atan2(velocity_y, velocity) site found in the state classes")
    return {"derived_properties": {"%s.%s" % k: sorted(v) for k, v in dp.items()}}


def mod_parent_is(mod, node, loop):
    n = node
    while n is not None and not isinstance(n, ast.stmt):
        n = mod.parent.get(n)
    return mod.parent.get(n) is loop

"""C02 — protobuf write->read is lossless (structural clauses; E-TRIANGLE on the protobuf pair, E-NULL).

Field writes of the 40 message builders and field reads of the 41 factories (sa/pbmodel.py) are
compared with each other and with the parsed .proto files (sa/schema.py):

  PB-FIELD   every field a builder sets / a factory reads exists in its message
  PB-COVER   every field of a written message is set by its builder (reasoned exceptions)
  PB-READ    every field a builder sets is read by the factory of the same message
  PB-FLOW    the attribute a field is written from is the attribute the read value is stored to
  PB-ENUM    enums are transported by member name through the same proto enum on both sides, into the
             Python enum of the same name
  PB-IDENT   values assigned to double fields are plain attribute values (no arithmetic / formatting)
  PB-HAS     optional fields the writer sets conditionally are read under HasField
  PB-LEAF    the leaf factories (exact / interval, integer / float), evaluated: the numbers of the message unchanged;
             the writer's exact-or-interval builders, evaluated: a number into `exact`, an interval (also one whose
             ends coincide) into `interval`
  PB-STATE   no mutable default argument of a reader / writer function is changed or handed out
  PB-NULL    builders are total on objects built with default arguments: no constructor-nullable
             attribute is iterated / dereferenced / subscripted without a dominating None test, and
             dictionaries are not indexed with keys that may be missing
"""
import ast
import glob
import os

from ..core import AnalysisError, Finding, attr_chain, call_name, dominating_guards, guard_says_not_none, norm, walk_no_nested
from ..classfacts import ann_container_kinds, ctor_model
from ..effects import Effects, type_names
from ..pbmodel import RP, WP, ReaderPB, WriterPB
from ..schema import Protos

PROTO_DIR = "commonroad/scenario_definition/protobuf_format/definition_files"

# (message, field): reason — proto fields the builder legitimately leaves unset
COVER_EXCEPTIONS = {
    ("CommonRoad", "*"): "top-level message is assembled in ProtobufFileWriter, checked separately",
}
# (class, attribute): reason — attributes outside the property's quantifier when None
NULL_EXCEPTIONS = {
    ("TrafficLight", "traffic_light_cycle"): "the property quantifies over traffic lights with a non-empty cycle",
    ("TrafficLight", "_traffic_light_cycle"): "the property quantifies over traffic lights with a non-empty cycle",
}
# optional position of signs / lights: quantifier says explicit positions
HAS_EXCEPTIONS = {
    ("TrafficSign", "position"): "the property quantifies over traffic signs with explicit positions",
    ("TrafficLight", "position"): "the property quantifies over traffic lights with explicit positions",
}


def load_protos(repo):
    d = os.path.join(repo.root, PROTO_DIR)
    files = sorted(glob.glob(os.path.join(d, "*.proto")))
    if len(files) < 10:
        raise AnalysisError("only %d .proto files found under %s" % (len(files), PROTO_DIR))
    texts = {}
    for f in files:
        rel = os.path.relpath(f, repo.root)
        texts[os.path.basename(f)] = repo.read_data_file(rel)
    return Protos(texts)


def equiv_names(repo, cls, name):
    """names denoting the same datum of a domain class: attribute, private attribute, property, ctor keyword"""
    out = {name, name.lstrip("_")}
    if cls is None:
        return out
    cm = ctor_model(repo, cls)
    pa = cm.param_attrs() if cm.fn is not None and not cm.kwargs_ctor else {}
    for p, attrs in pa.items():
        s = {p} | {a.lstrip("_") for a in attrs}
        if out & s:
            out |= s
    for b in repo.mro(cls):
        for pn, pd in b.props.items():
            g = pd.get("get")
            if g is None:
                continue
            for n in ast.walk(g):
                ch = attr_chain(n) if isinstance(n, ast.Attribute) else None
                if ch and ch[0] == "self" and len(ch) == 2 and (ch[1].lstrip("_") in out or ch[1] in out):
                    out.add(pn)
    return out


def leaf_rules(repo, res):
    """PB-LEAF: the leaf factories of the reader, evaluated: an exact number is handed on as it stands in the message,
    an interval is built from the start and end of the message, whatever `is_angle` says (the kind of interval, not
    its numbers, depends on it).  Anything else — a value normalised, rounded or wrapped on reading — is not the value
    that was written."""
    from ..strdom import Ctor, Ev, Obj, PyFunc, Str, Sym, Undecided, _Raise, show

    RP_ = "commonroad/common/reader/file_reader_protobuf.py"
    for cname, kinds in (("IntegerExactOrIntervalFactory", [()]), ("FloatExactOrIntervalFactory", [(), (False,), (True,)]), ("IntegerIntervalFactory", [()]), ("FloatIntervalFactory", [(), (False,), (True,)])):
        cls = repo.cls(RP_, cname)
        fn = cls.methods.get("create_from_message")
        if fn is None:
            raise AnalysisError("%s.create_from_message missing" % cname)
        qn = "%s.create_from_message" % cname
        for extra in kinds:
            for present in (("exact", "interval") if "ExactOr" in cname else ("interval",)):
                st, en, ex = Sym("start", "num"), Sym("end", "num"), Sym("exact", "num")
                iv = Obj(None, {"start": st, "end": en}, closed=True, label="interval message")
                if "ExactOr" in cname:
                    msg = Obj(None, {"exact": ex, "interval": iv, "HasField": PyFunc(lambda a, k, present=present: isinstance(a[0], Str) and a[0].is_lit() and a[0].text() == present, "HasField"), "WhichOneof": PyFunc(lambda a, k, present=present: Str.lit(present), "WhichOneof")}, closed=True, label="message")
                else:
                    msg = iv
                ev = Ev(repo, opaque_calls={"make_valid_orientation", "make_valid_orientation_interval"})
                ev.pure_modules = {"np", "numpy", "math"}
                label = "%s%s" % ("exact value" if present == "exact" else "interval", "" if not extra else (", angle" if extra[0] else ", not an angle"))
                bad = None
                try:
                    r = ev.call_fn(ev.bind(fn, cls, None, via_class=None), [msg] + list(extra), {}, fn)
                    if present == "exact":
                        if r is not ex:
                            bad = "hands on %s, the message holds exact" % show(r)
                    else:
                        a = list(r.args.values()) if isinstance(r, Ctor) else None
                        want = "AngleInterval" if extra == (True,) else "Interval"
                        if not (isinstance(r, Ctor) and r.name in ("Interval", "AngleInterval") and len(a) == 2 and a[0] is st and a[1] is en):
                            bad = "hands on %s, the message holds the interval (start, end)" % show(r)
                        elif r.name != want:
                            bad = "builds an %s for a value that is %s" % (r.name, "an angle" if extra == (True,) else "not an angle")
                except _Raise as x:
                    bad = "raises %s" % x.what
                except Undecided as x:
                    raise AnalysisError("%s [%s]: %s" % (qn, label, x))
                res.check("PB-LEAF", "%s [%s]: the numbers of the message, unchanged" % (qn, label), bad is None, cls.mod, fn, "%s [%s] %s" % (qn, label, bad), "a number is changed on reading (normalised, rounded, wrapped): what is read is not what was written", qualname=qn)


def writer_leaf_rules(repo, res):
    """PB-LEAF on the writer side: IntegerExactOrIntervalMessage / FloatExactOrIntervalMessage.create_message, evaluated
    on message models: a number goes into `exact` as it is; an interval goes into `interval` with its own start and
    end — also an interval whose ends coincide (it stays an interval: the reader builds the kind the message holds)."""
    from ..strdom import ClassRef, Ev, Lenient, Obj, PyFunc, Sym, Undecided, _Raise, show

    WP_ = "commonroad/common/writer/file_writer_protobuf.py"
    U_ = "commonroad/common/util.py"
    ivc = repo.cls(U_, "Interval")
    for cname, kinds in (("IntegerExactOrIntervalMessage", ("int",)), ("FloatExactOrIntervalMessage", ("float", "int"))):
        cls = repo.cls(WP_, cname)
        fn = cls.methods.get("create_message")
        if fn is None:
            raise AnalysisError("%s.create_message missing" % cname)
        qn = "%s.create_message" % cname
        cases = [("a number (%s)" % k, Sym("value", k), None) for k in kinds] + [("an interval", "iv", False), ("an interval whose ends coincide", "iv", True)]
        for label, value, same_ends in cases:
            st, en = Sym("start", kinds[0]), Sym("end", kinds[0])
            if value == "iv":
                value = Obj(ivc, {"_start": st, "_end": en}, label="interval")
            ev = Ev(repo)
            ev.pure_modules = {"np", "numpy", "math"}
            ev.oracle = lambda kind, a, b, st=st, en=en, same_ends=same_ends: ((same_ends if kind == "Eq" else not same_ends) if kind in ("Eq", "NotEq") and {id(a), id(b)} == {id(st), id(en)} else (True if kind in ("LtE", "GtE") and {id(a), id(b)} == {id(st), id(en)} else (False if same_ends else (id(a) == id(st))) if kind in ("Lt", "Gt") and {id(a), id(b)} == {id(st), id(en)} else None))
            bad = None
            try:
                r = ev.call_fn(ev.bind(fn, cls, None, via_class=ClassRef(cls)), [value], {}, fn)
                if not isinstance(r, Lenient):
                    bad = "gives %s" % show(r)
                else:
                    copies = [a_[0] for what, a_, _k in r.root.log if what.endswith("interval.CopyFrom") and a_]
                    if isinstance(value, Obj):
                        src = copies[0] if len(copies) == 1 else None
                        if "exact" in r.fields and not isinstance(r.fields["exact"], Lenient):
                            bad = "writes the interval as the exact value %s" % show(r.fields["exact"])
                        elif not (isinstance(src, Obj) and src.fields.get("start") is st and src.fields.get("end") is en):
                            bad = "fills `interval` from %s" % (show(src) if src is not None else "nothing")
                    elif r.fields.get("exact") is not value or copies:
                        bad = "writes exact = %s%s" % (show(r.fields.get("exact")) if "exact" in r.fields else "nothing", " and an interval" if copies else "")
            except _Raise as x:
                bad = "raises %s" % x.what
            except Undecided as x:
                raise AnalysisError("%s [%s]: %s" % (qn, label, x))
            res.check("PB-LEAF", "%s [%s]: the value goes into the member of its kind, unchanged" % (qn, label), bad is None, cls.mod, fn, "%s [%s] %s" % (qn, label, bad), "an interval-valued attribute is not written as the interval it is (or a number not as that number): it reads back as another kind of value", qualname=qn)


def mutable_default_rule(repo, res, rels, RULE):
    """no function of the given modules has a mutable default argument that it changes or hands out: such a default is
    one object shared by all calls, so what one call collects is still there in the next (the second traffic sign read
    carries the lanelets of the first)."""
    MUT = {"append", "extend", "insert", "pop", "remove", "clear", "update", "setdefault", "sort", "reverse", "add", "discard", "popitem", "__setitem__"}
    n = 0
    for rel in rels:
        m = repo.mod(rel)
        for fn in [x for x in ast.walk(m.tree) if isinstance(x, (ast.FunctionDef, ast.AsyncFunctionDef))]:
            a = fn.args
            pos = a.posonlyargs + a.args
            pairs = list(zip(pos[len(pos) - len(a.defaults):], a.defaults)) + [(p, d) for p, d in zip(a.kwonlyargs, a.kw_defaults) if d is not None]
            n += 1
            for prm, d in pairs:
                mutable = isinstance(d, (ast.List, ast.Dict, ast.Set, ast.ListComp, ast.DictComp, ast.SetComp)) or (isinstance(d, ast.Call) and isinstance(d.func, ast.Name) and d.func.id in ("set", "list", "dict", "defaultdict", "OrderedDict", "deque", "bytearray"))
                if not mutable:
                    continue
                bad = None
                for x in ast.walk(fn):
                    if isinstance(x, ast.Call) and isinstance(x.func, ast.Attribute) and isinstance(x.func.value, ast.Name) and x.func.value.id == prm.arg and x.func.attr in MUT:
                        bad = x
                    elif isinstance(x, (ast.Subscript, ast.Attribute)) and isinstance(x.ctx, (ast.Store, ast.Del)) and isinstance(x.value, ast.Name) and x.value.id == prm.arg:
                        bad = x
                    elif isinstance(x, ast.AugAssign) and isinstance(x.target, ast.Name) and x.target.id == prm.arg:
                        bad = x
                    elif isinstance(x, ast.Return) and isinstance(x.value, ast.Name) and x.value.id == prm.arg:
                        bad = x
                    if bad is not None:
                        break
                # a parameter rebound before use (x = x or []) no longer denotes the default
                rebound = any(isinstance(x, ast.Name) and isinstance(x.ctx, ast.Store) and x.id == prm.arg for x in ast.walk(fn))
                res.check(RULE, "%s: mutable default of %s is neither changed nor handed out" % (m.qualname(fn), prm.arg), bad is None or rebound, m, bad or fn, "%s changes / returns its default argument %s" % (m.qualname(fn), prm.arg), "the default is one object shared by all calls: what one call adds is still there in the next, so the objects read / written depend on what was read / written before", qualname=m.qualname(fn))
    if n < 60:
        raise AnalysisError("only %d functions examined for mutable defaults" % n)
    res.ok(RULE, "%d functions of %s examined: no mutable default argument is changed or handed out" % (n, ", ".join(r.split("/")[-1] for r in rels)))


def _message_handed_on(wmod, fn):
    """a local that holds a freshly made protobuf message (`x = some_pb2.T()`) is passed as an argument to a
    module-level function of the writer module"""
    msgs = set()
    for n in ast.walk(fn):
        if isinstance(n, ast.Assign) and len(n.targets) == 1 and isinstance(n.targets[0], ast.Name) and isinstance(n.value, ast.Call) and not n.value.args and isinstance(n.value.func, ast.Attribute) and isinstance(n.value.func.value, ast.Name) and n.value.func.value.id.endswith("_pb2"):
            msgs.add(n.targets[0].id)
    for c in ast.walk(fn):
        if isinstance(c, ast.Call) and isinstance(c.func, ast.Name) and c.func.id in wmod.functions:
            if any(isinstance(a, ast.Name) and a.id in msgs for a in list(c.args) + [k.value for k in c.keywords]):
                return True
    return False


def _dynamic_field_reader(rmod, fn):
    """the factory passes one of its parameters to a module-level function that reads attributes of it by a name that
    is not a constant (getattr(p, name) / p.HasField(name))"""
    params = {a.arg for a in fn.args.args}
    for c in ast.walk(fn):
        if not (isinstance(c, ast.Call) and isinstance(c.func, ast.Name) and c.func.id in rmod.functions):
            continue
        callee = rmod.functions[c.func.id]
        cps = [a.arg for a in callee.args.args]
        for i, a in enumerate(c.args):
            if isinstance(a, ast.Name) and a.id in params and i < len(cps):
                p_ = cps[i]
                for n in ast.walk(callee):
                    if isinstance(n, ast.Call) and ((isinstance(n.func, ast.Name) and n.func.id == "getattr" and len(n.args) >= 2 and isinstance(n.args[0], ast.Name) and n.args[0].id == p_ and not isinstance(n.args[1], ast.Constant)) or (isinstance(n.func, ast.Attribute) and n.func.attr == "HasField" and isinstance(n.func.value, ast.Name) and n.func.value.id == p_ and n.args and not isinstance(n.args[0], ast.Constant))):
                        return True
    return False


def run(repo, res, tier):
    res.rule("PB-LEAF", "leaf factories hand on the numbers of the message unchanged", 12)
    res.rule("PB-STATE", "no mutable default argument is changed or handed out in reader / writer", 1)
    leaf_rules(repo, res)
    writer_leaf_rules(repo, res)
    mutable_default_rule(repo, res, ["commonroad/common/reader/file_reader_protobuf.py", "commonroad/common/writer/file_writer_protobuf.py"], "PB-STATE")
    res.rule("PB-FIELD", "fields set / read exist in the message definition", 150)
    res.rule("PB-COVER", "every field of a written message is set by its builder", 80)
    res.rule("PB-READ", "every field a builder sets is read by the paired factory", 60)
    res.rule("PB-FLOW", "field written from attribute a is read back into attribute a", 40)
    res.rule("PB-ENUM", "enum transport by name through the same proto enum into the same-named Python enum", 15)
    res.rule("PB-IDENT", "double fields receive plain attribute values", 10)
    res.rule("PB-HAS", "conditionally written optional fields are read under HasField", 8)
    res.rule("PB-NULL", "builders are total on default-constructed objects", 5)
    res.rule("PB-GUARD", "a value is written whenever it is present: presence tests are None tests, not truthiness of a scalar", 10)
    res.rule("PB-FRESH", "every public write method starts from a fresh document before it fills it", 2)
    from .c15 import fresh_document_records

    for qn_, f_, ok_, mod_, site_, in_fn in fresh_document_records(repo, "commonroad/common/writer/file_writer_protobuf.py", "ProtobufFileWriter"):
        res.check("PB-FRESH", "%s: self.%s re-created before it is filled" % (qn_, f_), ok_, mod_, site_, "%s fills self.%s (%s in %s) without re-creating it first" % (qn_, f_, norm(site_)[:60], in_fn), "repeated fields filled by an earlier write call are still in the message: the second file of a writer holds every lanelet, obstacle and planning problem twice and does not read back", qualname=qn_)
    res.rule("PB-KEY", "goal lanelets are keyed by the position of their goal state on both sides", 2)
    protos = load_protos(repo)
    w = WriterPB(repo)
    r = ReaderPB(repo)
    wmod, rmod = w.mod, r.mod
    eff = Effects(repo)
    if len(w.builders) < 38 or len(r.factories) < 38:
        raise AnalysisError("message builders / factories lost: %d / %d" % (len(w.builders), len(r.factories)))

    # pair by message type
    by_msg_r = {}
    for name, fa in r.factories.items():
        ann = None
        for a in fa.fn.args.args:
            if a.arg == fa.msg_param and a.annotation is not None:
                ann = norm(a.annotation)
        if ann and "_pb2." in ann:
            by_msg_r[ann.split(".")[-1]] = fa
    slots = None
    ss = repo.resolve_class(wmod, "SignalState")
    sl = ss.class_assigns.get("__slots__")
    slot_names = [e.value for e in sl.elts] if isinstance(sl, (ast.List, ast.Tuple)) else []
    st_cls = repo.cls("commonroad/scenario/state.py", "State")
    state_fields = []
    for sc in repo.subclasses(st_cls):
        for f in repo.dataclass_fields(sc):
            if f not in state_fields:
                state_fields.append(f)

    # builders reachable from the file writer (dead helper messages are noted, not analysed)
    reach, todo = set(), []
    pwc = wmod.classes["ProtobufFileWriter"]
    for fn in pwc.methods.values():
        for n in ast.walk(fn):
            if isinstance(n, ast.Call) and isinstance(n.func, ast.Attribute) and n.func.attr == "create_message" and isinstance(n.func.value, ast.Name):
                todo.append(n.func.value.id)
    while todo:
        x = todo.pop()
        if x in reach or x not in w.builders:
            continue
        reach.add(x)
        for n in ast.walk(w.builders[x].fn):
            if isinstance(n, ast.Call) and isinstance(n.func, ast.Attribute) and n.func.attr == "create_message" and isinstance(n.func.value, ast.Name):
                todo.append(n.func.value.id)
    if len(reach) < 30:
        raise AnalysisError("only %d message builders reachable from ProtobufFileWriter" % len(reach))

    for bname, b in sorted(w.builders.items()):
        if bname not in reach:
            res.note("builder %s is not reachable from ProtobufFileWriter (not analysed)" % bname)
            continue
        mname = b.msg_type[1]
        msg = protos.message(mname)
        if msg is None:
            raise AnalysisError("message %s of builder %s not found in the .proto files" % (mname, bname))
        qn = "%s.create_message" % bname
        dom = None
        if b.params and b.params[0] in b.param_ann:
            cs = [repo.resolve_class(wmod, n) for n in type_names(b.param_ann[b.params[0]])]
            cs = [c for c in cs if c is not None and not c.is_enum]
            dom = cs[0] if cs else None
        written = {}
        for fw in b.writes:
            written.setdefault(fw.field, []).append(fw)
            res.check("PB-FIELD", "%s sets %s.%s" % (bname, mname, fw.field), fw.field in msg.fields, wmod, fw.node, "%s sets unknown field %s.%s" % (bname, mname, fw.field), "the builder sets a field the message does not have (AttributeError at write time)", qualname=qn)
        generic_fields = set()
        for kind, node in b.generic:
            if bname == "StateMessage":
                generic_fields = {f for f in state_fields if f in msg.fields}
            elif bname == "SignalStateMessage":
                generic_fields = {f for f in slot_names if f in msg.fields}
        # coverage
        for f in msg.order:
            if (mname, f) in COVER_EXCEPTIONS:
                res.note("PB-COVER exception %s.%s: %s" % (mname, f, COVER_EXCEPTIONS[(mname, f)]))
                continue
            ok = f in written or f in generic_fields
            if not ok and _message_handed_on(wmod, b.fn):
                # the builder passes the message it fills to a function of the module: what that function sets is not
                # followed, so `never sets` cannot be concluded
                res.refuse("%s hands the message it builds to a function of the module; whether %s.%s is set there is not decided" % (qn, mname, f))
                continue
            res.check("PB-COVER", "%s.%s is set by %s" % (mname, f, bname), ok, wmod, b.fn, "%s never sets %s.%s" % (bname, mname, f), "the format has a field for this information but the writer never fills it: it is lost on writing", qualname=qn)
        fa = by_msg_r.get(mname)
        if fa is None:
            res.note("no factory takes a %s message" % mname)
            continue
        rq = "%s.create_from_message" % fa.cls.name
        read_fields = {}
        for fr in fa.reads:
            read_fields.setdefault(fr.field, []).append(fr)
            res.check("PB-FIELD", "%s reads %s.%s" % (fa.cls.name, mname, fr.field), fr.field in msg.fields, rmod, fr.node, "%s reads unknown field %s.%s" % (fa.cls.name, mname, fr.field), "the factory reads a field the message does not have", qualname=rq)
        rgeneric = bool(fa.generic)
        def srcs_of(fws):
            srcs = set()
            for fw in fws:
                s = fw.source
                if s is None and fw.enum is not None:
                    # constant enum member chosen under a test on the domain object
                    for t, _pol in fw.guards:
                        try:
                            ch = attr_chain(ast.parse(t, mode="eval").body)
                        except SyntaxError:
                            ch = None
                        if ch and ch[0] in b.params:
                            s = ".".join(ch)
                            break
                if s:
                    for alt in s.split("|"):
                        segs = [x.split("[")[0] for x in alt.replace("[*]", "").split(".")][1:]
                        srcs |= {x for x in segs if x and not x.startswith("{") and x not in ("name", "value")}
            return srcs

        def dests_of(f):
            dests = set()
            for fr in read_fields.get(f, []):
                dests |= {d for d in fr.dests if not d.startswith("<return")}
            return dests

        def dest_names(d, srcs):
            dn = set(equiv_names(repo, dom, d))
            # nested objects reached through an attribute (traffic_light_cycle.cycle_elements)
            for sname in list(srcs):
                for c2 in eff.classes_named(eff.attr_types(dom).get(sname, set()) | eff.attr_types(dom).get("_" + sname, set()), dom.mod):
                    dn |= equiv_names(repo, c2, d)
            return dn

        field_srcs = {f: srcs_of(fws) for f, fws in written.items()} if dom is not None else {}
        for f, fws in sorted(written.items()):
            ok = f in read_fields or (rgeneric and (f in generic_fields or f in fa.hasfield or True if fa.cls.name in ("StateFactory", "SignalStateFactory") else False))
            if fa.cls.name == "StateFactory" and f in ("point", "shape", "time_step"):
                ok = f in read_fields
            if not ok and _dynamic_field_reader(rmod, fa.fn):
                # the message is handed to a function that reads fields by computed name: which fields are read is not
                # visible in the factory, so `never reads` cannot be concluded
                res.refuse("%s hands the message to a function that reads fields by computed name; whether %s.%s is read is not decided" % (rq, mname, f))
                continue
            res.check("PB-READ", "%s.%s written by %s is read by %s" % (mname, f, bname, fa.cls.name), ok, rmod, fa.fn, "%s never reads %s.%s" % (fa.cls.name, mname, f), "the field is written but ignored on reading: the information is lost", qualname=rq)
            # flow
            if f in read_fields and dom is not None:
                dests = dests_of(f)
                srcs = field_srcs[f]
                if dests and srcs:
                    names = set()
                    for d in dests:
                        names |= dest_names(d, srcs)
                    # crossing: an attribute that has its own field g is filled from f while g does not reach it
                    wrong = []
                    for d in sorted(dests):
                        dn = dest_names(d, srcs)
                        if dn & srcs:
                            continue
                        for g, gs in field_srcs.items():
                            if g != f and gs and (dest_names(d, gs) & gs) and d not in dests_of(g):
                                wrong.append(d)
                                break
                    ok = bool(srcs & names) and not wrong
                    res.check("PB-FLOW", "%s.%s: written from %s, read into %s" % (mname, f, sorted(srcs), sorted(dests)), ok, rmod, read_fields[f][0].node, "%s.%s is written from %s but read into %s" % (mname, f, sorted(srcs), sorted(wrong or dests)), "the value stored for one attribute is read back into another: fields are crossed", qualname=rq)
            # enum transport
            for fw in fws:
                if fw.enum is not None:
                    renums = {fr.enum for fr in read_fields.get(f, []) if fr.enum}
                    pys = {fr.pyenum for fr in read_fields.get(f, []) if fr.pyenum}
                    penum_name = fw.enum.split(".")[-1]
                    is_dir = penum_name == "DrivingDir"
                    ok = renums == {fw.enum} and (is_dir or pys == {penum_name})
                    res.check("PB-ENUM", "%s.%s: %s.Value(name) <-> %s[%s.Name(..)]" % (mname, f, fw.enum.split(".")[-1], sorted(pys), sorted(x.split(".")[-1] for x in renums)), ok, rmod, read_fields[f][0].node if f in read_fields else fa.fn, "%s.%s written through %s, read through %s into %s" % (mname, f, fw.enum, sorted(renums), sorted(pys)), "the enum member name is looked up in another enumeration on reading", qualname=rq)
                    if fw.how in ("assign", "append") and isinstance(fw.value, ast.Call) and fw.value.args and not (isinstance(fw.value.args[0], ast.Attribute) and fw.value.args[0].attr == "name") and not isinstance(fw.value.args[0], ast.Constant):
                        res.bad("PB-ENUM", "%s.%s enum by name" % (mname, f), Finding("PB-ENUM", wmod, fw.node, "%s.%s = %s" % (mname, f, norm(fw.value)[:80]), "the enum is not transported by member name", qualname=qn))
            # identity of doubles
            for fw in fws:
                ft = msg.fields.get(f, {}).get("type")
                if ft in ("double", "float") and fw.how in ("assign", "append"):
                    v = fw.value
                    plain = isinstance(v, (ast.Attribute, ast.Name, ast.Subscript)) and not any(isinstance(x, (ast.BinOp, ast.Call)) for x in ast.walk(v))
                    res.check("PB-IDENT", "%s.%s (double) = %s" % (mname, f, norm(v)[:60]), plain, wmod, fw.node, "%s.%s = %s" % (mname, f, norm(v)[:80]), "a real value is transformed before it is stored: it does not read back bit-identical", qualname=qn)
            # HasField discipline
            lab = msg.fields.get(f, {}).get("label")
            cond = all(any(("is not None" in t and pol) or ("is None" in t and not pol) for t, pol in fw.guards) for fw in fws)
            if lab == "optional" and cond and f in read_fields:
                guarded = f in fa.hasfield or any("HasField(" in t and pol for fr in read_fields[f] for t, pol in fr.guards)
                if (mname, f) in HAS_EXCEPTIONS:
                    res.note("PB-HAS exception %s.%s: %s" % (mname, f, HAS_EXCEPTIONS[(mname, f)]))
                else:
                    res.check("PB-HAS", "%s.%s written only when present -> read under HasField" % (mname, f), guarded, rmod, read_fields[f][0].node, "%s reads optional %s.%s without HasField" % (fa.cls.name, mname, f), "absent optional data is read back as the field's default value instead of staying absent", qualname=rq)

            # presence guard of scalar values
            if dom is not None:
                for fw in fws:
                    if not fw.source or fw.source.count(".") < 1:
                        continue
                    attr = fw.source.split(".")[1].split("[")[0]
                    tn = eff.attr_types(dom).get(attr, set()) | eff.attr_types(dom).get("_" + attr, set())
                    scalar = bool(tn & {"bool", "int", "float"}) and not (tn & {"List", "Set", "Dict", "list", "set", "dict", "Tuple", "ndarray"})
                    if not scalar:
                        continue
                    truthy = [(t, pol) for t, pol in fw.guards if pol and t.replace("._", ".") == fw.source.replace("._", ".")]
                    res.check("PB-GUARD", "%s.%s: presence of %s is not tested by truthiness" % (mname, f, fw.source), not truthy, wmod, fw.node, "%s.%s written only if %s is truthy" % (mname, f, fw.source), "False / 0 / 0.0 are values, not absence: they are dropped on writing and read back as the default", qualname=qn)

        # ---------------- PB-GUARD: whether an attribute is written depends on that attribute only.  A condition
        # on a sibling attribute of the written object drops the value for objects the model allows.
        for fw in b.writes:
            if not fw.source or "." not in fw.source:
                continue
            parts = fw.source.split(".")
            root, sattr = parts[0], parts[1].split("[")[0].lstrip("_")
            if root not in b.params:
                continue
            for t, pol in fw.guards:
                try:
                    te = ast.parse(t, mode="eval").body
                except SyntaxError:
                    continue
                others = set()
                for n in ast.walk(te):
                    ch = attr_chain(n) if isinstance(n, ast.Attribute) else None
                    if ch and len(ch) >= 2 and ch[0] == root:
                        others.add(ch[1].lstrip("_"))
                    if isinstance(n, ast.Call) and call_name(n) in ("getattr", "hasattr") and len(n.args) >= 2 and isinstance(n.args[0], ast.Name) and n.args[0].id == root:
                        others.add("*")
                if not others or "*" in others:
                    continue
                ok = sattr in others
                res.check("PB-GUARD", "%s.%s <- %s is written under `%s`, a test of that attribute" % (mname, fw.field, fw.source, t[:60]), ok, wmod, fw.node, "%s.%s written only when %s%s" % (mname, fw.field, "" if pol else "not ", t[:80]), "whether %s is written depends on %s, another attribute of the object: for objects where that test fails the value is dropped" % (fw.source, ", ".join(sorted(others))), qualname=qn)

        # ---------------- PB-NULL (writer totality)
        if dom is not None:
            p = b.params[0]
            cm = ctor_model(repo, dom)
            for n in walk_no_nested(b.fn):
                use = None
                target = None
                if isinstance(n, ast.For):
                    target, use = n.iter, "for .. in %s" % norm(n.iter)
                elif isinstance(n, ast.Attribute) and isinstance(n.value, ast.Attribute) and isinstance(n.ctx, ast.Load):
                    target, use = n.value, norm(n)
                elif isinstance(n, ast.Subscript) and isinstance(n.ctx, ast.Load):
                    target, use = n.value, norm(n)
                if target is None:
                    continue
                ch = attr_chain(target)
                if not ch or ch[0] != p or len(ch) < 2:
                    continue
                # walk the chain: is some prefix attribute nullable?
                cls = dom
                for i, a in enumerate(ch[1:], start=1):
                    if cls is None:
                        break
                    cmi = ctor_model(repo, cls)
                    priv = a
                    _c, pd = repo.find_prop(cls, a)
                    if pd is not None and "get" in pd:
                        body = [s_ for s_ in pd["get"].body if not (isinstance(s_, ast.Expr) and isinstance(s_.value, ast.Constant))]
                        if len(body) == 1 and isinstance(body[0], ast.Return) and body[0].value is not None:
                            c2 = attr_chain(body[0].value)
                            if c2 and len(c2) == 2 and c2[0] == "self":
                                priv = c2[1]
                    is_last = i == len(ch) - 1
                    nullable = not cmi.kwargs_ctor and priv in cmi.attributes() and cmi.nullable(priv)
                    prefix = ".".join(ch[: i + 1])
                    # the nullable prefix is dereferenced if it is not the last element, or if the whole chain is iterated / subscripted
                    deref = (not is_last) or isinstance(n, (ast.For, ast.Subscript))
                    if nullable and deref:
                        st = n
                        guards = dominating_guards(wmod, n, stop=b.fn)
                        g_ok = guard_says_not_none(guards, prefix)
                        inst = "%s: %s (%s.%s may be None)" % (bname, use, cls.name, a)
                        if (cls.name, a) in NULL_EXCEPTIONS or (cls.name, priv) in NULL_EXCEPTIONS:
                            res.note("PB-NULL exception %s: %s" % (inst, NULL_EXCEPTIONS.get((cls.name, a)) or NULL_EXCEPTIONS.get((cls.name, priv))))
                        else:
                            res.check("PB-NULL", inst, g_ok, wmod, n, "%s: %s without None test of %s" % (bname, use, prefix), "%s.%s defaults to None in the constructor; the builder iterates / dereferences it unguarded: writing an object built with default arguments raises TypeError/AttributeError" % (cls.name, a), qualname=qn)
                    nxt = eff.classes_named(eff.attr_types(cls).get(a, set()) | eff.attr_types(cls).get(priv, set()), cls.mod)
                    cls = nxt[0] if nxt else None
                # dictionary indexed by a possibly missing key
                if isinstance(n, ast.Subscript) and not isinstance(n.slice, (ast.Constant, ast.Slice)):
                    cls2 = dom
                    kinds = set()
                    for a in ch[1:]:
                        if cls2 is None:
                            break
                        _c, pd = repo.find_prop(cls2, a)
                        if a == ch[-1] and pd is not None and "get" in pd and pd["get"].returns is not None:
                            kinds = ann_container_kinds(norm(pd["get"].returns))
                        nxt = eff.classes_named(eff.attr_types(cls2).get(a, set()), cls2.mod)
                        cls2 = nxt[0] if nxt else None
                    if "dict" in kinds:
                        g = [(norm(t), pol) for t, pol in dominating_guards(wmod, n, stop=b.fn)]
                        key = norm(n.slice)
                        ok = ("%s in %s" % (key, norm(n.value)), True) in g
                        res.check("PB-NULL", "%s: %s key present" % (bname, norm(n)), ok, wmod, n, "%s: %s without `%s in ..` test" % (bname, norm(n), key), "the dictionary has entries only for some keys: indexing raises KeyError (or inserts into a defaultdict, changing the object while writing)", qualname=qn)
    # ---------------- PB-KEY
    from ..keyrule import goal_table_keys, writer_goal_keys

    ppf = r.factories.get("PlanningProblemFactory")
    if ppf is None:
        raise AnalysisError("PlanningProblemFactory missing")
    for key, node, ok, why in goal_table_keys(ppf.fn):
        res.check("PB-KEY", "reader files goal lanelets under %s (%s)" % (norm(key), why), ok, rmod, node, "PlanningProblemFactory stores goal lanelets under %s" % norm(key), "goal lanelets are attached to another goal state than the one they were written for: " + why, qualname="PlanningProblemFactory.create_from_message")
    ppb = w.builders.get("PlanningProblemMessage")
    if ppb is None:
        raise AnalysisError("PlanningProblemMessage missing")
    from ..keyrule import writer_goal_pairs

    ppm = wmod.classes.get("PlanningProblemMessage")
    bad_ = writer_goal_pairs(repo, ppm, ppb.fn, "GoalStateMessage.create_message", ("StateMessage.create_message",))
    res.check("PB-KEY", "writer hands every goal state exactly its own goal lanelets (evaluated on three goal states)", not bad_, wmod, ppb.fn, "PlanningProblemMessage.create_message: %s" % "; ".join(bad_[:2]), "the lanelets written with a goal state are those of another goal state (or are inherited from an earlier one)", qualname="PlanningProblemMessage.create_message")
    # the top-level message: every repeated / singular member of CommonRoad is filled by the file writer
    top = protos.message("CommonRoad")
    pw = wmod.classes["ProtobufFileWriter"]
    filled = set()
    from ..core import canon as _canon
    from ..dataflow import ReachingDefs as _RD

    for mn, fn in pw.methods.items():
        frd = _RD(fn)
        for n in walk_no_nested(fn):
            if isinstance(n, ast.Call) and isinstance(n.func, ast.Attribute) and n.func.attr in ("append", "CopyFrom", "extend", "add", "MergeFrom"):
                t = _canon(n.func.value, frd, frd.stmt_of(n), [])
                if t.startswith("self.commonroad_msg.") and t.count(".") == 2:
                    filled.add(t.split(".")[2])
    crf = r.factories["CommonRoadFactory"]
    read_top = {fr.field for fr in crf.reads}
    for f in top.order:
        res.check("PB-COVER", "CommonRoad.%s is filled by ProtobufFileWriter" % f, f in filled, wmod, pw.node, "ProtobufFileWriter never fills CommonRoad.%s" % f, "a whole category of scenario content is not written", qualname="ProtobufFileWriter")
        res.check("PB-READ", "CommonRoad.%s is read by CommonRoadFactory" % f, f in read_top, rmod, crf.fn, "CommonRoadFactory never reads CommonRoad.%s" % f, "a whole category of scenario content is not read", qualname="CommonRoadFactory.create_from_message")
    return {"messages": len(protos.messages), "builders": len(w.builders), "factories": len(r.factories)}

"""C15 — a file writer's output depends only on its own inputs.

  W1 NO-ACCUMULATION  a field of the writer that receives accumulating mutations (append / extend /
                      set / add ...) on the write path is re-initialised with a fresh object at the
                      start of every public write method, before the first such mutation
  W2 NO-AMBIENT       every module-level mutable cell read on a writer's write path (the shared
                      decimal precision) is assigned from the writer's own state earlier in the same
                      public write call
  W3 SKIP             every file sink of a public write method is dominated by the skip-return of the
                      overwrite policy; under policy SKIP the policy answers "skip"
  W4 CLOCK            the only other ambient read on the write path is the date stamp
  W5 NO-MUTATION      no function of the writer modules writes into a model object (the effect analysis of C18,
                      shared): writing does not change what is written, so writing twice gives the same content
"""
import ast

from ..core import AnalysisError, Finding, attr_chain, call_name, dominating_guards, norm, walk_no_nested

WX = "commonroad/common/writer/file_writer_xml.py"
WP = "commonroad/common/writer/file_writer_protobuf.py"
WI = "commonroad/common/writer/file_writer_interface.py"
WF = "commonroad/common/file_writer.py"

ACCUM = {"append", "extend", "insert", "add", "update", "set", "CopyFrom", "MergeFrom", "setdefault", "remove", "clear"}
PUBLIC = ("write_to_file", "write_scenario_to_file")
AMBIENT_PREFIXES = ("datetime.", "time.", "random.", "os.environ", "os.getenv", "uuid.", "getpass.", "socket.", "platform.")


def self_calls(fn):
    return [n.func.attr for n in walk_no_nested(fn) if isinstance(n, ast.Call) and isinstance(n.func, ast.Attribute) and isinstance(n.func.value, ast.Name) and n.func.value.id == "self"]


def mutated_fields(repo, cls, fn, seen=None):
    """self fields that fn (transitively through self-calls) mutates by an accumulating call or item/attr store."""
    seen = seen if seen is not None else set()
    if id(fn) in seen:
        return {}
    seen.add(id(fn))
    out = {}
    for n in walk_no_nested(fn):
        if isinstance(n, ast.Call) and isinstance(n.func, ast.Attribute) and n.func.attr in ACCUM:
            ch = attr_chain(n.func.value)
            if ch and ch[0] == "self" and len(ch) >= 2:
                out.setdefault(ch[1], n)
        if isinstance(n, (ast.Assign, ast.AugAssign)):
            for t in n.targets if isinstance(n, ast.Assign) else [n.target]:
                ch = attr_chain(t.value) if isinstance(t, (ast.Subscript, ast.Attribute)) else None
                if ch and ch[0] == "self" and len(ch) >= 2 and isinstance(t, (ast.Subscript, ast.Attribute)):
                    # self.F.x = .. / self.F[k] = ..
                    out.setdefault(ch[1], n)
    for name in self_calls(fn):
        _o, m = repo.find_method(cls, name)
        if m is not None:
            for k, v in mutated_fields(repo, cls, m, seen).items():
                out.setdefault(k, v)
    return out


def ambient_reads(repo, mod, fn, seen=None, depth=0, owner=None):
    """(text, node, where) of reads of module-level mutable cells / clocks reachable from fn in module mod."""
    seen = seen if seen is not None else set()
    if id(fn) in seen or depth > 12:
        return []
    seen.add(id(fn))
    out = []
    owner = owner if owner is not None else CUR_CLS[0]
    for n in ast.walk(fn):
        if isinstance(n, ast.Attribute) and isinstance(n.ctx, ast.Load):
            ch = attr_chain(n)
            if ch and len(ch) == 2 and ch[0] in CELLS:
                out.append(("%s.%s" % (ch[0], ch[1]), n, fn.name))
        if isinstance(n, ast.Call):
            cn = norm(n.func)
            if cn.startswith(AMBIENT_PREFIXES) or ".today" in cn or cn.endswith(".now"):
                out.append((cn, n, fn.name))
            # follow calls into functions / classmethods of the same module
            tgt, towner = None, owner
            if isinstance(n.func, ast.Name) and n.func.id in mod.functions:
                tgt = mod.functions[n.func.id]
            elif isinstance(n.func, ast.Attribute) and isinstance(n.func.value, ast.Name):
                c = mod.classes.get(n.func.value.id)
                if c is not None:
                    oc, m = repo.find_method(c, n.func.attr)
                    tgt, towner = m, c
                elif n.func.value.id in ("self", "cls") and owner is not None:
                    oc, m = repo.find_method(owner, n.func.attr)
                    tgt = m
            if tgt is not None:
                out += ambient_reads(repo, mod, tgt, seen, depth + 1, towner)
    return out


CELLS = set()
CUR_CLS = [None]


class Ev:
    def __init__(self, kind, what, node, cond, fn):
        self.kind, self.what, self.node, self.cond, self.fn = kind, what, node, cond, fn

    def __repr__(self):
        return "%s(%s)%s" % (self.kind, self.what, "?" if self.cond else "")


def trace(repo, cls, mod, fn, cond=False, depth=0, seen=None, aliases=None):
    """Effects of fn in program order, helper calls on self / cls inlined (extract-method refactorings keep the
    trace): INIT(field) fresh object stored into self.field; MUT(field) accumulating mutation of it (also through
    a local alias); SETCELL(cell) / READCELL(cell) for the shared module-level cells; SINK for file output.
    cond: the event sits under a condition / in a loop (it may not happen)."""
    seen = seen if seen is not None else set()
    if id(fn) in seen or depth > 8:
        return []
    seen = seen | {id(fn)}
    out = []
    aliases = dict(aliases or {})

    def field_of(e):
        ch = attr_chain(e)
        if ch and ch[0] == "self" and len(ch) >= 2:
            return ch[1]
        if ch and ch[0] in aliases:
            return aliases[ch[0]]
        return None

    def visit_expr(e, c):
        # calls in evaluation order (arguments before the call itself)
        for n in ast.iter_child_nodes(e):
            if isinstance(n, ast.expr) or isinstance(n, (ast.keyword, ast.comprehension)):
                visit_expr(n, c or isinstance(e, (ast.IfExp, ast.ListComp, ast.GeneratorExp, ast.SetComp, ast.DictComp, ast.BoolOp)))
        if isinstance(e, ast.Attribute) and isinstance(e.ctx, ast.Load):
            ch = attr_chain(e)
            if ch and len(ch) == 2 and ch[0] in CELLS:
                out.append(Ev("READCELL", "%s.%s" % (ch[0], ch[1]), e, c, fn.name))
        if isinstance(e, ast.Call):
            cn = norm(e.func)
            if isinstance(e.func, ast.Attribute) and e.func.attr in ACCUM:
                f = field_of(e.func.value)
                if f is not None:
                    out.append(Ev("MUT", f, e, c, fn.name))
            if (cn.endswith(".write") and ("tree" in cn or "ElementTree" in cn)) or cn == "open" or cn.endswith("._serialize_write_msg") or cn.endswith(".SerializeToString") and False:
                out.append(Ev("SINK", cn, e, c, fn.name))
            # helper on self / cls / a class of the module / module function
            tgt, towner = None, cls
            if isinstance(e.func, ast.Attribute) and isinstance(e.func.value, ast.Name):
                if e.func.value.id in ("self", "cls") and cls is not None:
                    _o, tgt = repo.find_method(cls, e.func.attr)
                else:
                    k = mod.classes.get(e.func.value.id)
                    if k is not None:
                        _o, tgt = repo.find_method(k, e.func.attr)
                        towner = k
            elif isinstance(e.func, ast.Name) and e.func.id in mod.functions:
                tgt = mod.functions[e.func.id]
                towner = None
            if tgt is not None:
                # aliases handed to the helper: parameters bound to self fields
                ps = [a.arg for a in tgt.args.args]
                decos = [ast.unparse(d) for d in tgt.decorator_list]
                if ps and ps[0] in ("self", "cls") and "staticmethod" not in decos:
                    ps = ps[1:]
                al = {}
                for pn, a in list(zip(ps, e.args)) + [(k.arg, k.value) for k in e.keywords if k.arg]:
                    f = field_of(a)
                    if f is not None:
                        al[pn] = f
                tmod = towner.mod if towner is not None and hasattr(towner, "mod") else mod
                out.extend(trace(repo, towner if towner is not None else None, tmod, tgt, c, depth + 1, seen, al))

    def returned_field(call):
        """self field a helper returns (return self._root_node)"""
        if isinstance(call, ast.Call) and isinstance(call.func, ast.Attribute) and isinstance(call.func.value, ast.Name) and call.func.value.id in ("self", "cls") and cls is not None:
            _o, h = repo.find_method(cls, call.func.attr)
            if h is not None:
                fs = set()
                for r in walk_no_nested(h):
                    if isinstance(r, ast.Return) and r.value is not None:
                        ch = attr_chain(r.value)
                        fs.add(ch[1] if ch and ch[0] == "self" and len(ch) == 2 else None)
                if len(fs) == 1 and None not in fs:
                    return next(iter(fs))
        return None

    def visit_stmts(stmts, c):
        for st in stmts:
            if isinstance(st, (ast.FunctionDef, ast.AsyncFunctionDef, ast.ClassDef)):
                continue
            if isinstance(st, (ast.Assign, ast.AnnAssign, ast.AugAssign)):
                val = st.value
                if val is not None:
                    visit_expr(val, c)
                tgts = st.targets if isinstance(st, ast.Assign) else [st.target]
                for t in tgts:
                    ch = attr_chain(t) if isinstance(t, ast.Attribute) else None
                    if ch and ch[0] == "self" and len(ch) == 2 and not isinstance(st, ast.AugAssign):
                        fresh = isinstance(val, ast.Call) and field_of(val) is None and returned_field(val) is None
                        out.append(Ev("INIT" if fresh else "STORE", ch[1], st, c, fn.name))
                    elif ch and len(ch) == 2 and ch[0] in CELLS:
                        roots = {x[0] for y in ast.walk(val) if isinstance(y, ast.Attribute) for x in [attr_chain(y)] if x} if val is not None else set()
                        out.append(Ev("SETCELL" if roots == {"self"} else "SETCELL-FOREIGN", "%s.%s" % (ch[0], ch[1]), st, c, fn.name))
                    elif isinstance(t, (ast.Attribute, ast.Subscript)):
                        f = field_of(t.value)
                        if f is not None:
                            out.append(Ev("MUT", f, st, c, fn.name))
                    elif isinstance(t, ast.Name) and val is not None:
                        f = field_of(val) if isinstance(val, (ast.Attribute, ast.Name)) else returned_field(val)
                        if f is not None:
                            aliases[t.id] = f
                        else:
                            aliases.pop(t.id, None)
            elif isinstance(st, ast.Expr):
                visit_expr(st.value, c)
            elif isinstance(st, ast.Return):
                if st.value is not None:
                    visit_expr(st.value, c)
            elif isinstance(st, ast.If):
                visit_expr(st.test, c)
                visit_stmts(st.body, True)
                visit_stmts(st.orelse, True)
            elif isinstance(st, (ast.For, ast.While)):
                if isinstance(st, ast.For):
                    visit_expr(st.iter, c)
                else:
                    visit_expr(st.test, c)
                visit_stmts(st.body, True)
                visit_stmts(st.orelse, True)
            elif isinstance(st, ast.With):
                for it in st.items:
                    visit_expr(it.context_expr, c)
                visit_stmts(st.body, c)
            elif isinstance(st, ast.Try):
                visit_stmts(st.body, c)
                for h in st.handlers:
                    visit_stmts(h.body, True)
                visit_stmts(st.orelse, True)
                visit_stmts(st.finalbody, c)
            elif isinstance(st, (ast.Raise, ast.Assert)):
                pass

    visit_stmts(fn.body, cond)
    return out


def fresh_document_records(repo, rel, cn):
    """[(qualified write method, field, re-initialised before it is filled?, module, first filling site, in function)]
    for the fields of the writer that are mutated on a public write path (shared by C02 / C03: a document that is not
    started afresh carries the content of the previous call into the next file)"""
    cls = repo.cls(rel, cn)
    mod = cls.mod
    old = CUR_CLS[0]
    CUR_CLS[0] = cls
    out = []
    try:
        for pm in PUBLIC:
            fn = cls.methods.get(pm)
            if fn is None:
                raise AnalysisError("%s.%s missing" % (cn, pm))
            evs = trace(repo, cls, mod, fn)
            fields = []
            for e in evs:
                if e.kind == "MUT" and e.what not in fields:
                    fields.append(e.what)
            for f in fields:
                first = next(i for i, e in enumerate(evs) if e.kind == "MUT" and e.what == f)
                inits = [e for e in evs[:first] if e.kind == "INIT" and e.what == f and not e.cond]
                out.append(("%s.%s" % (cn, pm), f, bool(inits), mod, evs[first].node, evs[first].fn))
    finally:
        CUR_CLS[0] = old
    return out


def handle_path_rule(repo, res):
    """W3 on FileWriter._handle_file_path, by abstract evaluation: for every combination of (file name given or
    defaulted) x (file exists or not) x (overwrite policy, and the user's reply when asked) the function must answer
    the empty name exactly when the policy says skip for an existing file, otherwise the effective file name; and the
    existence test must be made on the effective name."""
    from ..strdom import NONE, ClassRef, Ev, Obj, PyFunc, Str, Sym, Undecided, _Raise, same, show

    cls = repo.cls(WI, "FileWriter")
    fn = cls.methods.get("_handle_file_path")
    pol = repo.cls(WI, "OverwriteExistingFile")
    if fn is None or pol is None:
        raise AnalysisError("FileWriter._handle_file_path / OverwriteExistingFile missing")
    ev0 = Ev(repo)
    members = {m.name: m for m in ev0.iterate(ClassRef(pol), None)}
    if set(members) != {"ASK_USER_INPUT", "ALWAYS", "SKIP"}:
        raise AnalysisError("overwrite policies changed: %s" % sorted(members))
    qn = "FileWriter._handle_file_path"
    LANG = [(frozenset("abcdefghijklmnopqrstuvwxyzABCDEFGHIJKLMNOPQRSTUVWXYZ0123456789_-./"), 1, 4096)]
    for given in (True, False):
        for exists in (True, False):
            for pname, reply in (("SKIP", None), ("ALWAYS", None), ("ASK_USER_INPUT", "y"), ("ASK_USER_INPUT", "n")):
                name = Str([("sym", Sym("given_file_name", lang=LANG))])
                sid = Str([("sym", Sym("scenario_id", lang=LANG))])
                suffix = Str.lit(".xml")
                default = sid + suffix
                me = Obj(cls, {"scenario": Obj(None, {"scenario_id": Obj(None, {"__str__": sid}, closed=True)}, closed=True), "_get_suffix": PyFunc(lambda a, k: suffix, "_get_suffix")}, label="writer")
                asked = []

                def path_model(a, k):
                    p_ = a[0] if a else None
                    probe = PyFunc(lambda a2, k2: (asked.append(p_), exists)[1], "exists")
                    return Obj(None, {"is_file": probe, "exists": probe}, closed=True, label="Path(%s)" % show(p_))

                ev = Ev(repo)
                ev.model_calls["pathlib.Path"] = path_model
                ev.model_calls["Path"] = path_model
                for nm in ("os.path.isfile", "os.path.exists", "path.isfile", "path.exists"):
                    ev.model_calls[nm] = lambda a, k: (asked.append(a[0] if a else None), exists)[1]
                ev.input_reply = Str.lit(reply) if reply is not None else None
                label = "%s, file %s, policy %s%s" % ("file name given" if given else "default file name", "exists" if exists else "does not exist", pname, "" if reply is None else " (user answers %r)" % reply)
                bad = None
                try:
                    r = ev.call_fn(ev.bind(fn, cls, me), [name if given else NONE, members[pname]], {}, fn)
                    eff = name if given else default
                    skip = exists and (pname == "SKIP" or reply == "n")
                    if skip:
                        if not (isinstance(r, Str) and r.is_lit() and r.text() == "") and r is not NONE and r is not False:
                            bad = "answers %s although the existing file must be skipped" % show(r)
                    elif not same(r, eff):
                        bad = "answers %s, expected the file name %s" % (show(r), show(eff))
                    if bad is None and not any(same(x, eff) for x in asked if x is not None):
                        bad = "existence is tested on %s, not on the file that will be written (%s)" % ([show(x) for x in asked], show(eff))
                except _Raise as x:
                    bad = "raises %s" % x.what
                except Undecided as x:
                    raise AnalysisError("%s [%s]: %s" % (qn, label, x))
                res.check("W3-SKIP", "%s [%s]" % (qn, label), bad is None, cls.mod, fn, "%s [%s]: %s" % (qn, label, bad), "an existing file is overwritten although the policy (or the user) said skip, or a file that may be written is skipped, or the wrong path is tested", qualname=qn)


def public_write_rule(repo, res, writers, public):
    """W3 on every public write method of both writers, by abstract evaluation: (file name given / defaulted) x (file
    exists or not) x (policy, user's reply) — the file is written exactly when the policy does not say skip for an
    existing file, and then under the effective name.  The builders that fill the document are stubbed (their content is
    not the subject here); `_handle_file_path` and whatever policy code the method has are evaluated."""
    from ..strdom import NONE, ClassRef, Ctor, Ev, Lenient, Obj, PyFunc, Str, Sym, Undecided, _Raise, same, show

    pol = repo.cls(WI, "OverwriteExistingFile")
    ev0 = Ev(repo)
    members = {m.name: m for m in ev0.iterate(ClassRef(pol), None)}
    LANG = [(frozenset("abcdefghijklmnopqrstuvwxyzABCDEFGHIJKLMNOPQRSTUVWXYZ0123456789_-./"), 1, 4096)]
    for rel, cn in writers:
        cls = repo.cls(rel, cn)
        for pm in public:
            owner, fn = repo.find_method(cls, pm)
            if fn is None:
                raise AnalysisError("%s.%s missing" % (cn, pm))
            qn = "%s.%s" % (cn, pm)
            for given in (True, False):
                for exists in (True, False):
                    for pname, reply in (("SKIP", None), ("ALWAYS", None), ("ASK_USER_INPUT", "y"), ("ASK_USER_INPUT", "n")):
                        name = Str([("sym", Sym("given_file_name", lang=LANG))])
                        sid = Str([("sym", Sym("scenario_id", lang=LANG))])
                        written, asked = [], []

                        def path_model(a, k, asked=asked, exists=exists):
                            p_ = a[0] if a else None
                            probe = PyFunc(lambda a2, k2: (asked.append(p_), exists)[1], "exists")
                            return Obj(None, {"is_file": probe, "exists": probe}, closed=True, label="Path(%s)" % show(p_))

                        ev = Ev(repo)
                        ev.pure_modules = {"np", "numpy", "math", "logging", "warnings", "commonroad_pb2"}
                        ev.model_calls["pathlib.Path"] = path_model
                        ev.model_calls["Path"] = path_model
                        for nm in ("os.path.isfile", "os.path.exists", "path.isfile", "path.exists"):
                            ev.model_calls[nm] = lambda a, k, asked=asked, exists=exists: (asked.append(a[0] if a else None), exists)[1]
                        ev.input_reply = Str.lit(reply) if reply is not None else None
                        tree = lambda a, k, written=written: Obj(None, {"write": PyFunc(lambda a2, k2: (written.append(a2[0] if a2 else k2.get("file")), NONE)[1], "write")}, closed=True, label="element tree")
                        for nm in ("etree.ElementTree", "lxml.etree.ElementTree", "ElementTree"):
                            ev.model_calls[nm] = tree
                        ev.model_calls["open"] = lambda a, k, written=written: (written.append(a[0]), Lenient("file"))[1]
                        for helper in ("_write_header", "_add_all_objects_from_scenario", "_add_all_planning_problems_from_planning_problem_set", "_dump", "check_validity_of_commonroad_file"):
                            ev.stubs["%s.%s" % (cn, helper)] = lambda a: NONE
                        ev.stubs["%s._serialize_write_msg" % cn] = lambda a, written=written: (written.append(a.get("filename")), NONE)[1]
                        suffix = ev.call_fn(ev.bind(repo.find_method(cls, "_get_suffix")[1], cls, Obj(cls, {})), [], {}, fn) if repo.find_method(cls, "_get_suffix")[1] is not None else Str.lit("")
                        me = Obj(cls, {"scenario": Obj(None, {"scenario_id": Obj(None, {"__str__": sid}, closed=True)}, closed=True), "planning_problem_set": Obj(None, {}, closed=True), "_decimal_precision": 4, "_root_node": NONE, "_commonroad_msg": NONE}, label="writer")
                        label = "%s, file %s, policy %s%s" % ("file name given" if given else "default file name", "exists" if exists else "does not exist", pname, "" if reply is None else " (user answers %r)" % reply)
                        bad = None
                        try:
                            ev.call_fn(ev.bind(fn, owner, me), [name if given else NONE, members[pname]], {}, fn)
                            skip = exists and (pname == "SKIP" or reply == "n")
                            eff = [name] if given else [sid, sid + suffix if isinstance(suffix, Str) else sid]
                            if skip and written:
                                bad = "writes %s although the existing file must be skipped" % [show(x) for x in written]
                            elif not skip and len(written) != 1:
                                bad = "writes %d files" % len(written)
                            elif not skip and not any(same(written[0], e_) for e_ in eff):
                                bad = "writes %s, the effective file name is %s" % (show(written[0]), show(eff[-1]))
                            elif not any(any(same(x, e_) for e_ in eff) for x in asked if x is not None):
                                bad = "existence is tested on %s, not on the file that will be written" % [show(x) for x in asked]
                        except _Raise as x:
                            bad = "raises %s" % x.what
                        except Undecided as x:
                            raise AnalysisError("%s [%s]: %s" % (qn, label, x))
                        res.check("W3-SKIP", "%s [%s]" % (qn, label), bad is None, cls.mod, fn, "%s [%s]: %s" % (qn, label, bad), "an existing file is overwritten although the policy (or the user) said skip, or a file that may be written is not written, or another path is written / tested", qualname=qn)


def run(repo, res, tier):
    res.rule("W1-NO-ACCUMULATION", "accumulated writer fields are re-initialised before the first mutation in every public write method", 4)
    res.rule("W2-NO-AMBIENT", "shared module-level cells read while writing are first assigned from the writer's own state", 2)
    res.rule("W3-SKIP", "a file is written exactly when the overwrite policy does not say skip for an existing file, under the effective name (evaluated)", 60)
    res.rule("W4-CLOCK", "no ambient read on the write path other than the date stamp", 1)
    handle_path_rule(repo, res)

    # ---------------- W5: writing does not change what is written.  A writer that writes into the scenario or the
    # planning problems it is exporting gives another content the second time; the effect analysis of C18 (PURE-HOST)
    # is applied to every function of the writer modules.
    from . import c18

    res.rule("W5-NO-MUTATION", "no function of the file writers writes into a model object", 100)
    pur = c18.Purity(repo, res)
    _model, host = c18.entry_points(repo)
    for fk, cat in host:
        if "/writer/" not in fk.mod.rel:
            continue
        vs = pur.violations(fk)
        if not vs:
            res.ok("W5-NO-MUTATION", "%s (%s)" % (fk.name, cat))
        for node, construct, why in vs:
            res.bad("W5-NO-MUTATION", "%s (%s)" % (fk.name, cat), Finding("W5-NO-MUTATION", fk.mod, node, "%s: %s" % (fk.name, construct), "writing changes the model it writes, so writing twice with the same writer gives different content: %s" % why, qualname=fk.name))

    imod = repo.mod(WI)
    # module-level mutable cells: names bound to a class (used as a namespace) or instance at module level
    CELLS.clear()
    for name, val in imod.assigns.items():
        if isinstance(val, ast.Name) and val.id in imod.classes:
            CELLS.add(name)
        elif isinstance(val, ast.Call) and isinstance(val.func, ast.Name) and val.func.id in imod.classes:
            CELLS.add(name)
    if "precision" not in CELLS:
        raise AnalysisError("file_writer_interface.precision is no longer a module-level cell (cells found: %s)" % sorted(CELLS))

    writers = [(WX, "XMLFileWriter"), (WP, "ProtobufFileWriter")]
    # what a writer is constructed from: the parameters of FileWriter.__init__ (stored under their own / private names)
    fw_init = repo.cls(WI, "FileWriter").methods["__init__"]
    INPUTS = {a_.arg for a_ in fw_init.args.args[1:]} - {"decimal_precision"}
    if not {"scenario", "planning_problem_set"} <= INPUTS:
        raise AnalysisError("FileWriter.__init__ no longer takes scenario / planning_problem_set")
    # a memoised function (functools.lru_cache / cache) of the writer modules whose result depends on the shared precision
    # cell: the cache key does not hold the precision, so what one writer formatted is handed to writers of another one
    n_memo = 0
    for rel_ in (WX, WP, WI):
        m_ = repo.mod(rel_)
        reads_cell = set()
        fdefs = [x for x in ast.walk(m_.tree) if isinstance(x, ast.FunctionDef)]
        for fd in fdefs:
            if any(isinstance(n, ast.Attribute) and isinstance(n.value, ast.Name) and n.value.id in CELLS for n in ast.walk(fd)):
                reads_cell.add(fd.name)
        changed = True
        while changed:
            changed = False
            for fd in fdefs:
                if fd.name in reads_cell:
                    continue
                if any(isinstance(n, ast.Call) and ((isinstance(n.func, ast.Name) and n.func.id in reads_cell) or (isinstance(n.func, ast.Attribute) and n.func.attr in reads_cell and n.func.attr.startswith("_"))) for n in ast.walk(fd)):
                    reads_cell.add(fd.name)
                    changed = True
        for fd in fdefs:
            memo = [d for d in fd.decorator_list if norm(d.func if isinstance(d, ast.Call) else d).split(".")[-1] in ("lru_cache", "cache")]
            if memo:
                n_memo += 1
                res.check("W2-NO-AMBIENT", "%s: a memoised function does not depend on the shared precision" % m_.qualname(fd), fd.name not in reads_cell, m_, fd, "%s is memoised (%s) and formats with the shared cell" % (m_.qualname(fd), norm(memo[0])), "the remembered text was formatted with the precision of whichever writer came first: another writer with another precision gets it back unchanged", qualname=m_.qualname(fd))
    if n_memo == 0:
        res.ok("W2-NO-AMBIENT", "no memoised function in the writer modules")
    res.rule("W6-INPUTS", "public write methods do not re-assign the writer's inputs", 4)
    for rel, cn in writers:
        cls = repo.cls(rel, cn)
        mod = cls.mod
        CUR_CLS[0] = cls
        for pm in PUBLIC:
            fn = cls.methods.get(pm)
            if fn is None:
                raise AnalysisError("%s.%s missing" % (cn, pm))
            qn = "%s.%s" % (cn, pm)
            evs = trace(repo, cls, mod, fn)
            # ---------------- W1: every field mutated on the write path is re-created unconditionally before
            fields = []
            for e in evs:
                if e.kind == "MUT" and e.what not in fields:
                    fields.append(e.what)
            for f in fields:
                first = next(i for i, e in enumerate(evs) if e.kind == "MUT" and e.what == f)
                inits = [e for e in evs[:first] if e.kind == "INIT" and e.what == f and not e.cond]
                site = evs[first]
                res.check(
                    "W1-NO-ACCUMULATION",
                    "%s: self.%s re-initialised before it is filled" % (qn, f),
                    bool(inits),
                    mod,
                    site.node,
                    "%s fills self.%s (%s in %s) without re-initialising it first" % (qn, f, norm(site.node)[:60], site.fn),
                    "content appended by an earlier write call survives: a second write with the same writer produces different (duplicated) output",
                    qualname=qn,
                )
            # ---------------- W2: the shared cell is set from the writer's own state before it is read
            cells = []
            for e in evs:
                if e.kind == "READCELL" and e.what not in cells:
                    cells.append(e.what)
            for cell in cells:
                first = next(i for i, e in enumerate(evs) if e.kind == "READCELL" and e.what == cell)
                sets = [e for e in evs[:first] if e.kind == "SETCELL" and e.what == cell and not e.cond]
                foreign = [e for e in evs[:first] if e.kind == "SETCELL-FOREIGN" and e.what == cell and (not sets or evs.index(e) > evs.index(sets[-1]))]
                site = evs[first]
                res.check(
                    "W2-NO-AMBIENT",
                    "%s: %s assigned from the writer's own state before it is read" % (qn, cell),
                    bool(sets) and not foreign,
                    mod,
                    site.node,
                    "%s reads %s (in %s) without setting it from self first" % (qn, cell, site.fn),
                    "the value depends on which writer was constructed last: another writer with a different precision changes this writer's output",
                    qualname=qn,
                )
            if not cells:
                res.note("W2: %s reads no shared cell" % qn)
            # ---------------- W4
            clocks = [r for r in ambient_reads(repo, mod, fn) if r[0].split(".")[0] not in CELLS]
            for text, node, where in clocks:
                ok = _is_date_stamp(mod, node)
                res.check("W4-CLOCK", "%s: ambient read %s in %s is the date stamp" % (qn, text, where), ok, mod, node, "%s: %s in %s" % (qn, text, where), "the output depends on ambient state other than the documented date stamp", qualname=qn)
            # ---------------- W6: a public write method does not re-assign what the writer was constructed from
            # (scenario, planning problems, meta data): a later write of the same writer would differ from the first
            region = [fn]
            seen_r = {id(fn)}
            k_ = 0
            while k_ < len(region):
                for c_ in walk_no_nested(region[k_]):
                    if isinstance(c_, ast.Call) and isinstance(c_.func, ast.Attribute) and isinstance(c_.func.value, ast.Name) and c_.func.value.id in ("self", "cls"):
                        h_ = repo.find_method(cls, c_.func.attr)[1]
                        if h_ is not None and id(h_) not in seen_r:
                            seen_r.add(id(h_))
                            region.append(h_)
                k_ += 1
            clobbers = []
            for f_ in region:
                for n_ in walk_no_nested(f_):
                    tg_ = n_.targets if isinstance(n_, ast.Assign) else [n_.target] if isinstance(n_, (ast.AnnAssign, ast.AugAssign)) else []
                    for t_ in tg_:
                        if isinstance(t_, ast.Attribute) and isinstance(t_.value, ast.Name) and t_.value.id == "self" and t_.attr.lstrip("_") in INPUTS:
                            clobbers.append((n_, f_.name, t_.attr))
            res.check("W6-INPUTS", "%s: the writer's inputs (%s) are not re-assigned while writing" % (qn, ", ".join(sorted(INPUTS))), not clobbers, mod, clobbers[0][0] if clobbers else fn, "%s: %s assigns self.%s" % (qn, clobbers[0][1] if clobbers else "", clobbers[0][2] if clobbers else ""), "a write call changes what the writer writes: the next call of the same writer gives another content than an identically constructed writer", qualname=qn)
    # ---------------- W3 on the public write methods: decided by evaluation (file name x existence x policy x reply)
    public_write_rule(repo, res, writers, PUBLIC)
    # the shared policy helper _handle_file_path is decided by handle_path_rule above (every name / existence / policy /
    # reply case evaluated); the structural rule that read its if-chain was removed when round 5 moved the decision
    # into a callable policy object
    fw = repo.cls(WI, "FileWriter")
    # constructor remembers the precision per writer
    init = fw.methods["__init__"]
    ok = any(isinstance(n, ast.Assign) and isinstance(n.targets[0], ast.Attribute) and norm(n.targets[0]).startswith("self.") and norm(n.value) == "decimal_precision" for n in walk_no_nested(init))
    res.check("W2-NO-AMBIENT", "FileWriter.__init__ stores decimal_precision on the writer", ok, imod, init, "FileWriter.__init__ decimal_precision", "the precision requested for this writer is only kept in the shared cell", qualname="FileWriter.__init__")
    return {"shared_cells": sorted(CELLS)}


def _says_skip(guards):
    """the conditions say: the answer of the overwrite policy is 'skip'"""
    for t, pol in guards:
        tx = norm(t)
        if pol and tx in ("overwrite == 'n'", "'n' == overwrite", "skip", "not overwrite"):
            return True
        if not pol and tx in ("overwrite == 'y'", "overwrite != 'n'", "not skip", "overwrite"):
            return True
    return False


def _is_date_stamp(mod, node):
    """The clock value only feeds something called `date` (the documented date stamp of the file)."""
    st = node
    while st is not None and not isinstance(st, ast.stmt):
        st = mod.parent.get(st)
    if st is None:
        return False
    t = norm(st)
    if ".set('date'," in t or ".date." in t or ".date =" in t:
        return True
    if isinstance(st, ast.Assign) and isinstance(st.targets[0], ast.Name):
        v = st.targets[0].id
        fn = mod.enclosing_function(st)
        uses = [u for u in ast.walk(fn) if isinstance(u, ast.Name) and u.id == v and isinstance(u.ctx, ast.Load)] if fn is not None else []
        if fn is not None and uses:
            # only the reads this assignment reaches (the name may hold other values elsewhere in the function)
            from ..dataflow import ReachingDefs

            rd_ = ReachingDefs(fn)
            reached = []
            for u in uses:
                us = rd_.stmt_of(u)
                if us is not None and any(d.stmt is st for d in rd_.defs(v, us)):
                    reached.append(u)
            uses = reached
        ok = bool(uses)
        for u in uses:
            us = u
            while us is not None and not isinstance(us, ast.stmt):
                us = mod.parent.get(us)
            ut = norm(us)
            if not (".date." in ut or ".set('date'," in ut or ".date =" in ut):
                ok = False
        return ok
    return False


def _policy(res, mod, fn, qn, returns_empty=False):
    """Under `<policy> is OverwriteExistingFile.SKIP` (file exists) the function leaves before writing: some return
    (of the empty name, for the shared helper) is reached under a test of a decision variable, and the value that
    variable gets on the SKIP branch makes that test true."""
    from ..dataflow import ReachingDefs

    rd = ReachingDefs(fn)
    ok = False
    for r in walk_no_nested(fn):
        if not isinstance(r, ast.Return):
            continue
        if returns_empty and not (r.value is not None and isinstance(r.value, ast.Constant) and r.value.value == ""):
            continue
        for t, pol in dominating_guards(mod, r, stop=fn):
            names = [x.id for x in ast.walk(t) if isinstance(x, ast.Name) and x.id not in ("overwrite_existing_file", "filename", "OverwriteExistingFile")]
            for v in names:
                for d in rd.defs(v, r):
                    if d.kind != "assign" or not isinstance(d.node, ast.Constant):
                        continue
                    g = [(norm(gt), gp) for gt, gp in dominating_guards(mod, d.stmt, stop=fn)]
                    under_skip = any(gp and gt in ("overwrite_existing_file is OverwriteExistingFile.SKIP", "overwrite_existing_file == OverwriteExistingFile.SKIP") for gt, gp in g)
                    if not under_skip:
                        continue
                    # evaluate the guarding test with the variable replaced by that constant
                    try:
                        val = eval(compile(ast.Expression(body=ast.fix_missing_locations(_subst(t, v, d.node))), "<policy>", "eval"), {"__builtins__": {}}, {})
                    except Exception:
                        continue
                    if bool(val) == pol:
                        ok = True
    res.check("W3-SKIP", "%s: policy SKIP leads to the skip-return" % qn, ok, mod, fn, "%s overwrite policy" % qn, "with overwrite mode SKIP an existing file is not left untouched", qualname=qn)


def _subst(test, var, const):
    import copy

    class S(ast.NodeTransformer):
        def visit_Name(self, n):
            if n.id == var:
                return ast.copy_location(ast.Constant(value=const.value), n)
            return n

    return S().visit(copy.deepcopy(test))

"""C15 — a file writer's output depends only on its own inputs.

  W1 NO-ACCUMULATION  a field of the writer that receives accumulating mutations (append / extend /
                      set / add ...) on the write path is re-initialised with a fresh object at the
                      start of every public write method, before the first such mutation
  W2 NO-AMBIENT       every module-level mutable cell read on a writer's write path (the shared
                      decimal precision) is assigned from the writer's own state earlier in the same
                      public write call
  W3 SKIP             every file sink of a public write method is dominated by the skip-return of the
                      overwrite policy; under policy SKIP the policy answers "skip"
  W4 CLOCK            the only other ambient read on the write path is the date stamp
"""
import ast

from ..core import AnalysisError, Finding, attr_chain, call_name, dominating_guards, norm, walk_no_nested

WX = "commonroad/common/writer/file_writer_xml.py"
WP = "commonroad/common/writer/file_writer_protobuf.py"
WI = "commonroad/common/writer/file_writer_interface.py"
WF = "commonroad/common/file_writer.py"

ACCUM = {"append", "extend", "insert", "add", "update", "set", "CopyFrom", "MergeFrom", "setdefault", "remove", "clear"}
PUBLIC = ("write_to_file", "write_scenario_to_file")
AMBIENT_PREFIXES = ("datetime.", "time.", "random.", "os.environ", "os.getenv", "uuid.", "getpass.", "socket.", "platform.")


def self_calls(fn):
    return [n.func.attr for n in walk_no_nested(fn) if isinstance(n, ast.Call) and isinstance(n.func, ast.Attribute) and isinstance(n.func.value, ast.Name) and n.func.value.id == "self"]


def mutated_fields(repo, cls, fn, seen=None):
    """self fields that fn (transitively through self-calls) mutates by an accumulating call or item/attr store."""
    seen = seen if seen is not None else set()
    if id(fn) in seen:
        return {}
    seen.add(id(fn))
    out = {}
    for n in walk_no_nested(fn):
        if isinstance(n, ast.Call) and isinstance(n.func, ast.Attribute) and n.func.attr in ACCUM:
            ch = attr_chain(n.func.value)
            if ch and ch[0] == "self" and len(ch) >= 2:
                out.setdefault(ch[1], n)
        if isinstance(n, (ast.Assign, ast.AugAssign)):
            for t in n.targets if isinstance(n, ast.Assign) else [n.target]:
                ch = attr_chain(t.value) if isinstance(t, (ast.Subscript, ast.Attribute)) else None
                if ch and ch[0] == "self" and len(ch) >= 2 and isinstance(t, (ast.Subscript, ast.Attribute)):
                    # self.F.x = .. / self.F[k] = ..
                    out.setdefault(ch[1], n)
    for name in self_calls(fn):
        _o, m = repo.find_method(cls, name)
        if m is not None:
            for k, v in mutated_fields(repo, cls, m, seen).items():
                out.setdefault(k, v)
    return out


def ambient_reads(repo, mod, fn, seen=None, depth=0, owner=None):
    """(text, node, where) of reads of module-level mutable cells / clocks reachable from fn in module mod."""
    seen = seen if seen is not None else set()
    if id(fn) in seen or depth > 12:
        return []
    seen.add(id(fn))
    out = []
    owner = owner if owner is not None else CUR_CLS[0]
    for n in ast.walk(fn):
        if isinstance(n, ast.Attribute) and isinstance(n.ctx, ast.Load):
            ch = attr_chain(n)
            if ch and len(ch) == 2 and ch[0] in CELLS:
                out.append(("%s.%s" % (ch[0], ch[1]), n, fn.name))
        if isinstance(n, ast.Call):
            cn = norm(n.func)
            if cn.startswith(AMBIENT_PREFIXES) or ".today" in cn or cn.endswith(".now"):
                out.append((cn, n, fn.name))
            # follow calls into functions / classmethods of the same module
            tgt, towner = None, owner
            if isinstance(n.func, ast.Name) and n.func.id in mod.functions:
                tgt = mod.functions[n.func.id]
            elif isinstance(n.func, ast.Attribute) and isinstance(n.func.value, ast.Name):
                c = mod.classes.get(n.func.value.id)
                if c is not None:
                    oc, m = repo.find_method(c, n.func.attr)
                    tgt, towner = m, c
                elif n.func.value.id in ("self", "cls") and owner is not None:
                    oc, m = repo.find_method(owner, n.func.attr)
                    tgt = m
            if tgt is not None:
                out += ambient_reads(repo, mod, tgt, seen, depth + 1, towner)
    return out


CELLS = set()
CUR_CLS = [None]


def run(repo, res, tier):
    res.rule("W1-NO-ACCUMULATION", "accumulated writer fields are re-initialised before the first mutation in every public write method", 4)
    res.rule("W2-NO-AMBIENT", "shared module-level cells read while writing are first assigned from the writer's own state", 2)
    res.rule("W3-SKIP", "file sinks are dominated by the skip-return of the overwrite policy", 5)
    res.rule("W4-CLOCK", "no ambient read on the write path other than the date stamp", 1)

    imod = repo.mod(WI)
    # module-level mutable cells: names bound to a class (used as a namespace) or instance at module level
    CELLS.clear()
    for name, val in imod.assigns.items():
        if isinstance(val, ast.Name) and val.id in imod.classes:
            CELLS.add(name)
        elif isinstance(val, ast.Call) and isinstance(val.func, ast.Name) and val.func.id in imod.classes:
            CELLS.add(name)
    if "precision" not in CELLS:
        raise AnalysisError("file_writer_interface.precision is no longer a module-level cell (cells found: %s)" % sorted(CELLS))

    writers = [(WX, "XMLFileWriter"), (WP, "ProtobufFileWriter")]
    for rel, cn in writers:
        cls = repo.cls(rel, cn)
        mod = cls.mod
        CUR_CLS[0] = cls
        for pm in PUBLIC:
            fn = cls.methods.get(pm)
            if fn is None:
                raise AnalysisError("%s.%s missing" % (cn, pm))
            qn = "%s.%s" % (cn, pm)
            top = fn.body
            # ---------------- W1
            mf = mutated_fields(repo, cls, fn)
            for f, site in sorted(mf.items()):
                # first top-level statement that (transitively) mutates f
                first = None
                for i, st in enumerate(top):
                    hit = False
                    for n in ast.walk(st):
                        if isinstance(n, ast.Call) and isinstance(n.func, ast.Attribute):
                            ch = attr_chain(n.func.value)
                            if n.func.attr in ACCUM and ch and ch[0] == "self" and len(ch) >= 2 and ch[1] == f:
                                hit = True
                            if isinstance(n.func.value, ast.Name) and n.func.value.id == "self":
                                _o, m = repo.find_method(cls, n.func.attr)
                                if m is not None and f in mutated_fields(repo, cls, m):
                                    hit = True
                    if hit:
                        first = i
                        break
                init = None
                for i, st in enumerate(top[: first if first is not None else 0]):
                    if isinstance(st, (ast.Assign, ast.AnnAssign)):
                        tg = st.targets[0] if isinstance(st, ast.Assign) else st.target
                        if norm(tg) == "self." + f and isinstance(st.value, ast.Call):
                            init = i
                res.check(
                    "W1-NO-ACCUMULATION",
                    "%s: self.%s re-initialised before it is filled" % (qn, f),
                    init is not None,
                    mod,
                    top[first] if first is not None else fn,
                    "%s fills self.%s (%s) without re-initialising it first" % (qn, f, norm(site)[:60]),
                    "content appended by an earlier write call survives: a second write with the same writer produces different (duplicated) output",
                    qualname=qn,
                )
            # ---------------- W2
            reads = [r for r in ambient_reads(repo, mod, fn) if r[0].split(".")[0] in CELLS]
            cells = sorted({r[0] for r in reads})
            for cell in cells:
                first_use = None
                for i, st in enumerate(top):
                    if any(r[0] == cell for r in ambient_reads(repo, mod, ast.Module(body=[st], type_ignores=[])) ) if False else False:
                        pass
                # first top-level statement from which a read of the cell is reachable
                for i, st in enumerate(top):
                    fake = ast.FunctionDef(name="_", args=fn.args, body=[st], decorator_list=[], lineno=st.lineno)
                    if any(r[0] == cell for r in ambient_reads(repo, mod, fake)):
                        first_use = i
                        break
                setter = None
                for i, st in enumerate(top[: first_use if first_use is not None else 0]):
                    if isinstance(st, ast.Assign) and norm(st.targets[0]) == cell:
                        roots = {ch[0] for x in ast.walk(st.value) if isinstance(x, ast.Attribute) for ch in [attr_chain(x)] if ch}
                        if roots == {"self"}:
                            setter = i
                res.check(
                    "W2-NO-AMBIENT",
                    "%s: %s assigned from the writer's own state before it is read" % (qn, cell),
                    setter is not None,
                    mod,
                    top[first_use] if first_use is not None else fn,
                    "%s reads %s (in %s) without setting it from self first" % (qn, cell, sorted({r[2] for r in reads if r[0] == cell})[:3]),
                    "the value depends on which writer was constructed last: another writer with a different precision changes this writer's output",
                    qualname=qn,
                )
            if not cells:
                res.note("W2: %s reads no shared cell" % qn)
            # ---------------- W4
            clocks = [r for r in ambient_reads(repo, mod, fn) if r[0].split(".")[0] not in CELLS]
            for text, node, where in clocks:
                ok = _is_date_stamp(mod, node)
                res.check("W4-CLOCK", "%s: ambient read %s in %s is the date stamp" % (qn, text, where), ok, mod, node, "%s: %s in %s" % (qn, text, where), "the output depends on ambient state other than the documented date stamp", qualname=qn)
            # ---------------- W3
            sinks = []
            for n in walk_no_nested(fn):
                if isinstance(n, ast.Call):
                    cnm = norm(n.func)
                    if cnm.endswith(".write") and "tree" in cnm or cnm == "open" or cnm == "self._serialize_write_msg":
                        sinks.append(n)
            if not sinks:
                raise AnalysisError("%s: no file sink found" % qn)
            for s_ in sinks:
                guards = [(norm(t), pol) for t, pol in dominating_guards(mod, s_, stop=fn)]
                via_helper = ("filename", True) in guards and any(isinstance(st, ast.Assign) and norm(st.value).startswith("self._handle_file_path(") and norm(st.targets[0]) == "filename" for st in top)
                inline = False
                for st in top:
                    if st.lineno >= s_.lineno:
                        break
                    if isinstance(st, ast.If) and ("is_file()" in norm(st.test) or "exists(" in norm(st.test)):
                        for r in ast.walk(st):
                            if isinstance(r, ast.Return) and ("overwrite == 'n'", True) in [(norm(t), pol) for t, pol in dominating_guards(mod, r, stop=fn)]:
                                inline = True
                res.check("W3-SKIP", "%s: sink %s dominated by the skip-return" % (qn, norm(s_.func)), via_helper or inline, mod, s_, "%s: %s" % (qn, norm(s_)[:80]), "the file is written although the overwrite policy said skip", qualname=qn)
                if inline and not via_helper:
                    _policy(res, mod, fn, qn)
    # the shared policy helper
    fw = repo.cls(WI, "FileWriter")
    _policy(res, imod, fw.methods["_handle_file_path"], "FileWriter._handle_file_path", returns_empty=True)
    # constructor remembers the precision per writer
    init = fw.methods["__init__"]
    ok = any(isinstance(n, ast.Assign) and isinstance(n.targets[0], ast.Attribute) and norm(n.targets[0]).startswith("self.") and norm(n.value) == "decimal_precision" for n in walk_no_nested(init))
    res.check("W2-NO-AMBIENT", "FileWriter.__init__ stores decimal_precision on the writer", ok, imod, init, "FileWriter.__init__ decimal_precision", "the precision requested for this writer is only kept in the shared cell", qualname="FileWriter.__init__")
    return {"shared_cells": sorted(CELLS)}


def _is_date_stamp(mod, node):
    """The clock value only feeds something called `date` (the documented date stamp of the file)."""
    st = node
    while st is not None and not isinstance(st, ast.stmt):
        st = mod.parent.get(st)
    if st is None:
        return False
    t = norm(st)
    if ".set('date'," in t or ".date." in t or ".date =" in t:
        return True
    if isinstance(st, ast.Assign) and isinstance(st.targets[0], ast.Name):
        v = st.targets[0].id
        fn = mod.enclosing_function(st)
        uses = [u for u in ast.walk(fn) if isinstance(u, ast.Name) and u.id == v and isinstance(u.ctx, ast.Load)] if fn is not None else []
        ok = bool(uses)
        for u in uses:
            us = u
            while us is not None and not isinstance(us, ast.stmt):
                us = mod.parent.get(us)
            ut = norm(us)
            if not (".date." in ut or ".set('date'," in ut or ".date =" in ut):
                ok = False
        return ok
    return False


def _policy(res, mod, fn, qn, returns_empty=False):
    """under `<policy> is OverwriteExistingFile.SKIP` the answer is 'n', and answer 'n' returns (empty) before writing"""
    ok_skip = False
    ok_ret = False
    for n in walk_no_nested(fn):
        if isinstance(n, ast.Assign) and norm(n.targets[0]) == "overwrite" and isinstance(n.value, ast.Constant) and n.value.value == "n":
            g = [(norm(t), pol) for t, pol in dominating_guards(mod, n, stop=fn)]
            if any(pol and t in ("overwrite_existing_file is OverwriteExistingFile.SKIP", "overwrite_existing_file == OverwriteExistingFile.SKIP") for t, pol in g):
                ok_skip = True
        if isinstance(n, ast.Return):
            g = [(norm(t), pol) for t, pol in dominating_guards(mod, n, stop=fn)]
            if ("overwrite == 'n'", True) in g:
                if returns_empty:
                    ok_ret = n.value is not None and isinstance(n.value, ast.Constant) and n.value.value == ""
                else:
                    ok_ret = True
    res.check("W3-SKIP", "%s: policy SKIP answers 'n' and 'n' returns before writing" % qn, ok_skip and ok_ret, mod, fn, "%s overwrite policy" % qn, "with overwrite mode SKIP an existing file is not left untouched", qualname=qn)

"""C06 — spatial lookups agree with the geometry they index.

  G1 SHAPE-AGREE  per shape class the containment predicate, the exported shapely geometry and the
                  drawing are built from the same parameters (circle: bare radius and centre;
                  rectangle: half-extent corner matrix placed by centre/orientation); polygon, evaluated
                  case by case (c06ev.polygon_rules): the exported geometry is the polygon of the vertex
                  ring and contains_point answers what the closed ring answers for a point inside, on
                  an edge of the bounding box, inside the box but outside the ring, outside the box;
                  shape group = any of its members
  G2 INDEX        the spatial index mirrors the lanelets: value stored per lanelet is that lanelet's
                  polygon geometry; the lanelet polygon is right boundary + reversed left boundary;
                  id map and tree are rebuilt together from the same dict; every construction route
                  (list, network cut-out, unpickle, deepcopy) rebuilds the index on the new object
  G3 LOOKUP       find_lanelet_by_shape filters tree candidates by `intersects` against the very
                  geometry queried with and maps hits through the id map; find_lanelet_by_position
                  pairs (input index, tree index) correctly and uses a boundary-inclusive predicate
  G4 PROTOCOL     every class admitted as a query shape exports `shapely_object`; evaluated (c06ev):
                  Lanelet.contains_points answers per point, in order, what the closed lanelet polygon
                  answers (inside / outside / on the boundary; closed and open shapely predicates
                  modelled); get_obstacles reports exactly the obstacles one of whose shapes intersects
                  the lanelet at the asked time step; map_obstacles_to_lanelets files every lanelet's
                  own non-empty answer under its id
"""
import ast

from ..core import AnalysisError, Finding, attr_chain, call_name, canon, dominating_guards, norm, walk_no_nested
from ..dataflow import ReachingDefs
from ..flowtools import backward_slice, collected, exists_form, truth_dnf
from ..core import helper_table

SH = "commonroad/geometry/shape.py"
LA = "commonroad/scenario/lanelet.py"


def C(expr, fn):
    """canonical text of expr inside fn (locals inlined, self._x == self.x)"""
    return canon(expr, ReachingDefs(fn), None, [a.arg for a in fn.args.args])


def calls_in(fn, pred):
    return [n for n in walk_no_nested(fn) if isinstance(n, ast.Call) and pred(n)]


def lookup_rules(repo, res, RULE="G3-LOOKUP"):
    """the two spatial lookups filter candidates by geometry and map them to lanelet ids consistently (shared with
    C07, whose assignment sets are exactly the results of these lookups).  Decided by abstract evaluation against a
    model of the spatial tree (c06ev.lookup_rules): what is compared is the answer, not the layout of the code."""
    from . import c06ev

    return c06ev.lookup_rules(repo, res, RULE)



def run(repo, res, tier):
    from . import c06ev as _c06ev

    res.rule("G1-SHAPE-AGREE", "containment predicate, exported geometry and drawing of each shape use the same parameters", 14)
    res.rule("G2-INDEX", "spatial index mirrors lanelet polygons and is rebuilt on every construction route", 12)
    res.rule("G3-LOOKUP", "lookups filter and map tree results consistently", 2)
    res.rule("G4-PROTOCOL", "query shapes export shapely_object; obstacle mapping uses polygon and occupancy shape", 6)
    smod = repo.mod(SH)

    # ---------------------------------------------------------------- G1 circle
    circ = repo.cls(SH, "Circle")
    init = circ.methods["__init__"]
    q = "Circle.__init__"
    bufs = calls_in(init, lambda c: isinstance(c.func, ast.Attribute) and c.func.attr == "buffer")
    if len(bufs) != 1:
        raise AnalysisError("Circle.__init__: expected one .buffer(..) call")
    arg = bufs[0].args[0] if bufs[0].args else None
    ok = arg is not None and C(arg, init) in ("radius", "self.radius")
    res.check("G1-SHAPE-AGREE", "Circle geometry = point.buffer(<radius>)", ok, smod, bufs[0], "Circle buffer(%s)" % (C(arg, init).replace("self.", "") if arg is not None else ""), "the exported disc does not have the circle's radius: lookups by shape disagree with contains_point", qualname=q)
    pt = bufs[0].func.value
    ok = isinstance(pt, ast.Call) and norm(pt.func).endswith("Point") and [C(a, init) for a in pt.args] in (["self.center[0]", "self.center[1]"], ["self.center"], ["center[0]", "center[1]"], ["center"])
    res.check("G1-SHAPE-AGREE", "Circle geometry centred at the centre", ok, smod, bufs[0], "Circle point %s" % norm(pt), "the exported disc is not centred at the circle's centre", qualname=q)
    tgt = [n for n in walk_no_nested(init) if isinstance(n, (ast.Assign, ast.AnnAssign)) and any(x is bufs[0] for x in ast.walk(n.value))]
    slot = norm(tgt[0].targets[0] if isinstance(tgt[0], ast.Assign) else tgt[0].target) if tgt else None
    so = repo.method(SH, "Circle", "shapely_object")
    rets = [n for n in walk_no_nested(so) if isinstance(n, ast.Return)]
    res.check("G1-SHAPE-AGREE", "Circle.shapely_object returns the buffered disc", len(rets) == 1 and slot is not None and C(rets[0].value, so) == slot.replace("self._", "self."), smod, so, "Circle.shapely_object", "shapely_object does not return the geometry built from radius and centre", qualname="Circle.shapely_object")
    cp = circ.methods["contains_point"]
    pn = cp.args.args[1].arg
    dnf = truth_dnf(smod, cp, ReachingDefs(cp), [pn], helper_table(circ, smod, cp, repo))
    dist = ("np.linalg.norm(%s - self.center)" % pn, "np.linalg.norm(self.center - %s)" % pn)
    accepted = set()
    for d in dist:
        accepted |= {"np.greater_equal(self.radius, %s)" % d, "np.less_equal(%s, self.radius)" % d, "%s <= self.radius" % d}
    ok = len(dnf) == 1 and len(dnf[0]) == 1 and dnf[0][0][1] and dnf[0][0][0] in accepted
    res.check("G1-SHAPE-AGREE", "Circle.contains_point: |p - centre| <= radius (closed)", ok, smod, cp, "Circle.contains_point: %s" % dnf, "the containment predicate is not the closed disc of the circle's radius around its centre", qualname="Circle.contains_point")
    dr = circ.methods["draw"]
    de = calls_in(dr, lambda c: isinstance(c.func, ast.Attribute) and c.func.attr == "draw_ellipse")
    ok = len(de) == 1 and [C(a, dr) for a in de[0].args[:3]] == ["self.center", "self.radius", "self.radius"]
    res.check("G1-SHAPE-AGREE", "Circle.draw: ellipse(centre, radius, radius)", ok, smod, dr, "Circle.draw", "the drawn ellipse does not have the circle's parameters", qualname="Circle.draw")

    # ---------------------------------------------------------------- G1 rectangle
    rect = repo.cls(SH, "Rectangle")
    cv = rect.methods["_compute_vertices"]
    # evaluated abstractly: the corner matrix handed to the placement, as linear forms in length and width
    from ..strdom import Ctor as _Ctor, Ev as _Ev, ListV as _ListV, Obj as _Obj, Sym as _Sym, linear_of

    _l, _w, _c, _o = _Sym("length", "num"), _Sym("width", "num"), _Sym("center", "num"), _Sym("orientation", "num")
    _ev = _Ev(repo, opaque_calls={"rotate_translate", "translate_rotate"})
    _ev.pure_modules = {"np", "numpy", "math"}
    _r = _ev.call_fn(_ev.bind(cv, rect, _Obj(rect, {"_length": _l, "_width": _w, "_center": _c, "_orientation": _o})), [], {}, cv)
    corners = []
    okm = isinstance(_r, _Ctor) and _r.name in ("rotate_translate",) and len(_r.args) == 3
    rows = None
    if okm:
        vals = list(_r.args.values())
        m = vals[0]
        if isinstance(m, _Ctor) and m.name in ("np.array", "numpy.array", "np.asarray"):
            m = list(m.args.values())[0]
        rows = m.items if isinstance(m, _ListV) and all(isinstance(x, _ListV) and len(x.items) == 2 for x in m.items) else None
        okm = rows is not None and vals[1] is _c and vals[2] is _o
    mats = [cv]
    for r_ in rows or []:
        pair = []
        for e_, want in zip(r_.items, ("length", "width")):
            lf = linear_of(e_)
            if lf is None or set(lf) != {want} or abs(abs(lf[want]) - 0.5) > 1e-12:
                okm = False
                pair.append(0)
            else:
                pair.append(1 if lf[want] > 0 else -1)
        corners.append(tuple(pair))
    closed = len(corners) == 5 and corners[0] == corners[-1] and len(set(corners[:4])) == 4
    # consecutive corners differ in exactly one coordinate (a ring, not a bow-tie)
    ring = closed and all(sum(a != b for a, b in zip(corners[i], corners[i + 1])) == 1 for i in range(4))
    res.check("G1-SHAPE-AGREE", "Rectangle corners = (+-l/2, +-w/2) closed ring", okm and ring, smod, mats[0], "Rectangle corner matrix %s" % corners, "the vertex ring is not the l-by-w box (wrong half extents, missing corner, or self-intersecting order)", qualname="Rectangle._compute_vertices")
    rets = [n for n in walk_no_nested(cv) if isinstance(n, ast.Return)]
    # (decided above on the evaluated result: rotate_translate(<corner matrix>, centre, orientation))
    ok = isinstance(_r, _Ctor) and _r.name == "rotate_translate" and rows is not None and list(_r.args.values())[1] is _c and list(_r.args.values())[2] is _o
    res.check("G1-SHAPE-AGREE", "Rectangle vertices placed by rotate_translate(corners, centre, orientation)", ok, smod, cv, "Rectangle._compute_vertices return %s" % (norm(rets[0].value) if rets else "?"), "the box is not rotated by its orientation and moved to its centre", qualname="Rectangle._compute_vertices")
    vg = repo.method(SH, "Rectangle", "vertices")
    ok = any(isinstance(n, ast.Call) and norm(n.func) == "self._compute_vertices" for n in walk_no_nested(vg))
    res.check("G1-SHAPE-AGREE", "Rectangle.vertices computed by _compute_vertices", ok, smod, vg, "Rectangle.vertices", "vertices are not the computed corner ring", qualname="Rectangle.vertices")
    sp = repo.method(SH, "Rectangle", "_shapely_polygon")
    built = calls_in(sp, lambda c: norm(c.func).endswith("geometry.Polygon"))
    ok = len(built) == 1 and [C(a, sp) for a in built[0].args] in (["self.vertices"], ["self._compute_vertices()"])
    res.check("G1-SHAPE-AGREE", "Rectangle geometry = Polygon(self.vertices)", ok, smod, sp, "Rectangle._shapely_polygon", "the exported polygon is not built from the rectangle's vertices", qualname="Rectangle._shapely_polygon")
    so = repo.method(SH, "Rectangle", "shapely_object")
    rets = [n for n in walk_no_nested(so) if isinstance(n, ast.Return)]
    res.check("G1-SHAPE-AGREE", "Rectangle.shapely_object returns that polygon", len(rets) == 1 and C(rets[0].value, so) == "self.shapely_polygon", smod, so, "Rectangle.shapely_object", "shapely_object does not return the polygon of the vertices", qualname="Rectangle.shapely_object")
    cp = rect.methods["contains_point"]
    pn = cp.args.args[1].arg
    dnf = truth_dnf(smod, cp, ReachingDefs(cp), [pn], helper_table(rect, smod, cp, repo))
    geo = {"self.shapely_polygon.intersects(shapely.geometry.Point(%s))" % pn, "self.shapely_object.intersects(shapely.geometry.Point(%s))" % pn, "self.shapely_polygon.covers(shapely.geometry.Point(%s))" % pn}
    ok = len(dnf) == 1 and len(dnf[0]) == 1 and dnf[0][0][1] and dnf[0][0][0] in geo
    res.check("G1-SHAPE-AGREE", "Rectangle.contains_point = geometry.intersects(point)", ok, smod, cp, "Rectangle.contains_point: %s" % dnf, "containment is not decided on the exported geometry (boundary included)", qualname="Rectangle.contains_point")
    dr = rect.methods["draw"]
    ok = any(isinstance(c, ast.Call) and isinstance(c.func, ast.Attribute) and c.func.attr == "draw_rectangle" and C(c.args[0], dr) == "self.vertices" for c in walk_no_nested(dr))
    res.check("G1-SHAPE-AGREE", "Rectangle.draw draws self.vertices", ok, smod, dr, "Rectangle.draw", "the drawn ring is not the rectangle's vertex ring", qualname="Rectangle.draw")

    # ---------------------------------------------------------------- G1 polygon
    poly = repo.cls(SH, "Polygon")
    init = poly.methods["__init__"]
    # decided by evaluation (c06ev.polygon_rules): exported geometry and the predicate, case by case
    _c06ev.polygon_rules(repo, res, "G1-SHAPE-AGREE")
    # shape group = union of its members: decided by evaluation (shared with C08)
    from .c08 import shape_group_rule

    shape_group_rule(repo, res, "G1-SHAPE-AGREE")

    # ---------------------------------------------------------------- G2
    lmod = repo.mod(LA)
    lan = repo.cls(LA, "Lanelet")
    net = repo.cls(LA, "LaneletNetwork")
    # the lanelet polygon, wherever it is (re)built: decided by evaluation (c06ev.lanelet_polygon_rule)
    _c06ev.lanelet_polygon_rule(repo, res, "G2-INDEX")
    # the network's index: every route that builds or changes a network is evaluated on a small symbolic network and
    # the index invariant is checked on the resulting object (c06ev) — no layout of the code is assumed
    from . import c06ev

    c06ev.index_rules(repo, res)
    # the cut-out route is too rich to evaluate (shape filtering): it must end by rebuilding the new network's index
    fn = repo.method(LA, "LaneletNetwork", "create_from_lanelet_network")
    rets = [s_ for s_ in walk_no_nested(fn) if isinstance(s_, ast.Return) and s_.value is not None]
    ok = bool(rets) and all(isinstance(r_.value, ast.Name) for r_ in rets)
    if ok:
        nm = rets[-1].value.id
        top = [s_ for s_ in fn.body if isinstance(s_, ast.Expr) and isinstance(s_.value, ast.Call) and norm(s_.value.func) == "%s._create_strtree" % nm]
        ok = len(top) >= 1 and all(r_.lineno > top[-1].lineno for r_ in rets)
    res.check("G2-INDEX", "create_from_lanelet_network rebuilds the index of the new network unconditionally", ok, lmod, fn, "create_from_lanelet_network -> _create_strtree", "a network built by this route answers lookups from a missing or foreign index", qualname="LaneletNetwork.create_from_lanelet_network")

    # ---------------------------------------------------------------- G3
    fs = lookup_rules(repo, res, "G3-LOOKUP")

    # ---------------------------------------------------------------- G4
    asserts = [n for n in walk_no_nested(fs) if isinstance(n, ast.Assert)]
    admitted = []
    for a in asserts:
        for c in ast.walk(a.test):
            if isinstance(c, ast.Call) and call_name(c) == "isinstance" and norm(c.args[0]) == fs.args.args[1].arg:
                admitted = [norm(e) for e in (c.args[1].elts if isinstance(c.args[1], ast.Tuple) else [c.args[1]])]
    if not admitted:
        raise AnalysisError("find_lanelet_by_shape: isinstance assertion on the shape not found")
    for cn in admitted:
        c = repo.resolve_class(lmod, cn)
        for sc in (repo.subclasses(c) if c is not None else []):
            _o, p = repo.find_prop(sc, "shapely_object")
            res.check("G4-PROTOCOL", "%s (admitted query shape) exports shapely_object" % sc.name, p is not None and "get" in p, lmod, fs, "find_lanelet_by_shape admits %s" % sc.name, "%s is accepted as query shape but has no shapely_object: the lookup raises AttributeError" % sc.name, qualname="LaneletNetwork.find_lanelet_by_shape")
    # get_obstacles, contains_points and map_obstacles_to_lanelets: decided by abstract evaluation (c06ev)


    _c06ev.get_obstacles_rule(repo, res)
    _c06ev.points_and_mapping_rules(repo, res)
    return {}

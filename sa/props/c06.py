"""C06 — spatial lookups agree with the geometry they index.

  G1 SHAPE-AGREE  per shape class the containment predicate, the exported shapely geometry and the
                  drawing are built from the same parameters (circle: bare radius and centre;
                  rectangle: half-extent corner matrix placed by centre/orientation; polygon: the
                  vertex ring); shape group = any of its members
  G2 INDEX        the spatial index mirrors the lanelets: value stored per lanelet is that lanelet's
                  polygon geometry; the lanelet polygon is right boundary + reversed left boundary;
                  id map and tree are rebuilt together from the same dict; every construction route
                  (list, network cut-out, unpickle, deepcopy) rebuilds the index on the new object
  G3 LOOKUP       find_lanelet_by_shape filters tree candidates by `intersects` against the very
                  geometry queried with and maps hits through the id map; find_lanelet_by_position
                  pairs (input index, tree index) correctly and uses a boundary-inclusive predicate
  G4 PROTOCOL     every class admitted as a query shape exports `shapely_object`; obstacle mapping
                  goes through the lanelet polygon and the occupancy shape
"""
import ast

from ..core import AnalysisError, Finding, attr_chain, call_name, canon, dominating_guards, norm, walk_no_nested
from ..dataflow import ReachingDefs

SH = "commonroad/geometry/shape.py"
LA = "commonroad/scenario/lanelet.py"


def C(expr, fn):
    """canonical text of expr inside fn (locals inlined, self._x == self.x)"""
    return canon(expr, ReachingDefs(fn), None, [a.arg for a in fn.args.args])


def calls_in(fn, pred):
    return [n for n in walk_no_nested(fn) if isinstance(n, ast.Call) and pred(n)]


def lookup_rules(repo, res, RULE="G3-LOOKUP"):
    """the two spatial lookups filter candidates by geometry and map them to lanelet ids consistently
    (shared with C07, whose assignment sets are exactly the results of these lookups)"""
    lmod = repo.mod(LA)
    fs = repo.method(LA, "LaneletNetwork", "find_lanelet_by_shape")
    q = "LaneletNetwork.find_lanelet_by_shape"
    rd = ReachingDefs(fs)
    loops = [n for n in walk_no_nested(fs) if isinstance(n, ast.For)]
    ok = len(loops) == 1 and isinstance(loops[0].iter, ast.Call) and norm(loops[0].iter.func) == "self._strtee.query" and len(loops[0].iter.args) == 1 and not loops[0].iter.keywords
    qarg = norm(loops[0].iter.args[0]) if ok else None
    res.check(RULE, "find_lanelet_by_shape queries the tree with the shape's geometry", ok and qarg == "%s.shapely_object" % fs.args.args[1].arg, lmod, fs, "find_lanelet_by_shape query %s" % qarg, "the tree is not queried with the geometry of the given shape", qualname=q)
    appends = calls_in(fs, lambda c: isinstance(c.func, ast.Attribute) and c.func.attr == "append")
    ok2 = False
    if ok and len(appends) == 1:
        a = appends[0]
        inner = a.args[0]
        guards = [(norm(t), pol) for t, pol in dominating_guards(lmod, a, stop=fs)]
        if isinstance(inner, ast.Call) and norm(inner.func) == "self._get_lanelet_id_by_shapely_polygon" and isinstance(inner.args[0], ast.Name):
            g = inner.args[0].id
            defs = [norm(d.node) for d in rd.defs(g, a) if d.node is not None]
            ok2 = defs == ["self._strtee.geometries[%s]" % loops[0].target.id] and ("%s.intersects(%s)" % (g, qarg), True) in guards
    res.check(RULE, "find_lanelet_by_shape keeps candidates that intersect the queried geometry and maps them by the id map", ok2, lmod, fs, "find_lanelet_by_shape filter", "candidates are not filtered by `intersects` against the very geometry queried with, or the hit is mapped through another object", qualname=q)
    rets = [n for n in walk_no_nested(fs) if isinstance(n, ast.Return)]
    res.check(RULE, "find_lanelet_by_shape returns the collected ids", len(rets) == 1 and len(appends) == 1 and norm(rets[0].value) == norm(appends[0].func.value), lmod, fs, "find_lanelet_by_shape return", "the collected ids are not what is returned", qualname=q)
    fp = repo.method(LA, "LaneletNetwork", "find_lanelet_by_position")
    q = "LaneletNetwork.find_lanelet_by_position"
    qs = calls_in(fp, lambda c: norm(c.func) == "self._strtee.query")
    ok = len(qs) == 1
    pred = dist = None
    if ok:
        kw = {k.arg: k.value for k in qs[0].keywords}
        pred = kw.get("predicate")
        dist = kw.get("distance")
        pv = pred.value if isinstance(pred, ast.Constant) else None
        ok = pv in ("dwithin", "intersects", "covered_by")
        if pv == "dwithin":
            rdp = ReachingDefs(fp)
            dv = None
            if isinstance(dist, ast.Constant):
                dv = dist.value
            elif isinstance(dist, ast.Name):
                ds = [d.node for d in rdp.defs(dist.id, qs[0]) if d.node is not None]
                if len(ds) == 1 and isinstance(ds[0], ast.Constant):
                    dv = ds[0].value
            ok = ok and isinstance(dv, float) and 0 <= dv <= 1e-9
        pts = [n for n in walk_no_nested(fp) if isinstance(n, ast.Assign) and isinstance(n.targets[0], ast.Name) and n.targets[0].id == norm(qs[0].args[0])]
        ok = ok and len(pts) == 1 and norm(pts[0].value) == "[ShapelyPoint(p) for p in %s]" % fp.args.args[1].arg
    res.check(RULE, "find_lanelet_by_position queries all points with a boundary-inclusive predicate", ok, lmod, fp, "find_lanelet_by_position query predicate=%s" % (norm(pred) if pred is not None else None), "points on a lanelet boundary (or inside) are not reported, or not every query point is looked up", qualname=q)
    loops = [n for n in walk_no_nested(fp) if isinstance(n, ast.For)]
    ok = False
    if len(loops) == 1 and isinstance(loops[0].target, ast.Tuple) and len(loops[0].target.elts) == 2 and qs:
        inp, geo = [e.id for e in loops[0].target.elts]
        qres = [n.targets[0].id for n in walk_no_nested(fp) if isinstance(n, ast.Assign) and n.value is qs[0] and isinstance(n.targets[0], ast.Name)]
        body = " ; ".join(norm(s) for s in loops[0].body)
        ok = bool(qres) and norm(loops[0].iter) == "zip(*%s)" % qres[0]
        ok = ok and "self._strtee.geometries[%s]" % geo in body and "self._get_lanelet_id_by_shapely_polygon(" in body and "[%s].append(" % inp in body
    res.check(RULE, "find_lanelet_by_position pairs (input index, tree index) and maps hits by the id map", ok, lmod, fp, "find_lanelet_by_position mapping", "hits are attributed to the wrong query point or mapped to the wrong lanelet id", qualname=q)
    rets = [n for n in walk_no_nested(fp) if isinstance(n, ast.Return)]
    ok = False
    if len(rets) == 1:
        rv = rets[0].value
        if isinstance(rv, ast.Name):
            rdp = ReachingDefs(fp)
            ds = [d.node for d in rdp.defs(rv.id, rets[0]) if d.node is not None]
            rv = ds[0] if len(ds) == 1 else rv
        t = norm(rv)
        ok = isinstance(rv, ast.ListComp) and "enumerate(%s)" % fp.args.args[1].arg in t and not rv.generators[0].ifs
    res.check(RULE, "find_lanelet_by_position answers once per query point, in order", ok, lmod, fp, "find_lanelet_by_position result", "the result list is not aligned with the list of query points", qualname=q)
    gi = repo.method(LA, "LaneletNetwork", "_get_lanelet_id_by_shapely_polygon")
    rets = [n for n in walk_no_nested(gi) if isinstance(n, ast.Return)]
    ok = len(rets) == 1 and norm(rets[0].value) == "self._lanelet_id_index_by_id[id(%s)]" % gi.args.args[1].arg
    res.check(RULE, "_get_lanelet_id_by_shapely_polygon reads the id map by id(polygon)", ok, lmod, gi, "_get_lanelet_id_by_shapely_polygon", "tree geometries are mapped to lanelet ids by another key than the one the map is built with", qualname="LaneletNetwork._get_lanelet_id_by_shapely_polygon")

    return fs


def run(repo, res, tier):
    res.rule("G1-SHAPE-AGREE", "containment predicate, exported geometry and drawing of each shape use the same parameters", 14)
    res.rule("G2-INDEX", "spatial index mirrors lanelet polygons and is rebuilt on every construction route", 12)
    res.rule("G3-LOOKUP", "lookups filter and map tree results consistently", 7)
    res.rule("G4-PROTOCOL", "query shapes export shapely_object; obstacle mapping uses polygon and occupancy shape", 6)
    smod = repo.mod(SH)

    # ---------------------------------------------------------------- G1 circle
    circ = repo.cls(SH, "Circle")
    init = circ.methods["__init__"]
    q = "Circle.__init__"
    bufs = calls_in(init, lambda c: isinstance(c.func, ast.Attribute) and c.func.attr == "buffer")
    if len(bufs) != 1:
        raise AnalysisError("Circle.__init__: expected one .buffer(..) call")
    arg = bufs[0].args[0] if bufs[0].args else None
    ok = arg is not None and C(arg, init) in ("radius", "self.radius")
    res.check("G1-SHAPE-AGREE", "Circle geometry = point.buffer(<radius>)", ok, smod, bufs[0], "Circle buffer(%s)" % (norm(arg) if arg is not None else ""), "the exported disc does not have the circle's radius: lookups by shape disagree with contains_point", qualname=q)
    pt = bufs[0].func.value
    ok = isinstance(pt, ast.Call) and norm(pt.func).endswith("Point") and [C(a, init) for a in pt.args] in (["self.center[0]", "self.center[1]"], ["self.center"], ["center[0]", "center[1]"], ["center"])
    res.check("G1-SHAPE-AGREE", "Circle geometry centred at the centre", ok, smod, bufs[0], "Circle point %s" % norm(pt), "the exported disc is not centred at the circle's centre", qualname=q)
    tgt = [n for n in walk_no_nested(init) if isinstance(n, (ast.Assign, ast.AnnAssign)) and any(x is bufs[0] for x in ast.walk(n.value))]
    slot = norm(tgt[0].targets[0] if isinstance(tgt[0], ast.Assign) else tgt[0].target) if tgt else None
    so = repo.method(SH, "Circle", "shapely_object")
    rets = [n for n in walk_no_nested(so) if isinstance(n, ast.Return)]
    res.check("G1-SHAPE-AGREE", "Circle.shapely_object returns the buffered disc", len(rets) == 1 and slot is not None and C(rets[0].value, so) == slot.replace("self._", "self."), smod, so, "Circle.shapely_object", "shapely_object does not return the geometry built from radius and centre", qualname="Circle.shapely_object")
    cp = circ.methods["contains_point"]
    rets = [n for n in walk_no_nested(cp) if isinstance(n, ast.Return)]
    ok = False
    if len(rets) == 1:
        t = C(rets[0].value, cp)
        pn = cp.args.args[1].arg
        dist = ("np.linalg.norm(%s - self.center)" % pn, "np.linalg.norm(self.center - %s)" % pn)
        ok = any(t in ("np.greater_equal(self.radius, %s)" % d, "np.less_equal(%s, self.radius)" % d, "%s <= self.radius" % d, "self.radius >= %s" % d) for d in dist)
    res.check("G1-SHAPE-AGREE", "Circle.contains_point: |p - centre| <= radius (closed)", ok, smod, cp, "Circle.contains_point: %s" % (norm(rets[0].value) if rets else "?"), "the containment predicate is not the closed disc of the circle's radius around its centre", qualname="Circle.contains_point")
    dr = circ.methods["draw"]
    de = calls_in(dr, lambda c: isinstance(c.func, ast.Attribute) and c.func.attr == "draw_ellipse")
    ok = len(de) == 1 and [C(a, dr) for a in de[0].args[:3]] == ["self.center", "self.radius", "self.radius"]
    res.check("G1-SHAPE-AGREE", "Circle.draw: ellipse(centre, radius, radius)", ok, smod, dr, "Circle.draw", "the drawn ellipse does not have the circle's parameters", qualname="Circle.draw")

    # ---------------------------------------------------------------- G1 rectangle
    rect = repo.cls(SH, "Rectangle")
    cv = rect.methods["_compute_vertices"]
    mats = [n for n in walk_no_nested(cv) if isinstance(n, ast.List) and n.elts and all(isinstance(r, ast.List) and len(r.elts) == 2 for r in n.elts)]
    if len(mats) != 1:
        raise AnalysisError("Rectangle._compute_vertices: corner matrix not found")
    corners = []
    okm = True
    for r in mats[0].elts:
        pair = []
        for e, want in zip(r.elts, ("self.length", "self.width")):
            sign = 1
            x = e
            if isinstance(x, ast.BinOp) and isinstance(x.op, ast.Mult):
                f, p = x.left, x.right
                if isinstance(f, ast.UnaryOp):
                    sign = -1 if isinstance(f.op, ast.USub) else 1
                    f = f.operand
                if isinstance(p, ast.Constant) or (isinstance(p, ast.UnaryOp) and isinstance(p.operand, ast.Constant)):
                    f, p = x.right, x.left
                    if isinstance(f, ast.UnaryOp):
                        sign = -1 if isinstance(f.op, ast.USub) else 1
                        f = f.operand
                if not (isinstance(f, ast.Constant) and f.value == 0.5 and C(p, cv) == want):
                    okm = False
            else:
                okm = False
            pair.append(sign)
        corners.append(tuple(pair))
    closed = len(corners) == 5 and corners[0] == corners[-1] and len(set(corners[:4])) == 4
    # consecutive corners differ in exactly one coordinate (a ring, not a bow-tie)
    ring = closed and all(sum(a != b for a, b in zip(corners[i], corners[i + 1])) == 1 for i in range(4))
    res.check("G1-SHAPE-AGREE", "Rectangle corners = (+-l/2, +-w/2) closed ring", okm and ring, smod, mats[0], "Rectangle corner matrix %s" % corners, "the vertex ring is not the l-by-w box (wrong half extents, missing corner, or self-intersecting order)", qualname="Rectangle._compute_vertices")
    rets = [n for n in walk_no_nested(cv) if isinstance(n, ast.Return)]
    ok = False
    if len(rets) == 1 and isinstance(rets[0].value, ast.Call) and norm(rets[0].value.func).endswith("rotate_translate") and len(rets[0].value.args) == 3:
        a0, a1, a2 = rets[0].value.args
        src = a0
        if isinstance(a0, ast.Name):
            ds = [d.node for d in ReachingDefs(cv).defs(a0.id, rets[0]) if d.node is not None]
            src = ds[0] if len(ds) == 1 else a0
        ok = any(x is mats[0] for x in ast.walk(src)) and C(a1, cv) == "self.center" and C(a2, cv) == "self.orientation"
    res.check("G1-SHAPE-AGREE", "Rectangle vertices placed by rotate_translate(corners, centre, orientation)", ok, smod, cv, "Rectangle._compute_vertices return %s" % (norm(rets[0].value) if rets else "?"), "the box is not rotated by its orientation and moved to its centre", qualname="Rectangle._compute_vertices")
    vg = repo.method(SH, "Rectangle", "vertices")
    ok = any(isinstance(n, ast.Call) and norm(n.func) == "self._compute_vertices" for n in walk_no_nested(vg))
    res.check("G1-SHAPE-AGREE", "Rectangle.vertices computed by _compute_vertices", ok, smod, vg, "Rectangle.vertices", "vertices are not the computed corner ring", qualname="Rectangle.vertices")
    sp = repo.method(SH, "Rectangle", "_shapely_polygon")
    built = calls_in(sp, lambda c: norm(c.func).endswith("geometry.Polygon"))
    ok = len(built) == 1 and [C(a, sp) for a in built[0].args] in (["self.vertices"], ["self._compute_vertices()"])
    res.check("G1-SHAPE-AGREE", "Rectangle geometry = Polygon(self.vertices)", ok, smod, sp, "Rectangle._shapely_polygon", "the exported polygon is not built from the rectangle's vertices", qualname="Rectangle._shapely_polygon")
    so = repo.method(SH, "Rectangle", "shapely_object")
    rets = [n for n in walk_no_nested(so) if isinstance(n, ast.Return)]
    res.check("G1-SHAPE-AGREE", "Rectangle.shapely_object returns that polygon", len(rets) == 1 and C(rets[0].value, so) == "self.shapely_polygon", smod, so, "Rectangle.shapely_object", "shapely_object does not return the polygon of the vertices", qualname="Rectangle.shapely_object")
    cp = rect.methods["contains_point"]
    rets = [n for n in walk_no_nested(cp) if isinstance(n, ast.Return)]
    ok = len(rets) == 1 and C(rets[0].value, cp) in ("self.shapely_polygon.intersects(shapely.geometry.Point(%s))" % cp.args.args[1].arg, "self.shapely_object.intersects(shapely.geometry.Point(%s))" % cp.args.args[1].arg)
    res.check("G1-SHAPE-AGREE", "Rectangle.contains_point = geometry.intersects(point)", ok, smod, cp, "Rectangle.contains_point", "containment is not decided on the exported geometry (boundary included)", qualname="Rectangle.contains_point")
    dr = rect.methods["draw"]
    ok = any(isinstance(c, ast.Call) and isinstance(c.func, ast.Attribute) and c.func.attr == "draw_rectangle" and C(c.args[0], dr) == "self.vertices" for c in walk_no_nested(dr))
    res.check("G1-SHAPE-AGREE", "Rectangle.draw draws self.vertices", ok, smod, dr, "Rectangle.draw", "the drawn ring is not the rectangle's vertex ring", qualname="Rectangle.draw")

    # ---------------------------------------------------------------- G1 polygon
    poly = repo.cls(SH, "Polygon")
    init = poly.methods["__init__"]
    built = [n for n in walk_no_nested(init) if isinstance(n, (ast.Assign, ast.AnnAssign)) and norm(n.targets[0] if isinstance(n, ast.Assign) else n.target) == "self._shapely_polygon"]
    ok = len(built) == 1 and isinstance(built[0].value, ast.Call) and norm(built[0].value.func).endswith("geometry.Polygon") and [C(a, init) for a in built[0].value.args] in (["vertices"], ["self.vertices"])
    res.check("G1-SHAPE-AGREE", "Polygon geometry = Polygon(vertices)", ok, smod, init, "Polygon.__init__ geometry", "the exported polygon is not built from the vertex ring", qualname="Polygon.__init__")
    for nm, fnm in (("_min", "np.min"), ("_max", "np.max")):
        st = [n for n in walk_no_nested(init) if isinstance(n, (ast.Assign, ast.AnnAssign)) and norm(n.targets[0] if isinstance(n, ast.Assign) else n.target) == "self." + nm]
        ok = len(st) == 1 and C(st[0].value, init) in ("%s(vertices, axis=0)" % fnm, "%s(self.vertices, axis=0)" % fnm, "%s(vertices, 0)" % fnm)
        res.check("G1-SHAPE-AGREE", "Polygon.%s = %s(vertices, axis=0)" % (nm, fnm), ok, smod, init, "Polygon.%s" % nm, "the bounding box used to pre-filter contains_point is not the bounding box of the vertices: points inside are rejected", qualname="Polygon.__init__")
    so = repo.method(SH, "Polygon", "shapely_object")
    rets = [n for n in walk_no_nested(so) if isinstance(n, ast.Return)]
    res.check("G1-SHAPE-AGREE", "Polygon.shapely_object returns that polygon", len(rets) == 1 and C(rets[0].value, so) == "self.shapely_polygon", smod, so, "Polygon.shapely_object", "shapely_object does not return the polygon of the vertices", qualname="Polygon.shapely_object")
    cp = poly.methods["contains_point"]
    rets = [n for n in walk_no_nested(cp) if isinstance(n, ast.Return)]
    ok = len(rets) == 1 and "self.shapely_polygon.intersects(shapely.geometry.Point(%s))" % cp.args.args[1].arg in C(rets[0].value, cp)
    inner = [n for n in ast.walk(cp) if isinstance(n, ast.FunctionDef) and n is not cp]
    if inner:
        t = " ".join(norm(r.value) for f in inner for r in ast.walk(f) if isinstance(r, ast.Return))
        t = t.replace("self._", "self.")
        ok = ok and "np.less_equal(self.min, point)" in t and "np.less_equal(point, self.max)" in t and " and " in t
    res.check("G1-SHAPE-AGREE", "Polygon.contains_point = bbox(closed) and geometry.intersects(point)", ok, smod, cp, "Polygon.contains_point", "containment is not decided on the exported geometry with a closed bounding-box pre-filter", qualname="Polygon.contains_point")
    sg = repo.cls(SH, "ShapeGroup").methods["contains_point"]
    loops = [n for n in walk_no_nested(sg) if isinstance(n, ast.For)]
    ok = len(loops) == 1 and norm(loops[0].iter) in ("self._shapes", "self.shapes")
    if ok:
        tests = [n for n in ast.walk(loops[0]) if isinstance(n, ast.If)]
        ok = len(tests) == 1 and norm(tests[0].test) == "%s.contains_point(point)" % loops[0].target.id and isinstance(tests[0].body[0], ast.Return) and norm(tests[0].body[0].value) == "True"
        last = [s for s in sg.body if isinstance(s, ast.Return)]
        ok = ok and len(last) == 1 and norm(last[0].value) == "False"
    res.check("G1-SHAPE-AGREE", "ShapeGroup.contains_point = any member contains", ok, smod, sg, "ShapeGroup.contains_point", "a shape group is not the union of its members", qualname="ShapeGroup.contains_point")

    # ---------------------------------------------------------------- G2
    lmod = repo.mod(LA)
    lan = repo.cls(LA, "Lanelet")
    net = repo.cls(LA, "LaneletNetwork")
    n_poly = 0
    for mn, fn in lan.methods.items():
        for n in walk_no_nested(fn):
            if isinstance(n, (ast.Assign, ast.AnnAssign)) and norm(n.targets[0] if isinstance(n, ast.Assign) else n.target) == "self._polygon":
                n_poly += 1
                t = norm(n.value).replace("self._right_vertices", "self.right_vertices").replace("self._left_vertices", "self.left_vertices")
                ok = t in ("Polygon(np.concatenate((self.right_vertices, np.flip(self.left_vertices, 0))))", "Polygon(np.concatenate((self.right_vertices, np.flip(self.left_vertices, axis=0))))", "Polygon(np.concatenate((self.right_vertices, self.left_vertices[::-1])))")
                res.check("G2-INDEX", "Lanelet.%s: polygon = right boundary + reversed left boundary" % mn, ok, lmod, n, "Lanelet.%s: self._polygon = %s" % (mn, norm(n.value)), "the lanelet polygon is not the ring right boundary followed by the reversed left boundary (self-intersecting or wrong area)", qualname="Lanelet." + mn)
    if n_poly < 3:
        raise AnalysisError("fewer than 3 assignments to Lanelet._polygon found")
    # stores into the index
    n_st = 0
    for mn, fn in net.methods.items():
        for n in walk_no_nested(fn):
            if isinstance(n, ast.Assign) and isinstance(n.targets[0], ast.Subscript) and norm(n.targets[0].value) == "self._buffered_polygons":
                n_st += 1
                key = norm(n.targets[0].slice)
                # find the sibling store self._lanelets[key] = X
                sib = [s for s in walk_no_nested(fn) if isinstance(s, ast.Assign) and isinstance(s.targets[0], ast.Subscript) and norm(s.targets[0].value) == "self._lanelets" and norm(s.targets[0].slice) == key]
                ok = len(sib) == 1 and norm(n.value) == "%s.polygon.shapely_object" % norm(sib[0].value) and key == "%s.lanelet_id" % norm(sib[0].value)
                res.check("G2-INDEX", "%s: index[%s] = that lanelet's polygon geometry" % (mn, key), ok, lmod, n, "%s: %s" % (mn, norm(n)), "the geometry stored in the index for a lanelet id is not the polygon of the lanelet stored under that id", qualname="LaneletNetwork." + mn)
            if isinstance(n, (ast.Assign, ast.AnnAssign)) and norm(n.targets[0] if isinstance(n, ast.Assign) else n.target) == "self._buffered_polygons" and mn not in ("__init__", "_create_strtree"):
                n_st += 1
                v = n.value
                ok = isinstance(v, ast.DictComp) and norm(v.generators[0].iter) == "self._lanelets.items()" and isinstance(v.generators[0].target, ast.Tuple) and norm(v.key) == norm(v.generators[0].target.elts[0]) and norm(v.value) == "%s.polygon.shapely_object" % norm(v.generators[0].target.elts[1]) and not v.generators[0].ifs
                res.check("G2-INDEX", "%s: index rebuilt from all lanelets" % mn, ok, lmod, n, "%s: %s" % (mn, norm(n)[:120]), "the rebuilt index does not map every lanelet id to that lanelet's polygon geometry", qualname="LaneletNetwork." + mn)
    if n_st < 2:
        raise AnalysisError("stores into _buffered_polygons not found")
    cs = net.methods["_create_strtree"]
    idm = [n for n in walk_no_nested(cs) if isinstance(n, ast.Assign) and norm(n.targets[0]) == "self._lanelet_id_index_by_id"]
    tree = [n for n in walk_no_nested(cs) if isinstance(n, ast.Assign) and norm(n.targets[0]) == "self._strtee"]
    ok = len(idm) == 1 and isinstance(idm[0].value, ast.DictComp)
    if ok:
        v = idm[0].value
        g = v.generators[0]
        ok = norm(g.iter) == "self._buffered_polygons.items()" and isinstance(g.target, ast.Tuple) and norm(v.key) == "id(%s)" % norm(g.target.elts[1]) and norm(v.value) == norm(g.target.elts[0]) and not g.ifs
    res.check("G2-INDEX", "_create_strtree: id map = {id(polygon): lanelet id} over the buffered polygons", ok, lmod, cs, "_create_strtree id map", "tree hits cannot be mapped back to the right lanelet id", qualname="LaneletNetwork._create_strtree")
    ok = len(tree) == 1 and norm(tree[0].value) in ("STRtree(list(self._buffered_polygons.values()))", "STRtree(self._buffered_polygons.values())")
    res.check("G2-INDEX", "_create_strtree: tree over exactly the buffered polygons", ok, lmod, cs, "_create_strtree tree", "the tree does not contain exactly the polygons the id map knows", qualname="LaneletNetwork._create_strtree")
    for mn, fn in net.methods.items():
        if mn in ("_create_strtree", "__init__"):
            continue
        for n in walk_no_nested(fn):
            if isinstance(n, (ast.Assign, ast.AnnAssign)) and norm(n.targets[0] if isinstance(n, ast.Assign) else n.target) == "self._lanelet_id_index_by_id":
                res.bad("G2-INDEX", "%s assigns the id map" % mn, Finding("G2-INDEX", lmod, n, "%s: %s" % (mn, norm(n)[:100]), "the id map is rebuilt apart from the tree: ids of polygons no longer match tree geometries", qualname="LaneletNetwork." + mn))
    # construction routes rebuild the index on the new object
    routes = {
        "__setstate__": "self._create_strtree",
        "__deepcopy__": "result._create_strtree",
        "create_from_lanelet_list": "lanelet_network._create_strtree",
        "create_from_lanelet_network": "new_lanelet_network._create_strtree",
    }
    for mn, callee in routes.items():
        fn = repo.method(LA, "LaneletNetwork", mn)
        top = [s for s in fn.body if isinstance(s, ast.Expr) and isinstance(s.value, ast.Call) and norm(s.value.func) == callee]
        rets = [s for s in walk_no_nested(fn) if isinstance(s, ast.Return) and s.value is not None]
        ok = len(top) >= 1 and all(r.lineno > top[-1].lineno or mn == "__setstate__" for r in rets)
        if rets and mn != "__setstate__":
            ok = ok and norm(rets[-1].value) == callee.split(".")[0]
        res.check("G2-INDEX", "%s rebuilds the index of the new network unconditionally" % mn, ok, lmod, fn, "%s -> %s" % (mn, callee), "a network built by this route answers lookups from a missing or foreign index", qualname="LaneletNetwork." + mn)
    gs = repo.method(LA, "LaneletNetwork", "__getstate__")
    ok = any(isinstance(n, ast.Delete) and norm(n.targets[0]) in ('state["_strtee"]', "state['_strtee']") for n in walk_no_nested(gs)) and any(isinstance(n, ast.Assign) and norm(n.value) == "self.__dict__.copy()" for n in walk_no_nested(gs))
    res.check("G2-INDEX", "__getstate__ drops only the tree from a copy of the state", ok, lmod, gs, "__getstate__", "pickling removes the tree from the live object or keeps an unpicklable tree", qualname="LaneletNetwork.__getstate__")

    # ---------------------------------------------------------------- G3
    fs = lookup_rules(repo, res, "G3-LOOKUP")

    # ---------------------------------------------------------------- G4
    asserts = [n for n in walk_no_nested(fs) if isinstance(n, ast.Assert)]
    admitted = []
    for a in asserts:
        for c in ast.walk(a.test):
            if isinstance(c, ast.Call) and call_name(c) == "isinstance" and norm(c.args[0]) == fs.args.args[1].arg:
                admitted = [norm(e) for e in (c.args[1].elts if isinstance(c.args[1], ast.Tuple) else [c.args[1]])]
    if not admitted:
        raise AnalysisError("find_lanelet_by_shape: isinstance assertion on the shape not found")
    for cn in admitted:
        c = repo.resolve_class(lmod, cn)
        for sc in (repo.subclasses(c) if c is not None else []):
            _o, p = repo.find_prop(sc, "shapely_object")
            res.check("G4-PROTOCOL", "%s (admitted query shape) exports shapely_object" % sc.name, p is not None and "get" in p, lmod, fs, "find_lanelet_by_shape admits %s" % sc.name, "%s is accepted as query shape but has no shapely_object: the lookup raises AttributeError" % sc.name, qualname="LaneletNetwork.find_lanelet_by_shape")
    go = lan.methods["get_obstacles"]
    t = " ; ".join(norm(s) for s in go.body)
    ok = "self._polygon.shapely_object" in t and ".occupancy_at_time(time_step).shape" in t and "sh.shapely_object for sh in o_shape.shapes" in t and "o_shape.shapely_object" in t
    inter = [n for n in walk_no_nested(go) if isinstance(n, ast.Call) and isinstance(n.func, ast.Attribute) and n.func.attr == "intersects"]
    ok = ok and len(inter) == 1
    res.check("G4-PROTOCOL", "Lanelet.get_obstacles intersects the lanelet polygon with the occupancy shape(s) at the time step", ok, lmod, go, "Lanelet.get_obstacles", "obstacles are not mapped by intersecting their occupancy with the lanelet polygon", qualname="Lanelet.get_obstacles")
    cpz = lan.methods["contains_points"]
    rets = [n for n in walk_no_nested(cpz) if isinstance(n, ast.Return)]
    ok = len(rets) == 1 and norm(rets[0].value) in ("[self._polygon.contains_point(p) for p in point_list]", "[self.polygon.contains_point(p) for p in point_list]")
    res.check("G4-PROTOCOL", "Lanelet.contains_points asks the lanelet polygon for every point", ok, lmod, cpz, "Lanelet.contains_points", "point containment is not decided by the lanelet polygon, or not per point", qualname="Lanelet.contains_points")
    mo = net.methods["map_obstacles_to_lanelets"]
    t = " ; ".join(norm(s) for s in mo.body)
    ok = "for la in self.lanelets" in t and "la.get_obstacles(obstacles)" in t and "mapping[la.lanelet_id] = mapped_objs" in t
    res.check("G4-PROTOCOL", "map_obstacles_to_lanelets asks every lanelet and keys by its id", ok, lmod, mo, "map_obstacles_to_lanelets", "the obstacle map is not built from every lanelet's own answer", qualname="LaneletNetwork.map_obstacles_to_lanelets")
    return {}

"""C07 rules on Scenario decided by abstract evaluation (sa/strdom.py).

World: a scenario with one static and one dynamic obstacle (initial time step 5, prediction up to 7) and a lanelet
network model whose two look-ups answer from tables (position -> lanelet ids, shape -> lanelet ids) and whose
lanelets 100 / 200 / 300 are real Lanelet objects (their registry methods are evaluated, not modelled).

  * assign_obstacles_to_lanelets is evaluated (shape mode and centre-only mode): afterwards the recorded centre sets
    must be the position look-ups of the obstacle's positions, the recorded shape sets the shape look-ups of its
    occupancies, per time step, and the lanelet registries exactly the inverse of what was recorded.
  * _add_*_to_lanelets / _remove_*_from_lanelets / remove_obstacle are evaluated on obstacles that carry an
    assignment: registries = inverse of the shape assignment after adding, empty of the obstacle after removing, and
    removing never raises — also when a referenced lanelet no longer exists or a registry has no entry.
"""
from ..core import AnalysisError
from ..strdom import NONE, ClassRef, Ctor, DictV, Ev, ListV, Obj, PyFunc, SetV, Sym, TupV, Undecided, _Raise, same, show

SC = "commonroad/scenario/scenario.py"
O = "commonroad/scenario/obstacle.py"
LA = "commonroad/scenario/lanelet.py"
P = "commonroad/prediction/prediction.py"
LIDS = (100, 200, 300)
T0, T1 = 5, 7


class World:
    def __init__(self, repo, with_assignment=False, missing_lanelet=None, empty_registries=True, no_prediction=False):
        self.repo = repo
        self.ev = Ev(repo)
        self.ev.pure_modules = {"np", "numpy", "math", "shapely"}
        lan = repo.cls(LA, "Lanelet")
        self.lanelets = {k: Obj(lan, {"_lanelet_id": k, "_static_obstacles_on_lanelet": SetV([]), "_dynamic_obstacles_on_lanelet": DictV()}, label="lanelet %d" % k) for k in LIDS}
        self.pos_table, self.shape_table = {}, {}
        self.asked = []

        def by_position(a, k):
            pts = a[0] if a else k.get("point_list")
            self.asked.append(("position", pts))
            out = []
            for p in pts.items if isinstance(pts, ListV) else []:
                out.append(ListV(list(self.pos_table.get(id(p), ()))))
            return ListV(out)

        def by_shape(a, k):
            s = a[0] if a else k.get("shape")
            self.asked.append(("shape", s))
            return ListV(list(self.shape_table.get(id(s), ())))

        def by_id(a, k):
            i = a[0] if a else k.get("lanelet_id")
            if i == missing_lanelet:
                return NONE
            return self.lanelets.get(i, NONE)

        self.net = Obj(None, {"find_lanelet_by_position": PyFunc(by_position, "find_lanelet_by_position"), "find_lanelet_by_shape": PyFunc(by_shape, "find_lanelet_by_shape"), "find_lanelet_by_id": PyFunc(by_id, "find_lanelet_by_id"), "lanelets": ListV(list(self.lanelets.values()))}, closed=True, label="lanelet network")
        # static obstacle
        so = repo.cls(O, "StaticObstacle")
        self.ps = Sym("position of the static obstacle", "num")
        self.shape_s = Obj(None, {}, closed=True, label="occupied shape of the static obstacle")
        self.pos_table[id(self.ps)] = (100,)
        self.shape_table[id(self.shape_s)] = (100, 200)
        self.static = Obj(so, {"_obstacle_id": 31, "_initial_state": Obj(None, {"position": self.ps, "time_step": 0}, closed=True, label="initial state (static)"), "_initial_center_lanelet_ids": NONE, "_initial_shape_lanelet_ids": NONE, "occupancy_at_time": PyFunc(lambda a, k: Obj(None, {"shape": self.shape_s}, closed=True, label="occupancy (static)"), "occupancy_at_time")}, label="static obstacle")
        # dynamic obstacle
        do = repo.cls(O, "DynamicObstacle")
        tp = repo.cls(P, "TrajectoryPrediction")
        self.pd = {t: Sym("position at %d" % t, "num") for t in range(T0, T1 + 1)}
        self.shd = {t: Obj(None, {}, closed=True, label="occupied shape at %d" % t) for t in range(T0, T1 + 1)}
        centre = {5: (100,), 6: (200,), 7: (200, 300)}
        shp = {5: (100,), 6: (100, 200), 7: (300,)}
        for t in self.pd:
            self.pos_table[id(self.pd[t])] = centre[t]
            self.shape_table[id(self.shd[t])] = shp[t]
        self.centre, self.shp = centre, shp
        self.time_asked = []

        def state_at(a, k):
            t = a[0] if a else k.get("time_step")
            self.time_asked.append(("state", t))
            return Obj(None, {"position": self.pd[t], "time_step": t}, closed=True, label="state at %s" % t) if t in self.pd and t != T0 else NONE

        def occ_at(a, k):
            t = a[0] if a else k.get("time_step")
            self.time_asked.append(("occupancy", t))
            return Obj(None, {"shape": self.shd[t], "time_step": t}, closed=True, label="occupancy at %s" % t) if t in self.shd else NONE

        traj = Obj(None, {"state_at_time_step": PyFunc(state_at, "state_at_time_step")}, closed=True, label="trajectory")
        self.pred = Obj(tp, {"_trajectory": traj, "trajectory": traj, "final_time_step": T1, "initial_time_step": T0 + 1, "_center_lanelet_assignment": NONE, "_shape_lanelet_assignment": NONE}, label="prediction")
        self.dynamic = Obj(do, {"_obstacle_id": 47, "_initial_state": Obj(None, {"position": self.pd[T0], "time_step": T0}, closed=True, label="initial state (dynamic)"), "_prediction": self.pred, "_initial_center_lanelet_ids": NONE, "_initial_shape_lanelet_ids": NONE, "occupancy_at_time": PyFunc(occ_at, "occupancy_at_time")}, label="dynamic obstacle")
        sc = repo.cls(SC, "Scenario")
        self.scenario = Obj(sc, {"_lanelet_network": self.net, "_static_obstacles": DictV({31: self.static}), "_dynamic_obstacles": DictV({47: self.dynamic}), "_environment_obstacle": DictV(), "_phantom_obstacle": DictV(), "_id_set": SetV([31, 47])}, label="scenario")
        if with_assignment:
            self.static.fields["_initial_center_lanelet_ids"] = SetV([100])
            self.static.fields["_initial_shape_lanelet_ids"] = SetV([100, 200])
            self.dynamic.fields["_initial_center_lanelet_ids"] = SetV(list(centre[T0]))
            self.dynamic.fields["_initial_shape_lanelet_ids"] = SetV(list(shp[T0]))
            self.pred.fields["_center_lanelet_assignment"] = DictV({t: SetV(list(centre[t])) for t in centre})
            self.pred.fields["_shape_lanelet_assignment"] = DictV({t: SetV(list(shp[t])) for t in shp})
            if no_prediction:
                # an obstacle that only has its initial state: the assignment of the initial time step is all there is
                self.dynamic.fields["_prediction"] = NONE
                self.shp = {T0: shp[T0]}
                self.centre = {T0: centre[T0]}
            if not empty_registries:
                self.register_expected()

    def register_expected(self):
        for k in (100, 200):
            self.lanelets[k].fields["_static_obstacles_on_lanelet"].items.append(31)
        for t, ids in self.shp.items():
            for k in ids:
                self.lanelets[k].fields["_dynamic_obstacles_on_lanelet"].d.setdefault(t, SetV([])).items.append(47)

    def call(self, name, args, kwargs=None):
        sc = self.scenario.cls
        fn = sc.methods.get(name)
        if fn is None:
            raise AnalysisError("Scenario.%s missing" % name)
        return self.ev.call_fn(self.ev.bind(fn, sc, self.scenario), args, kwargs or {}, fn), fn

    # --- observations
    def static_registry(self):
        return {k: sorted(l.fields["_static_obstacles_on_lanelet"].items) if isinstance(l.fields["_static_obstacles_on_lanelet"], ListV) else None for k, l in self.lanelets.items()}

    def dynamic_registry(self):
        out = {}
        for k, l in self.lanelets.items():
            d = l.fields["_dynamic_obstacles_on_lanelet"]
            for t, ids in (d.d.items() if isinstance(d, DictV) else []):
                for i in ids.items if isinstance(ids, ListV) else []:
                    out.setdefault(t, set()).add((k, i))
        return out


def ids_of(v):
    return sorted(v.items) if isinstance(v, ListV) and all(isinstance(x, int) for x in v.items) else None


def assign_rule(repo, res):
    sc = repo.cls(SC, "Scenario")
    fn = sc.methods.get("assign_obstacles_to_lanelets")
    if fn is None:
        raise AnalysisError("Scenario.assign_obstacles_to_lanelets missing")
    qn = "Scenario.assign_obstacles_to_lanelets"
    for centre_only, again in ((False, None), (True, None), (False, [T0 + 1]), (True, [T1])):
        label = ("centre-only assignment" if centre_only else "assignment by shape") + ("" if again is None else ", then once more for time step %s only" % again)
        w = World(repo)
        bad = []
        try:
            w.call("assign_obstacles_to_lanelets", [], {"use_center_only": centre_only})
            if again is not None:
                # a second, partial assignment (as a simulation loop does step by step): what was recorded for the other
                # time steps stays as it is
                w.call("assign_obstacles_to_lanelets", [], {"time_steps": ListV(list(again)), "use_center_only": centre_only})
        except _Raise as x:
            bad.append("raises %s" % x.what)
        except Undecided as x:
            raise AnalysisError("%s [%s]: %s" % (qn, label, x))
        if not bad:
            st, dy, pr = w.static.fields, w.dynamic.fields, w.pred.fields
            # static obstacle
            if ids_of(st["_initial_center_lanelet_ids"]) != [100]:
                bad.append("static obstacle: recorded centre lanelets %s, its position lies in [100]" % show(st["_initial_center_lanelet_ids"]))
            if not centre_only and ids_of(st["_initial_shape_lanelet_ids"]) != [100, 200]:
                bad.append("static obstacle: recorded shape lanelets %s, its occupancy intersects [100, 200]" % show(st["_initial_shape_lanelet_ids"]))
            want_static = {100: [31], 200: [] if centre_only else [31], 300: []}
            if w.static_registry() != want_static:
                bad.append("static registries %s, expected %s" % (w.static_registry(), want_static))
            # dynamic obstacle
            ca, sa = pr["_center_lanelet_assignment"], pr["_shape_lanelet_assignment"]
            got_c = {t: ids_of(v) for t, v in ca.d.items()} if isinstance(ca, DictV) else None
            if got_c != {t: sorted(v) for t, v in w.centre.items()}:
                bad.append("dynamic obstacle: centre assignment %s, positions lie in %s" % (got_c, w.centre))
            if not centre_only:
                got_s = {t: ids_of(v) for t, v in sa.d.items()} if isinstance(sa, DictV) else None
                if got_s != {t: sorted(v) for t, v in w.shp.items()}:
                    bad.append("dynamic obstacle: shape assignment %s, occupancies intersect %s" % (got_s, w.shp))
                if ids_of(dy["_initial_shape_lanelet_ids"]) != sorted(w.shp[T0]):
                    bad.append("dynamic obstacle: initial shape lanelets %s, expected %s" % (show(dy["_initial_shape_lanelet_ids"]), sorted(w.shp[T0])))
            if ids_of(dy["_initial_center_lanelet_ids"]) != sorted(w.centre[T0]):
                bad.append("dynamic obstacle: initial centre lanelets %s, expected %s" % (show(dy["_initial_center_lanelet_ids"]), sorted(w.centre[T0])))
            table = w.centre if centre_only else w.shp
            want_dyn = {t: {(k, 47) for k in ids} for t, ids in table.items()}
            if w.dynamic_registry() != want_dyn:
                bad.append("dynamic registries %s, expected the inverse of the %s assignment %s" % (w.dynamic_registry(), "centre" if centre_only else "shape", want_dyn))
        res.check("A1-SAME-SET", "%s [%s]: recorded sets are the look-ups of the obstacle's own position / occupancy per time step, registries their inverse" % (qn, label), not bad, sc.mod, fn, "%s [%s]: %s" % (qn, label, "; ".join(bad[:3])), "after the assignment a recorded lanelet set is not the set of lanelets containing the centre / intersecting the occupancy at that time step, or a lanelet registry is not the inverse of the recorded assignment", qualname=qn)


def add_remove_rules(repo, res):
    sc = repo.cls(SC, "Scenario")

    def run(name, label, body, rule):
        fn = sc.methods.get(name)
        if fn is None:
            raise AnalysisError("Scenario.%s missing" % name)
        qn = "Scenario.%s" % name
        try:
            bad = body()
        except _Raise as x:
            bad = ["raises %s" % x.what]
        except Undecided as x:
            raise AnalysisError("%s [%s]: %s" % (qn, label, x))
        res.check(rule, "%s [%s]" % (qn, label), not bad, sc.mod, fn, "%s [%s]: %s" % (qn, label, "; ".join(bad[:3])), "lanelet registries and the obstacle's shape assignment are not inverse to each other after adding / removing, or removing fails", qualname=qn)

    def add_dynamic():
        w = World(repo, with_assignment=True)
        w.call("_add_dynamic_obstacle_to_lanelets", [w.dynamic])
        want = {t: {(k, 47) for k in ids} for t, ids in w.shp.items()}
        return [] if w.dynamic_registry() == want else ["registries %s, expected the inverse of the shape assignment %s" % (w.dynamic_registry(), want)]

    run("_add_dynamic_obstacle_to_lanelets", "obstacle with a shape assignment for time steps 5..7", add_dynamic, "A2-INVERSE")

    def add_dynamic_initial_only():
        w = World(repo, with_assignment=True, no_prediction=True)
        w.call("_add_dynamic_obstacle_to_lanelets", [w.dynamic])
        want = {t: {(k, 47) for k in ids} for t, ids in w.shp.items()}
        return [] if w.dynamic_registry() == want else ["registries %s, expected %s" % (w.dynamic_registry(), want)]

    run("_add_dynamic_obstacle_to_lanelets", "obstacle without a prediction (initial state only)", add_dynamic_initial_only, "A2-INVERSE")

    def add_static():
        w = World(repo, with_assignment=True)
        w.call("_add_static_obstacle_to_lanelets", [31, w.static.fields["_initial_shape_lanelet_ids"]])
        want = {100: [31], 200: [31], 300: []}
        return [] if w.static_registry() == want else ["registries %s, expected %s" % (w.static_registry(), want)]

    run("_add_static_obstacle_to_lanelets", "obstacle on lanelets 100 and 200", add_static, "A2-INVERSE")

    def remove_dynamic(missing=None, empty=False, no_prediction=False):
        def body():
            w = World(repo, with_assignment=True, missing_lanelet=missing, empty_registries=empty, no_prediction=no_prediction)
            w.call("_remove_dynamic_obstacle_from_lanelets", [w.dynamic])
            left = {t: v for t, v in w.dynamic_registry().items() if any(k != missing for k, _i in v)}
            left = {t: {x for x in v if x[0] != missing} for t, v in left.items()}
            left = {t: v for t, v in left.items() if v}
            return [] if not left else ["references left behind: %s" % left]

        return body

    run("_remove_dynamic_obstacle_from_lanelets", "registered obstacle", remove_dynamic(), "A2-INVERSE")
    run("_remove_dynamic_obstacle_from_lanelets", "registered obstacle without a prediction (initial state only)", remove_dynamic(no_prediction=True), "A2-INVERSE")
    for gone in LIDS:
        run("_remove_dynamic_obstacle_from_lanelets", "referenced lanelet %d no longer exists" % gone, remove_dynamic(missing=gone), "A2-TOTAL")
    run("_remove_dynamic_obstacle_from_lanelets", "registries have no entry for the obstacle", remove_dynamic(empty=True), "A2-TOTAL")

    def remove_static(missing=None, empty=False):
        def body():
            w = World(repo, with_assignment=True, missing_lanelet=missing, empty_registries=empty)
            w.call("_remove_static_obstacle_from_lanelets", [31, w.static.fields["_initial_shape_lanelet_ids"]])
            left = {k: v for k, v in w.static_registry().items() if v and k != missing}
            return [] if not left else ["references left behind: %s" % left]

        return body

    run("_remove_static_obstacle_from_lanelets", "registered obstacle", remove_static(), "A2-INVERSE")
    for gone in (100, 200):
        run("_remove_static_obstacle_from_lanelets", "referenced lanelet %d no longer exists" % gone, remove_static(missing=gone), "A2-TOTAL")
    run("_remove_static_obstacle_from_lanelets", "registries have no entry for the obstacle", remove_static(empty=True), "A2-TOTAL")

    def remove_obstacle(which, assigned, missing=None, no_prediction=False):
        def body():
            w = World(repo, with_assignment=assigned, missing_lanelet=missing, empty_registries=not assigned, no_prediction=no_prediction)
            o = w.static if which == "static" else w.dynamic
            oid = o.fields["_obstacle_id"]
            w.call("remove_obstacle", [o])
            bad = []
            reg = "_static_obstacles" if which == "static" else "_dynamic_obstacles"
            if oid in w.scenario.fields[reg].d:
                bad.append("the obstacle is still contained")
            if which == "static":
                left = {k: v for k, v in w.static_registry().items() if v and k != missing}
            else:
                left = {t: {x for x in v if x[0] != missing} for t, v in w.dynamic_registry().items()}
                left = {t: v for t, v in left.items() if v}
            if left:
                bad.append("lanelet registries still reference it: %s" % left)
            return bad

        return body

    for which in ("static", "dynamic"):
        run("remove_obstacle", "%s obstacle with assignment" % which, remove_obstacle(which, True), "A2-INVERSE")
        run("remove_obstacle", "%s obstacle never assigned to lanelets" % which, remove_obstacle(which, False), "A2-TOTAL")
        for gone in (100, 200):
            run("remove_obstacle", "%s obstacle whose lanelet %d was removed meanwhile" % (which, gone), remove_obstacle(which, True, missing=gone), "A2-TOTAL")
    run("remove_obstacle", "dynamic obstacle without a prediction, assigned at its initial time step", remove_obstacle("dynamic", True, no_prediction=True), "A2-INVERSE")


# --------------------------------------------------------------------------- the two file readers
RX = "commonroad/common/reader/file_reader_xml.py"
RP = "commonroad/common/reader/file_reader_protobuf.py"


class ReaderWorld:
    """What an obstacle factory of a file reader is given: a lanelet network whose look-ups answer from tables keyed by
    *which state* the queried shape was placed at / the queried point belongs to, an obstacle shape whose placement is
    recorded, an initial state (time step 5) and two trajectory states (6, 7).  The factories' helpers that parse the
    file (ids, types, states, shapes, trajectories) are stubbed to hand out these objects; everything that assigns
    lanelets is evaluated."""

    CENTRE = {5: (100,), 6: (200,), 7: (200, 300)}
    SHAPE = {5: (100, 200), 6: (200,), 7: (300,)}

    def __init__(self, repo, oid):
        self.repo, self.oid = repo, oid
        ev = self.ev = Ev(repo)
        ev.pure_modules = {"np", "numpy", "math", "shapely", "warnings", "logging", "logger"}
        ev.assume_valid = True
        lan = repo.cls(LA, "Lanelet")
        self.lanelets = {k: Obj(lan, {"_lanelet_id": k, "_static_obstacles_on_lanelet": SetV([]), "_dynamic_obstacles_on_lanelet": DictV()}, label="lanelet %d" % k) for k in LIDS}
        self.states = {t: Obj(None, {"position": Sym("position at %d" % t, "num"), "orientation": Sym("orientation at %d" % t, "num"), "time_step": t}, closed=True, label="state at %d" % t) for t in (5, 6, 7)}
        self.errors = []
        self.placed = {}

        def place(a, k):
            pos, ori = (list(a) + [None, None])[:2]
            pos = k.get("translation", k.get("position", pos))
            ori = k.get("angle", k.get("orientation", ori))
            o = Obj(None, {}, closed=True, label="obstacle shape placed at (%s, %s)" % (show(pos), show(ori)))
            hit = [t for t, s in self.states.items() if pos is s.fields["position"] and ori is s.fields["orientation"]]
            self.placed[id(o)] = (hit[0] if hit else None, o)
            return o

        self.shape = Obj(None, {"rotate_translate_local": PyFunc(place, "rotate_translate_local")}, closed=True, label="obstacle shape")

        def by_shape(a, k):
            s = a[0] if a else k.get("shape")
            t = self.placed.get(id(s), (None, None))[0]
            if t is None:
                self.errors.append("lanelets are looked up by %s, which is not the obstacle's shape placed at one of its states" % show(s))
                return ListV([])
            return ListV(list(self.SHAPE[t]))

        def by_position(a, k):
            pts = a[0] if a else k.get("point_list")
            out = []
            for p in pts.items if isinstance(pts, ListV) else [pts]:
                hit = [t for t, s in self.states.items() if p is s.fields["position"]]
                if not hit:
                    self.errors.append("lanelets are looked up at %s, which is not the position of one of the obstacle's states" % show(p))
                    out.append(ListV([]))
                else:
                    out.append(ListV(list(self.CENTRE[hit[0]])))
            return ListV(out)

        self.net = Obj(None, {"find_lanelet_by_position": PyFunc(by_position, "find_lanelet_by_position"), "find_lanelet_by_shape": PyFunc(by_shape, "find_lanelet_by_shape"), "find_lanelet_by_id": PyFunc(lambda a, k: self.lanelets.get(a[0] if a else k.get("lanelet_id"), NONE), "find_lanelet_by_id")}, closed=True, label="lanelet network")
        self.trajectory = Obj(None, {"state_list": ListV([self.states[6], self.states[7]]), "_state_list": ListV([self.states[6], self.states[7]]), "initial_time_step": 6, "final_state": self.states[7]}, closed=True, label="trajectory")
        for cn in ("StaticObstacle", "DynamicObstacle"):
            ev.ctor_models[cn] = self.recorder(repo.cls(O, cn))
        ev.ctor_models["TrajectoryPrediction"] = self.recorder(repo.cls(P, "TrajectoryPrediction"))

    def recorder(self, cls):
        """constructor model: an object of the class whose private slots hold the arguments (the validating setters of
        the real constructor are not the subject here; later attribute stores go through the real setters)"""
        owner, init = self.repo.find_method(cls, "__init__")

        def make(args, kwargs):
            b = self.ev.bind_args(init, args, kwargs, drop_first=True, mod=owner.mod)
            o = Obj(cls, {"_" + k.lstrip("_"): v for k, v in b.items()}, label="the %s read from the file" % cls.name)
            if "_obstacle_shape" in o.fields:
                o.fields["_shape"] = o.fields["_obstacle_shape"]
            return o

        return make

    def ids(self, v):
        if v is NONE or v is None:
            return None
        if isinstance(v, ListV):
            return sorted(v.items)
        return show(v)

    def judge(self, ob, dynamic, assign):
        bad = list(self.errors)
        ev = self.ev
        shape0 = self.ids(ev.getattr(ob, "initial_shape_lanelet_ids", None, None))
        centre0 = self.ids(ev.getattr(ob, "initial_center_lanelet_ids", None, None))
        if not assign:
            if shape0 not in (None, []) or centre0 not in (None, []):
                bad.append("assignment switched off, yet the obstacle carries %s / %s" % (centre0, shape0))
            regs = [k for k, l in self.lanelets.items() if l.fields["_static_obstacles_on_lanelet"].items or l.fields["_dynamic_obstacles_on_lanelet"].d]
            if regs:
                bad.append("assignment switched off, yet lanelets %s register the obstacle" % regs)
            return bad
        if shape0 != sorted(self.SHAPE[5]):
            bad.append("initial shape lanelets %s, the placed shape lies on %s" % (shape0, sorted(self.SHAPE[5])))
        if centre0 != sorted(self.CENTRE[5]):
            bad.append("initial centre lanelets %s, the centre lies on %s" % (centre0, sorted(self.CENTRE[5])))
        want_static = {k: ([self.oid] if (not dynamic and k in self.SHAPE[5]) else []) for k in LIDS}
        want_dyn = {k: {} for k in LIDS}
        if dynamic:
            for t, ks in self.SHAPE.items():
                for k in ks:
                    want_dyn[k][t] = [self.oid]
            pred = ev.getattr(ob, "prediction", None, None)
            if not isinstance(pred, Obj):
                bad.append("the obstacle has no trajectory prediction (%s)" % show(pred))
            else:
                for what, table in (("shape", self.SHAPE), ("center", self.CENTRE)):
                    got = ev.getattr(pred, "%s_lanelet_assignment" % what, None, None)
                    gd = {k: sorted(v.items) if isinstance(v, ListV) else show(v) for k, v in got.d.items()} if isinstance(got, DictV) else show(got)
                    if gd != {t: sorted(ks) for t, ks in table.items()}:
                        bad.append("%s lanelets per time step %s, the look-ups give %s" % (what, gd, {t: sorted(ks) for t, ks in table.items()}))
        for k, l in self.lanelets.items():
            gs = sorted(l.fields["_static_obstacles_on_lanelet"].items)
            gd = {t: sorted(v.items) for t, v in l.fields["_dynamic_obstacles_on_lanelet"].d.items() if v.items}
            if gs != want_static[k] or gd != want_dyn[k]:
                bad.append("lanelet %d registers static %s / dynamic %s, the inverse of the assignment is %s / %s" % (k, gs, gd, want_static[k], want_dyn[k]))
        return bad


def reader_rules(repo, res, RULE="A3-READERS"):
    """Both file readers, both obstacle kinds, with and without lanelet assignment: the obstacle read carries exactly
    the look-ups of its placed shape / its centre at each of its states, and the lanelets register it inversely."""
    from ..strdom import ElemV, Str

    def xml_node(tag, kids):
        e = ElemV(Str.lit(tag))
        for k in kids:
            e.children.items.append(ElemV(Str.lit(k)))
        return e

    def run(label, rel, cname, mname, dynamic, assign, prepare):
        cls = repo.cls(rel, cname)
        owner, fn = repo.find_method(cls, mname)
        if fn is None:
            raise AnalysisError("%s.%s missing" % (cname, mname))
        qn = "%s.%s" % (cname, mname)
        w = ReaderWorld(repo, 47 if dynamic else 31)
        bad = []
        lab = "%s, lanelet assignment %s" % (label, "on" if assign else "off")
        try:
            first = prepare(w)
            ob = w.ev.call_fn(w.ev.bind(fn, owner, None, via_class=ClassRef(cls)), [first, w.net, assign], {}, fn)
            if not isinstance(ob, Obj):
                raise Undecided("the factory returns %s" % show(ob))
            bad = w.judge(ob, dynamic, assign)
        except _Raise as x:
            bad.append("raises %s" % x.what)
        except Undecided as x:
            raise AnalysisError("%s [%s]: %s" % (qn, lab, x))
        res.check(RULE, "%s [%s]: assignment = look-ups of the obstacle's own shape and centre per state; registries inverse" % (qn, lab), not bad, cls.mod, fn, "%s [%s]: %s" % (qn, lab, "; ".join(bad[:3])), "an obstacle read from a file is assigned to other lanelets than the ones it occupies, or the lanelets' registries are not the inverse of its assignment", qualname=qn)

    def xml_prepare(dynamic):
        def prep(w):
            ev = w.ev
            st = {"read_type": lambda a: Sym("obstacle type", "num"), "read_id": lambda a: w.oid, "read_initial_state": lambda a: w.states[5], "read_initial_signal_state": lambda a: NONE, "read_shape": lambda a: w.shape, "read_wheelbase": lambda a: NONE}
            for owner_name in ("ObstacleFactory", "StaticObstacleFactory", "DynamicObstacleFactory"):
                for k, f in st.items():
                    ev.stubs["%s.%s" % (owner_name, k)] = f
            ev.stubs["SignalSeriesFactory.create_from_xml_node"] = lambda a: ListV([])
            ev.stubs["TrajectoryFactory.create_from_xml_node"] = lambda a: w.trajectory
            return xml_node("dynamicObstacle" if dynamic else "staticObstacle", ["type", "shape", "initialState"] + (["trajectory"] if dynamic else []))

        return prep

    def pb_prepare(dynamic):
        def prep(w):
            ev = w.ev
            ot = repo.cls(O, "ObstacleType")
            ev.model_calls["commonroad.scenario_definition.protobuf_format.generated_scripts.obstacle_pb2.ObstacleTypeEnum.ObstacleType.Name"] = lambda a, k: Str.lit(list(ot.enum_members())[0])
            ev.stubs["ShapeFactory.create_from_message"] = lambda a: w.shape
            ev.stubs["StateFactory.create_from_message"] = lambda a: w.states[5]
            ev.stubs["SignalStateFactory.create_from_message"] = lambda a: NONE
            ev.stubs["TrajectoryFactory.create_from_message"] = lambda a: w.trajectory
            present = {"trajectory_prediction"} if dynamic else set()
            msg = Obj(None, {("dynamic_obstacle_id" if dynamic else "static_obstacle_id"): w.oid, "obstacle_type": 1, "shape": Obj(None, {}, label="shape message"), "initial_state": Obj(None, {}, label="state message"), "signal_series": ListV([]), "trajectory_prediction": Obj(None, {"trajectory": Obj(None, {}, label="trajectory message"), "shape": Obj(None, {}, label="shape message")}, label="prediction message"), "HasField": PyFunc(lambda a, k: a[0].text() in present, "HasField")}, closed=True, label="obstacle message")
            return msg

        return prep

    for assign in (True, False):
        run("XML, static obstacle", RX, "StaticObstacleFactory", "create_from_xml_node", False, assign, xml_prepare(False))
        run("XML, dynamic obstacle with trajectory", RX, "DynamicObstacleFactory", "create_from_xml_node", True, assign, xml_prepare(True))
        run("protobuf, static obstacle", RP, "StaticObstacleFactory", "create_from_message", False, assign, pb_prepare(False))
        run("protobuf, dynamic obstacle with trajectory", RP, "DynamicObstacleFactory", "create_from_message", True, assign, pb_prepare(True))

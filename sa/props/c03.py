"""C03 — every written XML scenario file is valid against the 2020a schema (structural clauses).

The element tree the writer emits is extracted from the builder code (sa/xmlw.py) and walked
against the parsed XSD (sa/schema.py):
  X-NAME   every emitted child element / attribute is allowed by the schema type of its parent
  X-ORDER  children of an xs:sequence type are emitted in schema order
  X-REQ    required children and attributes of a schema type are emitted, and not only under a test that
           excludes an enum member whose value the schema accepts (such an object is expressible, the element
           would be missing)
  X-NUM    text written into decimal-typed elements / attributes is produced by a positional
           formatter (float_to_str); str()/repr()/f-strings of a float-typed source may print
           exponent notation, which xs:decimal rejects
  X-ENUM   text written into enumeration-typed elements is the `.value` of an enum all of whose
           schema values it can produce (documented `.name.lower()` alternative checked member-wise)
"""
import ast

from ..core import AnalysisError, Finding, attr_chain, call_name, norm, walk_no_nested
from ..effects import Effects, type_names
from ..schema import XSD
from ..xmlw import WX, Node, WriterModel
from ..xmlmap import NameMap, snake_to_camel

XSD_REL = "commonroad/scenario_definition/xml_definition_files/XML_commonRoad_XSD.xsd"
ST = "commonroad/scenario/state.py"

POSITIONAL = ("float_to_str", "np.format_float_positional", "numpy.format_float_positional")


class Ctx:
    def __init__(self, repo, res):
        self.repo, self.res = repo, res
        self.w = WriterModel(repo)
        self.xsd = XSD(repo.read_data_file(XSD_REL), XSD_REL)
        self.eff = Effects(repo)
        self.mod = self.w.mod
        self.seen = set()
        self.state_fields = self._state_fields()
        self.map_xml = NameMap(self.mod.classes["StateXMLNode"].methods["_map_to_xml_prop"], "StateXMLNode._map_to_xml_prop", repo, self.mod.classes["StateXMLNode"], self.mod)

    def _state_fields(self):
        st = self.repo.cls(ST, "State")
        out = []
        for sc in self.repo.subclasses(st):
            for f in self.repo.dataclass_fields(sc):
                if f not in out:
                    out.append(f)
        return out

    # -------------------------------------------------------- tags of a (possibly dynamic) node
    def tags(self, node):
        b = self.w.base_root(node)
        if b.tag is not None:
            return [b.tag]
        dyn = b.dyn
        if isinstance(dyn, ast.Name) and b.origin is not None:
            # the tag was computed into a local first: the one expression it is bound to
            f_ = self.mod.enclosing_function(b.origin)
            asg = [st for st in ast.walk(f_) if isinstance(st, ast.Assign) and len(st.targets) == 1 and isinstance(st.targets[0], ast.Name) and st.targets[0].id == dyn.id] if f_ is not None else []
            if len(asg) == 1:
                dyn = asg[0].value
        t = norm(dyn)
        if t.endswith(".value + 'Obstacle'"):
            # role passed by the caller of the header builder
            roles = []
            if node.base is not None:
                call = node.base.call
                callee_fn = self.w.funcs[node.base.callee[:2]][1]
                params = [a.arg for a in callee_fn.args.args if a.arg not in ("cls", "self")]
                pname = t.split(".")[0]
                arg = None
                if pname in params and params.index(pname) < len(call.args):
                    arg = call.args[params.index(pname)]
                for kw in call.keywords:
                    if kw.arg == pname:
                        arg = kw.value
                if arg is not None:
                    roles = self._role_values(node, arg)
            if not roles:
                raise AnalysisError("cannot resolve obstacle role for tag %s" % t)
            return [r + "Obstacle" for r in roles]
        if t.endswith(".value") and node.origin is not None:
            # for tag in tags: etree.Element(tag.value) -> values of the enum the loop variable ranges over
            enum = self.repo.resolve_class(self.mod, "Tag")
            if enum is not None:
                return [v.value for v in enum.enum_members().values() if isinstance(v, ast.Constant)]
        if "_map_to_xml_prop(" in t:
            return sorted({self.map_xml(f) for f in self.state_fields if f not in ("position", "time_step")})
        if t.startswith("re.sub('_(\\\\w)'"):
            return sorted({snake_to_camel(f) for f in self.state_fields if f not in ("position", "time_step")})
        raise AnalysisError("unrecognised dynamic tag expression %s" % t)

    def _role_values(self, node, arg):
        """`X.obstacle_role` where X is a builder parameter annotated with an obstacle class"""
        ch = attr_chain(arg)
        if not ch or len(ch) != 2:
            return []
        fn = None
        for (cn, fnm), (c, f) in self.w.funcs.items():
            if fnm == node.fn and any(n is node.origin for n in ast.walk(f)):
                fn = f
        if fn is None:
            return []
        ann = None
        for a in fn.args.args:
            if a.arg == ch[0] and a.annotation is not None:
                ann = a.annotation
        classes = [self.repo.resolve_class(self.mod, n) for n in type_names(ann)] if ann is not None else []
        out = []
        for c in classes:
            if c is None:
                continue
            for k in self.repo.mro(c):
                init = k.methods.get("__init__")
                if init is None:
                    continue
                hit = None
                for n in ast.walk(init):
                    if isinstance(n, ast.Attribute) and isinstance(n.value, ast.Name) and n.value.id == "ObstacleRole":
                        hit = n.attr
                if hit:
                    enum = self.repo.resolve_class(k.mod, "ObstacleRole")
                    v = enum.enum_members().get(hit)
                    if isinstance(v, ast.Constant):
                        out.append(v.value)
                    break
        return out

    # -------------------------------------------------------- typing of value expressions
    def source_is_int(self, node, expr):
        """True if the domain value formatted by expr is declared int (by annotations)."""
        e = expr
        while isinstance(e, ast.Call) and call_name(e) in ("str", "np.float64", "float", "repr", "int") and e.args:
            if call_name(e) == "int":
                return True
            e = e.args[0]
        ch = attr_chain(e)
        if not ch:
            return False
        fn = None
        for (cn, fnm), (c, f) in self.w.funcs.items():
            if any(n is expr for n in ast.walk(f)):
                fn, owner = f, c
        if fn is None:
            return False
        cls = None
        if ch[0] == "self" and owner is not None:
            cls = owner
        else:
            for a in fn.args.args:
                if a.arg == ch[0] and a.annotation is not None:
                    cs = [self.repo.resolve_class(self.mod, n) for n in type_names(a.annotation)]
                    cs = [c for c in cs if c is not None]
                    cls = cs[0] if cs else None
        names = set()
        for attr in ch[1:]:
            if cls is None:
                return False
            names = self.eff.attr_types(cls).get(attr, set()) | self.eff.attr_types(cls).get("_" + attr, set())
            nxt = [self.repo.resolve_class(cls.mod, n) for n in names]
            nxt = [c for c in nxt if c is not None]
            cls = nxt[0] if nxt else None
        return bool(names) and "int" in names and "float" not in names


def fmt_kind(expr):
    """'positional' | 'str' | 'fstring' | 'percent' | 'raw' for a text / attribute value expression"""
    for n in ast.walk(expr):
        if isinstance(n, ast.Call) and norm(n.func) in POSITIONAL:
            return "positional"
    if isinstance(expr, ast.JoinedStr):
        return "fstring"
    if isinstance(expr, ast.BinOp) and isinstance(expr.op, ast.Mod):
        return "percent"
    if isinstance(expr, ast.Call) and call_name(expr) in ("str", "repr", "format"):
        return "str"
    if isinstance(expr, ast.Call) and isinstance(expr.func, ast.Attribute) and expr.func.attr == "lower":
        return "str"
    return "raw"


def positional_rule(repo, res, mod):
    """X-NUM on float_to_str itself: a value that is returned through str(f) / repr(f) (possibly cut or re-joined) must
    be guarded so that str(f) is positional there: either by the textual test ('e' in str(f)) or by a numeric guard
    that keeps every magnitude for which Python's float repr switches to exponent notation (< 1e-4, >= 1e16) away.
    The numeric guard is decided exactly by evaluating it on the representatives of the regions its thresholds cut."""
    from ..core import canon
    from ..dataflow import ReachingDefs
    from ..flowtools import backward_slice, result_cases

    fn = mod.functions.get("float_to_str")
    if fn is None:
        raise AnalysisError("float_to_str missing")
    p = fn.args.args[0].arg
    rd = ReachingDefs(fn)
    n_str = 0
    for c in result_cases(mod, fn, rd, [p]):
        if c.value is None:
            continue
        txt = canon(c.value, rd, c.stmt, [p])
        via_str = any(("%s(%s)" % (f, p)) in txt for f in ("str", "repr"))
        if not via_str:
            continue
        n_str += 1
        textual = any(("'e' in str(%s)" % p in t or "'e' in repr(%s)" % p in t or "'e' in str(%s).lower()" % p in t) and not pol for t, pol, _n in c.guards) or any(("'e' not in str(%s)" % p) in t and pol for t, pol, _n in c.guards)
        witness = None
        if not textual:
            consts = {0.0, 1e-4, 1e16}
            for _t, _pol, node in c.guards:
                for x in ast.walk(node):
                    if isinstance(x, ast.Constant) and isinstance(x.value, (int, float)) and not isinstance(x.value, bool):
                        consts.add(abs(float(x.value)))
            cand = set()
            for k in consts:
                for m in (k, k * (1 - 1e-9), k * (1 + 1e-9), k / 3.0, k * 3.0):
                    cand |= {m, -m}
            cand |= {5e-324, 1e-300, 1e300, 123.456, 1.0}

            def holds(node, v):
                """True / False / None (not a numeric test of the parameter)"""
                if isinstance(node, ast.BoolOp):
                    vals = [holds(x, v) for x in node.values]
                    if isinstance(node.op, ast.And):
                        return False if any(x is False for x in vals) else (None if any(x is None for x in vals) else True)
                    return True if any(x is True for x in vals) else (None if any(x is None for x in vals) else False)
                if isinstance(node, ast.UnaryOp) and isinstance(node.op, ast.Not):
                    r = holds(node.operand, v)
                    return None if r is None else not r
                if isinstance(node, ast.Compare):
                    def num(e):
                        if isinstance(e, ast.Constant) and isinstance(e.value, (int, float)) and not isinstance(e.value, bool):
                            return float(e.value)
                        if isinstance(e, ast.Name) and e.id == p:
                            return v
                        if isinstance(e, ast.Call) and norm(e.func) in ("abs", "np.abs", "math.fabs", "np.fabs", "np.absolute") and len(e.args) == 1 and isinstance(e.args[0], ast.Name) and e.args[0].id == p:
                            return abs(v)
                        if isinstance(e, ast.UnaryOp) and isinstance(e.op, ast.USub):
                            r = num(e.operand)
                            return None if r is None else -r
                        return None
                    vals = [num(node.left)] + [num(x) for x in node.comparators]
                    if any(x is None for x in vals):
                        return None
                    ok = True
                    for a_, op, b_ in zip(vals, node.ops, vals[1:]):
                        r = {ast.Lt: a_ < b_, ast.LtE: a_ <= b_, ast.Gt: a_ > b_, ast.GtE: a_ >= b_, ast.Eq: a_ == b_, ast.NotEq: a_ != b_}.get(type(op))
                        if r is None:
                            return None
                        ok = ok and r
                    return ok
                return None

            for v in sorted(cand, key=abs):
                if v != v or abs(v) == float("inf"):
                    continue
                reach = True
                for _t, pol, node in c.guards:
                    r = holds(node, v)
                    if r is not None and r != pol:
                        reach = False
                        break
                if reach and "e" in repr(float(v)):
                    witness = v
                    break
        res.check("X-NUM", "float_to_str: the branch returning %s is only reached when str(%s) is positional" % (txt[:50], p), textual or witness is None, mod, c.stmt, "float_to_str returns %s for %s = %r, whose str() is %r" % (txt[:60], p, witness, repr(float(witness)) if witness is not None else ""), "a magnitude for which Python prints exponent notation reaches the str()-based branch: the text (e.g. 5e-05, or a cut fragment of it) is not an xs:decimal", qualname="float_to_str")
    if n_str == 0:
        res.ok("X-NUM", "float_to_str never returns text derived from str()/repr() of its argument")


def run(repo, res, tier):
    res.rule("X-FRESH", "every public write method starts from a fresh document before it fills it", 2)
    from .c15 import fresh_document_records

    for qn_, f_, ok_, mod_, site_, in_fn in fresh_document_records(repo, "commonroad/common/writer/file_writer_xml.py", "XMLFileWriter"):
        res.check("X-FRESH", "%s: self.%s re-created before it is filled" % (qn_, f_), ok_, mod_, site_, "%s fills self.%s (%s in %s) without re-creating it first" % (qn_, f_, norm(site_)[:60], in_fn), "elements appended by an earlier write call are still under the root: the second file of a writer repeats location, tags and every id, which the schema (order, xs:key) rejects", qualname=qn_)
    res.rule("X-NAME", "emitted elements and attributes are allowed by the schema type of their parent", 80)
    res.rule("X-ORDER", "children of xs:sequence types are emitted in schema order", 15)
    res.rule("X-REQ", "required children / attributes are emitted", 30)
    res.rule("X-CHOICE", "alternatives of an xs:choice that may be taken once are emitted under mutually exclusive tests", 3)
    res.rule("X-NUM", "decimal-typed text is produced by a positional formatter", 18)
    positional_rule(repo, res, repo.mod("commonroad/common/writer/file_writer_xml.py"))
    res.rule("X-ENUM", "enumeration-typed text is the value of the matching enum", 8)
    cx = Ctx(repo, res)
    w, xsd, mod = cx.w, cx.xsd, cx.mod

    # ---- the root element as built by XMLFileWriter.write_to_file
    wcls = mod.classes["XMLFileWriter"]
    wt = wcls.methods["write_to_file"]
    BUILD = ("_write_header", "_add_all_objects_from_scenario", "_add_all_planning_problems_from_planning_problem_set")

    def build_order(fn_, seen_=()):
        """self-calls that build the document, in program order; other helpers of the writer are looked into"""
        out_ = []
        for c_ in sorted((x for x in walk_no_nested(fn_) if isinstance(x, ast.Call)), key=lambda x: (x.lineno, x.col_offset)):
            if isinstance(c_.func, ast.Attribute) and isinstance(c_.func.value, ast.Name) and c_.func.value.id in ("self", "cls"):
                if c_.func.attr in BUILD:
                    out_.append(c_.func.attr)
                else:
                    _o, h_ = repo.find_method(wcls, c_.func.attr)
                    if h_ is not None and id(h_) not in seen_:
                        out_ += build_order(h_, tuple(seen_) + (id(h_),))
        return out_

    order = build_order(wt)
    if order != ["_write_header", "_add_all_objects_from_scenario", "_add_all_planning_problems_from_planning_problem_set"]:
        raise AnalysisError("XMLFileWriter.write_to_file no longer builds header, objects, planning problems in that order: %s" % order)
    root = Node("commonRoad", wt, "write_to_file")
    env = {"self._root_node": root}
    for m in order:
        w.interpret_into(("XMLFileWriter", m), env)
    relem = xsd.elements.get("commonRoad")
    if relem is None or relem[4] is None:
        raise AnalysisError("schema root element commonRoad not found")

    def xsd_children(xt):
        return xsd.resolve_children(xt)

    name_verdicts = {}  # (origin id, name) -> [accepted in some context?, first rejecting context info]

    def name_check(origin, name, ok, inst, construct, message, qn):
        key = (id(origin), name)
        cur = name_verdicts.setdefault(key, [False, None, []])
        cur[0] = cur[0] or ok
        cur[2].append(inst)
        if not ok and cur[1] is None:
            cur[1] = (origin, construct, message, qn, inst)

    def check_leaf(node, tname, path, what, vexpr, origin):
        kind = xsd.numeric_kind(tname)
        base = (tname or "").split(":")[-1]
        fk = fmt_kind(vexpr)
        qn = node.fn
        if fk == "raw" and isinstance(vexpr, ast.Name):
            # the text is held in a local: the kind of its definitions (all must agree); a parameter comes from the
            # caller and is not followed here
            fdef = mod.enclosing_function(vexpr)
            kinds_ = set()
            if fdef is not None and vexpr.id not in {a.arg for a in fdef.args.args + fdef.args.kwonlyargs}:
                from ..dataflow import ReachingDefs as _RD

                rd_ = _RD(fdef)
                at_ = rd_.stmt_of(vexpr)
                ds = rd_.defs(vexpr.id, at_) if at_ is not None else []
                if ds and all(d.kind == "assign" and d.node is not None for d in ds):
                    kinds_ = {fmt_kind(d.node) for d in ds}
            if len(kinds_) == 1:
                fk = kinds_.pop()
            elif kind in ("decimal", "float", "int") or (base == "boolean"):
                res.refuse("%s: the text written for %s %s comes from %s, whose formatting is not visible here" % (qn, path, what, norm(vexpr)))
                return
        if kind in ("decimal", "float"):
            ok = fk == "positional" or (fk in ("str",) and cx.source_is_int(node, vexpr))
            res.check("X-NUM", "%s %s (%s) <- %s" % (path, what, tname, norm(vexpr)[:70]), ok, mod, origin, "%s %s written with %s" % (path, what, norm(vexpr)[:90]), "a %s value is written with str()/repr()-style formatting: small or large magnitudes print in exponent notation (e.g. 2e-05), which the schema type %s rejects" % (kind, tname), qualname=qn)
        elif base == "boolean" and (tname or "").startswith("xs:"):
            # xs:boolean admits true / false / 1 / 0: the text of a Python bool (`True`) is not among them
            t = norm(vexpr)
            ok = ".lower()" in t or (isinstance(vexpr, ast.Constant) and str(vexpr.value) in ("true", "false", "1", "0")) or fk == "raw" and not (isinstance(vexpr, ast.Call) and call_name(vexpr) in ("str", "repr"))
            res.check("X-ENUM", "%s %s (xs:boolean) <- %s" % (path, what, t[:70]), ok, mod, origin, "%s %s written with %s" % (path, what, t[:90]), "a truth value is written as Python prints it (`True` / `False`): xs:boolean only admits true, false, 1 and 0", qualname=qn)
        elif kind == "int":
            # an integer-typed element: the decimal formatter writes a point (`2.0`), which the integer types reject
            res.check("X-NUM", "%s %s (%s) <- %s" % (path, what, tname, norm(vexpr)[:70]), fk != "positional", mod, origin, "%s %s written with %s" % (path, what, norm(vexpr)[:90]), "an integer-typed value (%s) is written with the decimal formatter: the text has a decimal point, which the schema type rejects (and the reader's int() as well)" % tname, qualname=qn)
        elif base in xsd.enums:
            vals = set(xsd.enums[base])
            t = norm(vexpr)
            ok = t.endswith(".value") or t.endswith(".value)") or "_enum_to_string" in t or (isinstance(vexpr, ast.Constant) and vexpr.value in vals)
            res.check("X-ENUM", "%s %s (%s) <- %s" % (path, what, base, t[:70]), ok, mod, origin, "%s %s written with %s" % (path, what, t[:90]), "text of an enumeration-typed element is not the value of the corresponding enum", qualname=qn)

    enum_classes = {}
    for m_ in repo.modules.values():
        for c_ in m_.classes.values():
            if c_.is_enum:
                enum_classes.setdefault(c_.name, c_)

    def excluded_member(test, pol):
        """(enum class, member, value) if the test being `pol` means: the tested value is not that member.  A test of
        `<x>.value` against a member compares a string with an enum object and excludes nothing."""
        if isinstance(test, str):
            try:
                test = ast.parse(test, mode="eval").body
            except SyntaxError:
                return None
        if not (isinstance(test, ast.Compare) and len(test.ops) == 1):
            return None
        op = test.ops[0]
        neg = isinstance(op, (ast.IsNot, ast.NotEq))
        if not isinstance(op, (ast.Is, ast.IsNot, ast.Eq, ast.NotEq)) or neg != bool(pol):
            return None
        for a, o in ((test.left, test.comparators[0]), (test.comparators[0], test.left)):
            ch = attr_chain(o)
            if ch and len(ch) == 2 and ch[0] in enum_classes and ch[1] in enum_classes[ch[0]].enum_members():
                if isinstance(a, ast.Attribute) and a.attr == "value":
                    return None
                mv = enum_classes[ch[0]].enum_members()[ch[1]]
                if isinstance(mv, ast.Constant):
                    return enum_classes[ch[0]], ch[1], mv.value
        return None

    def match(node, tname, inline, path, depth=0):
        key = (w.base_root(node).id, node.id, tname or id(inline))
        if key in cx.seen or depth > 25:
            return
        cx.seen.add(key)
        xt = inline if inline is not None else xsd.types.get((tname or "").split(":")[-1])
        b = w.base_root(node)
        if xt is None:
            # simple content: check the text formatter against the type
            for vexpr, _g, origin in b.texts:
                check_leaf(b, tname, path, "text", vexpr, origin)
            return
        xch = xsd_children(xt)
        xnames = [c[0] for c in xch]
        # attributes
        xattrs = {a[0]: a for a in xt.attributes}
        wat = w.attrs_of(node)
        for (an, vexpr, _g, origin) in wat:
            name_check(origin, "@" + an, an in xattrs, "%s/@%s allowed by type %s" % (path, an, xt.name), "%s/@%s" % (path, an), "attribute %s is not allowed on <%s> by the schema" % (an, path.split("/")[-1]), b.fn)
            if an in xattrs:
                check_leaf(b, xattrs[an][1], path, "@" + an, vexpr, origin)
        for an, a in xattrs.items():
            if a[2] == "required":
                res.check("X-REQ", "%s/@%s (required) is written" % (path, an), any(x[0] == an for x in wat), mod, b.origin, "%s lacks required attribute %s" % (path, an), "required attribute %s of <%s> is never written" % (an, path.split("/")[-1]), qualname=b.fn)
        for vexpr, _g, origin in b.texts:
            if xt.base:
                check_leaf(b, xt.base, path, "text", vexpr, origin)
        # children
        emitted = []
        for child, rec in w.children(node):
            for tg in cx.tags(child):
                emitted.append((tg, child, rec))
        dyn_ok = set()
        for tg, child, rec in emitted:
            cb = w.base_root(child)
            if cb.tag is None and not norm(cb.dyn).endswith("'Obstacle'"):
                # expanded name set (state fields / tags): only the names the schema knows are expressible
                if tg in xnames:
                    dyn_ok.add(tg)
                continue
            dispatch = any(pol and (t.startswith("isinstance(") or t.startswith("type(")) for t, pol in w.all_guards(rec))
            if tg not in xnames and dispatch:
                res.note("X-NAME: %s/%s is emitted only for a value type the schema cannot express here (type-dispatch branch)" % (path, tg))
                continue
            name_check(rec.origin, tg, tg in xnames, "%s/%s allowed by type %s" % (path, tg, xt.name), "%s/%s" % (path, tg), "element <%s> is not allowed inside <%s> by the schema" % (tg, path.split("/")[-1]), b.fn)
        # names produced by the generic attribute loop that the schema does not know belong to state
        # attributes the schema cannot express (noted, not a violation of validity for expressible inputs)
        dyn_all = {tg for tg, c, r in emitted if w.base_root(c).tag is None and not norm(w.base_root(c).dyn).endswith("'Obstacle'")}
        if dyn_all:
            res.ok("X-NAME", "%s: generic attribute loop can emit %d names, %d of them schema children" % (path, len(dyn_all), len(dyn_ok)))
        # order
        if xt.compositor == "sequence":
            grp = {}
            for g in xt.choice_groups:
                lo = min(xnames.index(n) for n in g if n in xnames)
                for n in g:
                    grp[n] = lo
            idx = [(grp.get(tg, xnames.index(tg)), tg, rec) for tg, c, rec in emitted if tg in xnames and w.base_root(c).tag is not None or (tg in xnames and norm(w.base_root(c).dyn or ast.Constant(value="")).endswith("'Obstacle'"))]
            # alternatives appended at the same source position (exclusive branches) are not ordered
            bad = None
            mx = -1
            mx_line = -1
            for i, tg, rec in idx:
                line = (getattr(rec.origin, "lineno", 0), getattr(rec, "unroll", 0), getattr(rec.origin, "_uidx", ()))
                if i < mx and line != mx_line:
                    bad = (tg, rec)
                    break
                if i > mx:
                    mx, mx_line = i, line
            res.check("X-ORDER", "%s: children emitted in the order of type %s %s" % (path, xt.name, [t for _i, t, _r in idx][:14]), bad is None, mod, bad[1].origin if bad else b.origin, "%s: <%s> emitted after a later schema element" % (path, bad[0] if bad else ""), "xs:sequence requires the schema order: <%s> is emitted too late" % (bad[0] if bad else ""), qualname=b.fn)
        # required children
        choice_members = {n for g in xt.choice_groups for n in g}
        for (cn, ct, mn, mxo, cinl) in xch:
            if mn != "0" and cn not in choice_members:
                res.check("X-REQ", "%s/%s (required) is emitted" % (path, cn), any(tg == cn for tg, c, r in emitted), mod, b.origin, "%s lacks required child %s" % (path, cn), "required element <%s> of <%s> is never written" % (cn, path.split("/")[-1]), qualname=b.fn)
        # xs:choice taken once: children of different alternatives are never emitted together — their emissions
        # stand under one test with opposite outcomes (if / elif / else), on every pair
        for grp in getattr(xt, "single_choices", []):
            recs = [(tg, r) for tg, c, r in emitted if tg in grp]
            clash = None
            for i, (ta, ra) in enumerate(recs):
                for tb, rb in recs[i + 1 :]:
                    if ta == tb or ra is rb:
                        continue  # one append / extend statement: which alternative it carries is decided inside the builder it calls
                    ga = {(g[0], bool(g[1])) for g in w.all_guards(ra) if isinstance(g, tuple) and len(g) >= 2}
                    gb = {(g[0], bool(g[1])) for g in w.all_guards(rb) if isinstance(g, tuple) and len(g) >= 2}
                    def excl(g1, g2):
                        for t, p_ in g1:
                            if (t, not p_) in g2:
                                return True
                            try:
                                te = ast.parse(t, mode="eval").body
                            except SyntaxError:
                                continue
                            # `a or b` holds here, and there each of a, b is known to fail (the else side of an elif chain)
                            if p_ and isinstance(te, ast.BoolOp) and isinstance(te.op, ast.Or) and all((norm(v), False) in g2 for v in te.values):
                                return True
                            if not p_ and isinstance(te, ast.BoolOp) and isinstance(te.op, ast.And) and all((norm(v), True) in g2 for v in te.values):
                                return True
                        return False

                    if not excl(ga, gb) and not excl(gb, ga):
                        clash = clash or (ta, ra, tb, rb)
            if recs:
                res.check("X-CHOICE", "%s: alternatives %s of the choice are emitted under mutually exclusive tests" % (path, sorted({t for t, _r in recs})), clash is None, mod, clash[3].origin if clash else b.origin, "%s: <%s> and <%s> can both be emitted" % (path, clash[0] if clash else "", clash[2] if clash else ""), "the schema allows one alternative of the choice inside <%s>; with both present the file does not validate" % path.split("/")[-1], qualname=b.fn)
        # a required child must not hang on a test that a schema-expressible input can fail: every emission of it
        # stands under `<value> is not Enum.MEMBER` (or != / the else-branch of is / ==) although an object carrying
        # that member is expressible — the member's value is an enumeration value of a child of this very element
        for (cn, ct, mn, mxo, cinl) in xch:
            if mn == "0" or cn in choice_members:
                continue
            recs = [r for tg, c, r in emitted if tg == cn]
            if not recs:
                continue
            blocking = []
            for r in recs:
                hit = None
                for g in r.guards:
                    if not (isinstance(g, tuple) and len(g) >= 2):
                        continue
                    t, pol = g[0], g[1]
                    ex = excluded_member(t, pol)

                    if ex is None:
                        continue
                    ecls, mname, mval = ex
                    # the schema element of this parent that carries the enum: its enumeration shares values with it
                    evals = {v.value for v in ecls.enum_members().values() if isinstance(v, ast.Constant)}
                    carriers = [set(xsd.enums[(c2[1] or "").split(":")[-1]]) for c2 in xch if (c2[1] or "").split(":")[-1] in xsd.enums and set(xsd.enums[(c2[1] or "").split(":")[-1]]) & evals]
                    if carriers and any(mval in vs for vs in carriers):
                        hit = (t, ecls.name, mname, mval)
                if hit is None:
                    blocking = []
                    break
                blocking.append((r, hit))
            ok = not blocking
            r0, h0 = blocking[0] if blocking else (recs[0], None)
            res.check("X-REQ", "%s/%s (required) does not depend on an enum value the schema can express" % (path, cn), ok, mod, r0.origin, "%s/%s only written when %s" % (path, cn, (h0[0] if isinstance(h0[0], str) else norm(h0[0])) if h0 else ""), "required element <%s> is left out for %s.%s, whose value %r the schema accepts: the file does not validate" % (cn, h0[1] if h0 else "", h0[2] if h0 else "", h0[3] if h0 else ""), qualname=b.fn)
        # recurse
        for tg, child, rec in emitted:
            if tg in xnames:
                c = xch[xnames.index(tg)]
                match(child, c[1], c[4], path + "/" + tg, depth + 1)

    match(root, None, relem[4], "commonRoad")
    # the attribute-name mapping of the writer inverts the reader's on every schema state element
    rmod = repo.mod("commonroad/common/reader/file_reader_xml.py")
    r_inv = NameMap(rmod.classes["StateFactory"].methods["_map_to_prop"], "StateFactory._map_to_prop", repo, rmod.classes["StateFactory"], rmod)
    state_types = [t for t in ("state", "initialState", "initialStateExact", "goalState") if t in xsd.types]
    names = sorted({c[0] for t in state_types for c in xsd.resolve_children(xsd.types[t])})
    for n in names:
        f = r_inv(n)
        res.check("X-NAME", "state element %s <- attribute %s -> %s" % (n, f, cx.map_xml(f)), cx.map_xml(f) == n, mod, cx.map_xml.fn, "_map_to_xml_prop(%s) = %s, schema element is %s" % (f, cx.map_xml(f), n), "the state attribute %s is written as <%s>, which the schema does not know (it expects <%s>)" % (f, cx.map_xml(f), n), qualname="StateXMLNode._map_to_xml_prop")
    for (oid, name), (ok, first_bad, insts) in name_verdicts.items():
        if ok:
            res.ok("X-NAME", insts[0] + (" (+%d more contexts)" % (len(insts) - 1) if len(insts) > 1 else ""))
        else:
            origin, construct, message, qn, inst = first_bad
            res.bad("X-NAME", inst, Finding("X-NAME", mod, origin, construct, message + " (in none of the %d contexts this builder is used in)" % len(insts), qualname=qn))
    if w.unresolved:
        raise AnalysisError("the writer model could not interpret what is appended at: %s" % "; ".join("%s:%d %s" % (f, ln, t) for f, t, ln in w.unresolved[:5]))
    return {"schema_types": len(xsd.types), "state_fields": len(cx.state_fields)}

"""C17 decided on cases by abstract evaluation: TrafficLightCycle.get_state_at_time_step.

World: a cycle of four elements whose durations d1..d4, time offset and queried time step are *atoms* (symbols); every
arithmetic on them builds a term, nothing is computed.  Where the code compares (a reduced time step with a window
start, two window starts, ..) the comparison is answered by the valuation of the case.  The numpy functions the table
look-up may be written with are given their meaning on lists of terms (cumsum, insert / concatenate / append / hstack,
comparison of a value with an array, argmax, searchsorted, flatnonzero / nonzero / where, count_nonzero / sum of a
mask, digitize) — as are bisect and itertools.accumulate, which the evaluator knows anyway.

Cases: two colour sequences (all colours different; a colour that returns within the cycle — red, green, red, yellow —
so that nothing may identify a phase by its colour), three offsets (0, inside the first period, beyond one period),
and for each every time step from 0 to two periods past the offset (before the offset, on every window start, one
before it, the wrap-around).  Expected: the state of the element whose window [off + D_k, off + D_k+1) holds
off + ((t - off) mod T).

CYC-CASES   get_state_at_time_step answers that state for every case

The symbolic rule CYC-LOOKUP (sa/props/c17.py) proves the same for all values when the code is inside its vocabulary;
this rule decides the sampled cases whatever the code looks like and is what remains when the term interpreter does
not recognise the code.
"""
import ast

from ..core import AnalysisError
from ..strdom import NONE, ClassRef, Ctor, EnumMember, Ev, ListV, Obj, Sym, Term, TupV, Undecided, _Raise, show

T = "commonroad/scenario/traffic_light.py"


def _val(v, env):
    """number a term stands for under the valuation of the case"""
    if isinstance(v, bool):
        return int(v)
    if isinstance(v, (int, float)):
        return v
    if isinstance(v, Sym):
        if v.name not in env:
            raise Undecided("a value depends on %s" % v.name)
        return env[v.name]
    if isinstance(v, Term):
        a = [_val(x, env) for x in v.args]
        op = v.op
        if op == "+":
            return a[0] + a[1]
        if op == "-":
            return a[0] - a[1] if len(a) == 2 else -a[0]
        if op == "neg":
            return -a[0]
        if op == "*":
            return a[0] * a[1]
        if op in ("%", "//"):
            if a[1] == 0:
                raise _Raise(None, "integer division or modulo by zero", "ZeroDivisionError")
            return a[0] % a[1] if op == "%" else a[0] // a[1]
        if op in ("min", "max"):
            return (min if op == "min" else max)(a)
        if op in ("abs", "float", "int"):
            return abs(a[0]) if op == "abs" else a[0]
        raise Undecided("operation %s on a time" % op)
    if isinstance(v, Ctor) and v.name.split(".")[-1] in ("int", "int64", "float64", "int32", "asarray", "array") and len(v.args) == 1:
        return _val(list(v.args.values())[0], env)
    raise Undecided("a time is %s" % show(v))


def arr(items):
    out = ListV(list(items))
    out.ext_types = {"ndarray"}
    return out


def is_arr(v):
    return isinstance(v, ListV) and not isinstance(v, TupV) or isinstance(v, TupV)


def seq(v):
    if isinstance(v, ListV):
        return list(v.items)
    raise Undecided("an array is %s" % show(v))


def numpy_models(ev, env):
    """meaning of the numpy functions on lists of terms; indices are decided by the valuation"""

    def num(x):
        return _val(x, env)

    def cumsum(a, k):
        out, acc = [], None
        for x in seq(a[0]):
            acc = x if acc is None else Term("+", [acc, x])
            out.append(acc)
        return arr(out)

    def insert(a, k):
        base, idx, vals = seq(a[0]), a[1], a[2]
        if not isinstance(idx, int) or isinstance(idx, bool):
            raise Undecided("insert at %s" % show(idx))
        vals = seq(vals) if isinstance(vals, ListV) else [vals]
        i = idx if idx >= 0 else len(base) + idx
        return arr(base[:i] + vals + base[i:])

    def concat(a, k):
        parts = seq(a[0])
        out = []
        for p in parts:
            out += seq(p) if isinstance(p, ListV) else [p]
        return arr(out)

    def append(a, k):
        return arr(seq(a[0]) + (seq(a[1]) if isinstance(a[1], ListV) else [a[1]]))

    def array(a, k):
        return arr(seq(a[0])) if isinstance(a[0], ListV) else a[0]

    def truths(v):
        out = []
        for x in seq(v):
            if not isinstance(x, bool):
                raise Undecided("a mask holds %s" % show(x))
            out.append(x)
        return out

    def argmax(a, k):
        v = seq(a[0])
        if all(isinstance(x, bool) for x in v):
            return v.index(True) if True in v else 0
        nums = [num(x) for x in v]
        return nums.index(max(nums))

    def argmin(a, k):
        v = seq(a[0])
        nums = [int(x) if isinstance(x, bool) else num(x) for x in v]
        return nums.index(min(nums))

    def searchsorted(a, k):
        table, x = [num(y) for y in seq(a[0])], num(a[1])
        side = k.get("side", a[2] if len(a) > 2 else None)
        side = side.text() if side is not None and hasattr(side, "text") else "left"
        import bisect

        return (bisect.bisect_right if side == "right" else bisect.bisect_left)(table, x)

    def digitize(a, k):
        import bisect

        right = k.get("right", a[2] if len(a) > 2 else False)
        if not isinstance(right, bool):
            raise Undecided("digitize(right=%s)" % show(right))
        table, x = [num(y) for y in seq(a[1])], num(a[0])
        return (bisect.bisect_left if right else bisect.bisect_right)(table, x)

    def flatnonzero(a, k):
        return arr([i for i, x in enumerate(truths(a[0])) if x])

    def nonzero(a, k):
        return TupV([flatnonzero(a, k)])

    def where(a, k):
        if len(a) == 1:
            return nonzero(a, k)
        raise Undecided("numpy.where with values")

    def count(a, k):
        return sum(1 for x in truths(a[0]) if x)

    def total(a, k):
        v = seq(a[0])
        if all(isinstance(x, bool) for x in v):
            return sum(1 for x in v if x)
        acc = None
        for x in v:
            acc = x if acc is None else Term("+", [acc, x])
        return acc if acc is not None else 0

    def diff(a, k):
        v = seq(a[0])
        return arr([Term("-", [y, x]) for x, y in zip(v, v[1:])])

    def amax(a, k):
        v = seq(a[0])
        nums = [num(x) for x in v]
        return v[nums.index(max(nums))]

    def amin(a, k):
        v = seq(a[0])
        nums = [num(x) for x in v]
        return v[nums.index(min(nums))]

    def mod(a, k):
        return Term("%", [a[0], a[1]])

    table = {"cumsum": cumsum, "insert": insert, "concatenate": concat, "hstack": concat, "append": append, "array": array, "asarray": array, "argmax": argmax, "argmin": argmin, "searchsorted": searchsorted, "digitize": digitize, "flatnonzero": flatnonzero, "nonzero": nonzero, "where": where, "count_nonzero": count, "sum": total, "diff": diff, "max": amax, "amax": amax, "min": amin, "amin": amin, "mod": mod, "remainder": mod}
    for name, f in table.items():
        ev.model_calls["numpy.%s" % name] = f
        ev.model_calls["np.%s" % name] = f


COLOURS = (("all colours different", ("RED", "RED_YELLOW", "GREEN", "YELLOW")), ("a colour returns within the cycle", ("RED", "GREEN", "RED", "YELLOW")))
DURATIONS = (3, 1, 4, 2)
OFFSETS = (0, 2, 13)


class CycleWorld:
    """one cycle object built by the constructor of the class from four elements with atom durations and an atom
    offset; answers queries through `target` (the cycle itself, or a traffic light holding it)"""

    def __init__(self, repo, colours, off):
        self.repo = repo
        m = self.m = repo.mod(T)
        c = self.c = m.classes.get("TrafficLightCycle")
        el = m.classes.get("TrafficLightCycleElement")
        st = self.st = m.classes.get("TrafficLightState")
        if c is None or el is None or st is None:
            raise AnalysisError("TrafficLightCycle / TrafficLightCycleElement / TrafficLightState missing")
        members = dict(st.enum_members())
        self.colours, self.off = colours, off
        env = self.env = {"time_offset": off}
        self.elems = []
        for i, (col, d) in enumerate(zip(colours, DURATIONS)):
            if col not in members:
                raise AnalysisError("TrafficLightState.%s missing" % col)
            ds = Sym("duration %d" % (i + 1), "int")
            env[ds.name] = d
            self.elems.append(Obj(el, {"_state": EnumMember(st, col, members[col]), "_duration": ds}, label="cycle element %d" % (i + 1)))
        ev = self.ev = Ev(repo)
        ev.pure_modules = {"math", "warnings"}
        ev.assume_valid = True
        ev.instantiate = {"TrafficLightCycle", "TrafficLight"}
        numpy_models(ev, env)

        def oracle(kind, a, b, env=env):
            if kind not in ("Lt", "LtE", "Gt", "GtE", "Eq", "NotEq"):
                return None
            f = {"Lt": lambda x, y: x < y, "LtE": lambda x, y: x <= y, "Gt": lambda x, y: x > y, "GtE": lambda x, y: x >= y, "Eq": lambda x, y: x == y, "NotEq": lambda x, y: x != y}[kind]
            try:
                if isinstance(a, ListV) or isinstance(b, ListV):
                    xs = seq(a) if isinstance(a, ListV) else None
                    ys = seq(b) if isinstance(b, ListV) else None
                    if xs is not None and ys is not None and len(xs) != len(ys):
                        return None
                    k = len(xs if xs is not None else ys)
                    return arr([bool(f(_val(xs[i] if xs is not None else a, env), _val(ys[i] if ys is not None else b, env))) for i in range(k)])
                return bool(f(_val(a, env), _val(b, env)))
            except Undecided:
                return None

        ev.oracle = oracle
        try:
            self.cyc = ev.apply(ClassRef(c), [], {"cycle_elements": ListV(self.elems), "time_offset": Sym("time_offset", "int"), "active": True}, c.node, m)
        except _Raise as x:
            raise Undecided("TrafficLightCycle(..) raises %s" % x.what)
        if not isinstance(self.cyc, Obj):
            raise Undecided("TrafficLightCycle(..) gives %s" % show(self.cyc))
        self.wrong = []
        self.asked = 0

    def ask(self, target, owner, fn, series, again, off_now, order, what=""):
        """queries `target`; `order`: (colour, duration) of the elements as the cycle holds them now"""
        total = sum(DURATIONS)
        for n_q, t in enumerate(series + again):
            self.asked += 1
            ts = Sym("time_step", "int")
            self.env["time_step"] = t
            tmod = off_now + ((t - off_now) % total)
            acc, want = off_now, None
            for col, d in order:
                if acc <= tmod < acc + d:
                    want = col
                acc += d
            when = "%st=%d%s" % (what, t, " asked again" if n_q >= len(series) else "")
            try:
                r = self.ev.call_fn(self.ev.bind(fn, owner, target), [ts], {}, fn)
            except _Raise as x:
                self.wrong.append((when, "raises %s" % x.what, want))
                continue
            got = r.name if isinstance(r, EnumMember) else None
            if got is None:
                if r is NONE or isinstance(r, (Obj, ListV, int, float, Sym, Term)):
                    self.wrong.append((when, "returns %s" % show(r), want))
                    continue
                raise Undecided("the result is %s" % show(r))
            if got != want:
                self.wrong.append((when, got, want))


def cases_rule(repo, res, RULE="CYC-CASES"):
    """-> number of cases decided; raises Undecided when the evaluator cannot follow the code (the caller decides what
    that means)"""
    m = repo.mod(T)
    c = m.classes.get("TrafficLightCycle")
    fn = c.methods.get("get_state_at_time_step") if c is not None else None
    if fn is None:
        raise AnalysisError("TrafficLightCycle.get_state_at_time_step missing")
    qn = "TrafficLightCycle.get_state_at_time_step"
    total = sum(DURATIONS)
    n = 0
    for clabel, colours in COLOURS:
        for off in OFFSETS:
            label = "%s; offset %d" % (clabel, off)
            # one cycle object answers the whole series of queries, so that a query which changes what later queries
            # see is noticed
            w = CycleWorld(repo, colours, off)
            series = list(range(0, off + 2 * total + 2))
            w.ask(w.cyc, c, fn, series, series[::3], off, list(zip(colours, DURATIONS)))
            # the definition changes through the setters of the cycle: the answers follow the new definition
            scope = {"cyc": w.cyc}
            try:
                off2 = Sym("time_offset assigned later", "int")
                w.env[off2.name] = off + 3
                w.ev.assign(ast.parse("cyc.time_offset", mode="eval").body, off2, scope, m)
                later = list(range(off, off + 3 + total + 2))
                w.ask(w.cyc, c, fn, later, [], off + 3, list(zip(colours, DURATIONS)), "after time_offset = offset + 3: ")
                w.ev.assign(ast.parse("cyc.cycle_elements", mode="eval").body, ListV(w.elems[1:] + w.elems[:1]), scope, m)
                order = list(zip(colours[1:] + colours[:1], DURATIONS[1:] + DURATIONS[:1]))
                w.ask(w.cyc, c, fn, later, [], off + 3, order, "after cycle_elements = the elements turned by one: ")
            except _Raise as x:
                w.wrong.append(("assigning through the setters", "raises %s" % x.what, "nothing to raise"))
            n += 1
            text = "; ".join("%s: %s, the cycle says %s" % x for x in w.wrong[:3])
            res.check(RULE, "%s [%s; durations %s; t = 0..%d, every third asked again; then after assigning time_offset and cycle_elements]: the state of the window holding off + ((t - off) mod T)" % (qn, label, list(DURATIONS), off + 2 * total + 1), not w.wrong, m, fn, "%s [%s]: %s" % (qn, label, text), "the reported state is not the one the cycle definition gives for that time step (%d of %d queries differ)" % (len(w.wrong), w.asked), qualname=qn)
    return n


def light_rule(repo, res, RULE="CYC-DELEGATE"):
    """TrafficLight.get_state_at_time_step, evaluated: a light built by its constructor around the cycle (active and
    not active) answers what the cycle definition says"""
    m = repo.mod(T)
    tl = m.classes.get("TrafficLight")
    fn = tl.methods.get("get_state_at_time_step") if tl is not None else None
    if fn is None:
        raise AnalysisError("TrafficLight.get_state_at_time_step missing")
    qn = "TrafficLight.get_state_at_time_step"
    total = sum(DURATIONS)
    n = 0
    for active in (True, False):
        for off in (0, 5):
            clabel, colours = COLOURS[1]
            w = CycleWorld(repo, colours, off)
            try:
                light = w.ev.apply(ClassRef(tl), [], {"traffic_light_id": 7, "position": Obj(None, {}, closed=True, label="position"), "traffic_light_cycle": w.cyc, "active": active}, tl.node, m)
            except _Raise as x:
                raise Undecided("TrafficLight(..) raises %s" % x.what)
            if not isinstance(light, Obj):
                raise Undecided("TrafficLight(..) gives %s" % show(light))
            series = list(range(0, off + 2 * total + 2))
            w.ask(light, tl, fn, series, series[::4], off, list(zip(colours, DURATIONS)))
            n += 1
            label = "light constructed with active=%s; offset %d" % (active, off)
            text = "; ".join("%s: %s, the cycle says %s" % x for x in w.wrong[:3])
            res.check(RULE, "%s [%s; t = 0..%d]: the state its cycle defines for that time step" % (qn, label, off + 2 * total + 1), not w.wrong, m, fn, "%s [%s]: %s" % (qn, label, text), "the traffic light does not report what its cycle defines for the queried time step (%d of %d queries differ)" % (len(w.wrong), w.asked), qualname=qn)
    return n

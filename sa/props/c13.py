"""C13 — benchmark ids print and parse consistently.

Decided by abstract evaluation in the string-template domain (sa/strdom.py): no text of the printer or the parser
is matched; the functions are evaluated over the AST on objects whose unbounded fields are atoms, one evaluation per
shape case of a valid id, and the three artefacts are confronted with each other:

  SID-GRAMMAR  the template ScenarioID.__str__ prints in each case conforms to benchmark_id_pattern (the regex parse
               tree of the source constant, matched structurally: atoms are indivisible and must be covered by
               character-class items whose language includes the field's), and every group captures exactly the
               field of the same meaning.  Field alphabets come from the code: behaviour letters from the
               constructor's validator, the map-name alphabet from folding the setter over the printable characters.
  SID-PARSE    ScenarioID.from_benchmark_id, evaluated on the printed template, constructs a ScenarioID whose every
               constructor argument equals the field the printer started from (numbers as numbers, a single
               prediction id as a scalar, several as a list, the cooperative flag, the version); it matches with
               fullmatch.
  SOL-ID       Solution.benchmark_id is evaluated for one, two and three planning-problem solutions over all vehicle
               model x vehicle type pairs and all cost functions (enum members are folded as constants) and
               CommonRoadSolutionReader._parse_solution is evaluated on the result: the i-th constructed
               PlanningProblemSolution must carry the i-th model, type and cost function and the i-th trajectory
               node; the scenario id and version must reach ScenarioID.from_benchmark_id unchanged.
"""
import ast
import string

from ..core import AnalysisError, call_name, canon, norm, walk_no_nested
from ..dataflow import ReachingDefs
from ..strdom import MAXREP, NONE, Undecided, ClassRef, Ctor, DictV, EnumMember, Ev, Frag, Grammar, ListV, Obj, Str, Sym, TupV, _Raise, same, show

SC = "commonroad/scenario/scenario.py"
SO = "commonroad/common/solution.py"

GROUP_TO_FIELD = {
    "cooperative": "cooperative",
    "country_id": "country_id",
    "map_name": "map_name",
    "map_id": "map_id",
    "configuration_id": "configuration_id",
    "prediction_type": "obstacle_behavior",
    "prediction_ids": "prediction_id",
}
D = frozenset("0123456789")
D1 = frozenset("123456789")
AZ = frozenset(string.ascii_uppercase)


def posint(name):
    return Sym(name, "int", [(D1, 1, 1), (D, 0, MAXREP)], positive=True)


def S(sym):
    return Str([("sym", sym)])


def behaviour_letters(repo, sid):
    """letters the constructor's validator admits for obstacle_behavior (None excluded)"""
    init = sid.methods["__init__"]
    rd = ReachingDefs(init)
    found = []
    for n in walk_no_nested(init):
        if isinstance(n, ast.Compare) and len(n.ops) == 1 and isinstance(n.ops[0], (ast.In, ast.NotIn)) and "obstacle_behavior" in canon(n.left, rd, rd.stmt_of(n), []):
            c = n.comparators[0]
            if isinstance(c, ast.Name):
                ds = [d.node for d in rd.defs(c.id, rd.stmt_of(n)) if d.node is not None]
                c = ds[0] if len(ds) == 1 else c
            try:
                v = Ev(repo).ev(c, {"self": Obj(sid, {}), "__mod__": sid.mod}, sid.mod)
            except AnalysisError:
                continue
            if isinstance(v, ListV) and all(x is NONE or (isinstance(x, Str) and x.is_lit()) for x in v.items):
                found.append({x.text() for x in v.items if x is not NONE})
    if len(found) != 1:
        raise AnalysisError("ScenarioID.__init__: validator of obstacle_behavior not found")
    if any(len(x) != 1 for x in found[0]):
        raise AnalysisError("obstacle behaviour codes are not single letters: %s" % sorted(found[0]))
    return frozenset(found[0])


def map_name_alphabet(repo, sid):
    """characters the map_name setter lets through, by folding the setter over every printable character"""
    _c, p = repo.find_prop(sid, "map_name")
    if not p or p.get("set") is None:
        raise AnalysisError("ScenarioID.map_name setter missing")
    probe = string.printable.replace("\x0b", "").replace("\x0c", "") + "äß€"
    o = Obj(sid, {})
    ev = Ev(repo)
    from ..strdom import FuncV

    ev.call_fn(FuncV(p["set"], self_val=o, cls=sid, mod=sid.mod), [Str.lit(probe)], {}, None)
    kept = [v for k, v in o.fields.items() if "map_name" in k]
    if len(kept) != 1 or not (isinstance(kept[0], Str) and kept[0].is_lit()):
        raise AnalysisError("ScenarioID.map_name setter: stored value not determined")
    return frozenset(kept[0].text())


def sid_cases(letters, mapcs, collide=()):
    """valid ids by shape: (label, fields).  `collide`: concrete country codes chosen adversarially — codes that begin
    like a literal of the grammar (the cooperative prefix), so that a parser deciding on a prefix is exposed"""
    out = []
    for coop, shape, country in [(c_, s_, None) for c_ in (False, True) for s_ in ("map", "configuration", "one prediction", "two predictions", "three predictions")] + [(c_, s_, lit) for lit in collide for c_ in (False, True) for s_ in ("map", "one prediction")]:
        if True:
            f = {
                "cooperative": coop,
                "country_id": S(Sym("country_id", lang=[(AZ, 3, 3)])) if country is None else Str.lit(country),
                "map_name": S(Sym("map_name", lang=[(mapcs, 1, MAXREP)])),
                "map_id": posint("map_id"),
                "configuration_id": NONE,
                "obstacle_behavior": NONE,
                "prediction_id": NONE,
                "scenario_version": S(Sym("scenario_version", lang=[(frozenset(string.ascii_lowercase + string.digits), 1, MAXREP)])),
            }
            if shape != "map":
                f["configuration_id"] = posint("configuration_id")
            if "prediction" in shape:
                f["obstacle_behavior"] = S(Sym("obstacle_behavior", lang=[(letters, 1, 1)]))
                n = {"one": 1, "two": 2, "three": 3}[shape.split()[0]]
                ids = [posint("prediction_id[%d]" % i) for i in range(n)]
                f["prediction_id"] = ids[0] if n == 1 else ListV(ids)
            out.append(("%s%s%s" % ("cooperative, " if coop else "", shape, "" if country is None else ", country %s" % country), f))
    return out


def expected_capture(group, fields):
    """what a group must capture, as a list of atoms (None: the group must not take part)"""
    v = fields[GROUP_TO_FIELD[group]]
    if group == "cooperative":
        return [] if v is True else None
    if v is NONE:
        return None
    if isinstance(v, ListV):
        return list(v.items)
    if isinstance(v, Str):
        return [p[1] for p in v.pieces if p[0] == "sym"]
    return [v]


def solution_roundtrip_rules(repo, res, RULE="SOL-ID", gram=None):
    """write -> read of a solution's identifying data, decided by abstract evaluation (shared with C14, whose round
    trip of solution files contains this one): Solution.benchmark_id and the writer's node order on one side,
    CommonRoadSolutionReader._parse_solution on the other, over all vehicle model x type pairs, all cost functions and
    cooperative solutions with planning problem ids that are not in insertion order"""
    if gram is None:
        sid_ = repo.cls(SC, "ScenarioID")
        pv_ = Ev(repo).ev(sid_.class_assigns.get("benchmark_id_pattern"), {"__mod__": sid_.mod, "__clsbody__": sid_}, sid_.mod)
        gram = Grammar(pv_.pattern)
    # ---- solution ids
    smod = repo.mod(SO)
    sol = repo.cls(SO, "Solution")
    pps = repo.cls(SO, "PlanningProblemSolution")
    rdr = repo.cls(SO, "CommonRoadSolutionReader")
    vm, vt, cf = repo.cls(SO, "VehicleModel"), repo.cls(SO, "VehicleType"), repo.cls(SO, "CostFunction")
    for need in ("_parse_solution", "_parse_header", "_parse_trajectory"):
        if need not in rdr.methods:
            raise AnalysisError("CommonRoadSolutionReader.%s missing" % need)
    ev0 = Ev(repo)
    models = ev0.iterate(ClassRef(vm), None)
    types = ev0.iterate(ClassRef(vt), None)
    costs = ev0.iterate(ClassRef(cf), None)
    if not (models and types and costs):
        raise AnalysisError("vehicle model / type / cost function enumerations are empty")
    sid_sym = Sym("scenario_id", lang=[(gram.alphabet(), 1, MAXREP)])
    ver_sym = Sym("scenario_version", lang=[(frozenset(string.ascii_lowercase + string.digits), 1, MAXREP)])

    wr = repo.cls(SO, "CommonRoadSolutionWriter")
    for need in ("_serialize_solution", "_create_root_node", "_create_trajectory_node"):
        if need not in wr.methods:
            raise AnalysisError("CommonRoadSolutionWriter.%s missing" % need)

    def roundtrip(triples):
        """write a solution with these (model, type, cost) — benchmark id and one trajectory node per planning problem,
        in the writer's order — and read it back"""
        sols = {}
        # planning problem ids are deliberately not in insertion order
        ids = [(7 * (i + 2)) % 5 + 10 * (len(triples) - i) for i in range(len(triples))]
        for i, (m, t, c) in enumerate(triples):
            sols[ids[i]] = Obj(pps, {"planning_problem_id": ids[i], "vehicle_model": m, "vehicle_type": t, "cost_function": c, "trajectory": Ctor("trajectory_of_%d" % ids[i], {}), "trajectory_type": Ctor("trajectory_type_of_%d" % ids[i], {})})
        scen = Obj(None, {"__str__": S(sid_sym), "scenario_version": S(ver_sym)})
        s_obj = Obj(sol, {"_planning_problem_solutions": DictV(sols), "scenario_id": scen})
        ev = Ev(repo)
        written = {}

        def root_stub(a):
            written["benchmark_id"] = ev.getattr(a["solution"], "benchmark_id", sol.node, smod)
            return ListV([])

        ev.stubs["CommonRoadSolutionWriter._create_root_node"] = root_stub
        ev.stubs["CommonRoadSolutionWriter._create_trajectory_node"] = lambda a: Ctor("trajectory_node", dict(a))
        nodes = ev.call_fn(ev.getattr(ClassRef(wr), "_serialize_solution", wr.node, smod), [s_obj], {}, wr.node)
        bid = written.get("benchmark_id")
        def node_parts(n):
            """(planning problem id, trajectory) a trajectory node was created from, whatever the parameters are called"""
            ints = [v for v in n.args.values() if isinstance(v, int) and not isinstance(v, bool) and v in sols]
            trs = [v for v in n.args.values() if isinstance(v, Ctor) and v.name.startswith("trajectory_of_")]
            if len(ints) != 1 or len(trs) != 1:
                raise AnalysisError("CommonRoadSolutionWriter._create_trajectory_node: planning problem id / trajectory argument not recognised")
            return ints[0], trs[0]

        if bid is None or not isinstance(nodes, ListV) or not all(isinstance(n, Ctor) for n in nodes.items):
            raise AnalysisError("CommonRoadSolutionWriter._serialize_solution: root node / trajectory nodes not recognised")
        ev2 = Ev(repo, opaque_calls={"ScenarioID.from_benchmark_id"})
        ev2.stubs["CommonRoadSolutionReader._parse_header"] = lambda a: TupV([bid, NONE, NONE, NONE])
        ev2.stubs["CommonRoadSolutionReader._parse_trajectory"] = lambda a: TupV(list(node_parts([v for v in a.values() if isinstance(v, Ctor)][0])))
        target = ev2.getattr(ClassRef(rdr), "_parse_solution", rdr.node, smod)
        r = ev2.call_fn(target, [nodes], {}, rdr.node)
        return bid, sols, r

    def judge(triples, bid, sols, r):
        bad = []
        if not (isinstance(r, Ctor) and r.name == "Solution"):
            return ["result %s" % show(r)]
        sc = r.args.get("scenario_id")
        if not (isinstance(sc, Ctor) and sc.name == "ScenarioID.from_benchmark_id" and same(sc.args.get("benchmark_id"), S(sid_sym)) and same(sc.args.get("scenario_version"), S(ver_sym))):
            bad.append("scenario id / version reach the scenario-id parser as %s" % show(sc))
        lst = r.args.get("planning_problem_solutions")
        if not isinstance(lst, ListV) or len(lst.items) != len(triples):
            return bad + ["planning problem solutions %s" % show(lst)]
        seen = set()
        for got in lst.items:
            if not (isinstance(got, Ctor) and got.name == "PlanningProblemSolution"):
                bad.append("a solution is %s" % show(got))
                continue
            pid_ = got.args.get("planning_problem_id")
            if not isinstance(pid_, int) or pid_ not in sols or pid_ in seen:
                bad.append("planning problem id %s" % show(pid_))
                continue
            seen.add(pid_)
            o = sols[pid_]
            for k in ("vehicle_model", "vehicle_type", "cost_function", "trajectory"):
                if not same(got.args.get(k), o.fields[k]):
                    bad.append("planning problem %d: %s = %s, written from %s" % (pid_, k, show(got.args.get(k)), show(o.fields[k])))
        return bad

    bidfn = sol.props.get("benchmark_id", {}).get("get")
    if bidfn is None:
        raise AnalysisError("Solution.benchmark_id missing")
    suites = []
    suites.append(("every vehicle model x vehicle type, single solution", [[(m, t, costs[0])] for m in models for t in types]))
    suites.append(("every cost function, single solution", [[(models[0], types[0], c)] for c in costs]))
    rot = lambda xs, k: xs[k % len(xs)]
    suites.append(("cooperative solution with two vehicles", [[(rot(models, k), rot(types, k + 1), rot(costs, k + 2)), (rot(models, k + 1), rot(types, k + 2), rot(costs, k + 3))] for k in range(max(len(models), len(types)))]))
    suites.append(("cooperative solution with three vehicles", [[(rot(models, k), rot(types, k), rot(costs, k)), (rot(models, k + 1), rot(types, k + 1), rot(costs, k + 1)), (rot(models, k + 2), rot(types, k + 2), rot(costs, k + 2))] for k in range(max(len(models), len(types)))]))
    suites.append(("cooperative solution whose vehicles share one cost function", [[(rot(models, k), rot(types, k), costs[0]), (rot(models, k + 1), rot(types, k + 1), costs[0])] for k in range(2)] + [[(models[0], types[0], costs[1]), (models[1], types[1], costs[1]), (models[2 % len(models)], types[2 % len(types)], costs[1])]]))
    suites.append(("cooperative solution whose vehicles share model and type", [[(models[0], types[0], rot(costs, k)), (models[0], types[0], rot(costs, k + 1))] for k in range(2)]))
    suites.append(("cooperative solution of identical vehicles with one cost function", [[(models[1], types[1], costs[2 % len(costs)]), (models[1], types[1], costs[2 % len(costs)])]]))
    n_eval = 0
    for title, cases in suites:
        bad_all = []
        example = None
        for triples in cases:
            n_eval += 1
            try:
                bid, sols_, r = roundtrip(triples)
                bad = judge(triples, bid, sols_, r)
                example = example or (bid.text() if isinstance(bid, Str) else show(bid))
            except _Raise as x:
                bad = ["raises %s" % x.what]
            if bad:
                bad_all.append("%s: %s" % ("+".join("%s/%s/%s" % (m.name, t.name, c.name) for m, t, c in triples), "; ".join(bad[:3])))
        res.check(RULE, "%s (%d evaluations, e.g. %s)" % (title, len(cases), example), not bad_all, smod, bidfn, "solution benchmark id, %s: %s" % (title, " | ".join(bad_all[:3])), "reading the printed solution benchmark id back does not give the same vehicle models, vehicle types, cost functions, scenario id or version", qualname="Solution.benchmark_id")
    # the scenario id alphabet must not contain the meta characters of the solution id: a consequence of the
    # evaluation above (split / replace through an atom yields a fragment), stated separately for diagnosis
    res.check(RULE, "scenario id alphabet is disjoint from ':,[] '", not (gram.alphabet() & set(":,[] ")), smod, bidfn, "scenario id alphabet vs solution id meta characters", "a scenario id may contain a character the solution id uses as separator", qualname="Solution.benchmark_id")
    return n_eval


def run(repo, res, tier):
    res.rule("SID-GRAMMAR", "the template __str__ prints conforms to the grammar and every group captures its own field, in every shape case", 20)
    res.rule("SID-PARSE", "from_benchmark_id on the printed template rebuilds every constructor argument, in every shape case", 11)
    res.rule("SOL-ID", "Solution.benchmark_id -> _parse_solution recovers models, types, cost functions, scenario id and version", 5)
    mod = repo.mod(SC)
    sid = repo.cls(SC, "ScenarioID")
    pat_node = sid.class_assigns.get("benchmark_id_pattern")
    ev0 = Ev(repo)
    # the class body is a scope of its own: constants bound before the pattern may be used in it
    cenv = {"__mod__": mod}
    for nm_, ex_ in sid.class_assigns.items():
        if nm_ == "benchmark_id_pattern" or ex_ is None:
            continue
        try:
            cenv[nm_] = ev0.ev(ex_, cenv, mod)
        except (AnalysisError, Undecided, _Raise):
            pass
    try:
        pv = ev0.ev(pat_node, cenv, mod) if pat_node is not None else None
    except AnalysisError:
        pv = None
    if pv is None or not hasattr(pv, "pattern"):
        raise AnalysisError("ScenarioID.benchmark_id_pattern is not re.compile(<string constant>)")
    gram = Grammar(pv.pattern)
    if set(gram.names.values()) != set(GROUP_TO_FIELD):
        raise AnalysisError("regex groups changed: %s" % sorted(gram.names.values()))
    letters = behaviour_letters(repo, sid)
    mapcs = map_name_alphabet(repo, sid)
    pr = sid.methods.get("__str__")
    fb = sid.methods.get("from_benchmark_id")
    init = sid.methods.get("__init__")
    if pr is None or fb is None or init is None:
        raise AnalysisError("ScenarioID.__str__ / from_benchmark_id / __init__ missing")
    params = [a.arg for a in init.args.args][1:]
    if not set(GROUP_TO_FIELD.values()) | {"scenario_version"} <= set(params):
        raise AnalysisError("ScenarioID.__init__ parameters changed: %s" % params)
    printed = {}
    # literals of the grammar that precede the country code: a country beginning like one of them is the adversarial case
    pre = [chr(av) for op, av in list(gram.tree)[:1] if False]
    lead = gram.pattern
    collide = []
    import re as _re

    mlead = _re.match(r"\(\?P<cooperative>([A-Za-z])", lead)
    if mlead:
        collide = [mlead.group(1).upper() + "HN" if mlead.group(1).upper() == "C" else mlead.group(1).upper() + "AA"]
    for label, f in sid_cases(letters, mapcs, collide):
        q = "ScenarioID.__str__"
        ev = Ev(repo)
        try:
            t = ev.to_str(Obj(sid, dict(f)))
        except Undecided as u:
            res.refuse("ScenarioID.__str__ [%s]: %s" % (label, u))
            continue
        except _Raise as r:
            res.check("SID-GRAMMAR", "%s: printing" % label, False, mod, pr, "ScenarioID.__str__ [%s] raises %s" % (label, r.what), "printing a valid id raises", qualname=q)
            continue
        if not isinstance(t, Str):
            res.check("SID-GRAMMAR", "%s: printing" % label, False, mod, pr, "ScenarioID.__str__ [%s] does not yield text: %s" % (label, show(t)), "the printed id is not a string made of the id's fields", qualname=q)
            continue
        caps = gram.fullmatch(t)
        res.check("SID-GRAMMAR", "%s: %s conforms to the grammar" % (label, t.text()), caps is not None, mod, pr, "ScenarioID.__str__ [%s] prints %s" % (label, t.text()), "the printed id does not conform to the CommonRoad id grammar (separator, order, prefix, alphabet or a missing / extra component)", qualname=q)
        if caps is None:
            continue
        bad = []
        for g in GROUP_TO_FIELD:
            want = expected_capture(g, f)
            got = caps[g]
            if want is None:
                if got is not NONE:
                    bad.append("%s captures %s but the id has no such part" % (g, show(got)))
            elif got is NONE:
                bad.append("%s is absent but the id has %s" % (g, GROUP_TO_FIELD[g]))
            else:
                atoms = [p[1] for p in got.pieces if p[0] == "sym"]
                if [a.name for a in atoms] != [a.name for a in want]:
                    bad.append("%s captures %s" % (g, show(got)))
        res.check("SID-GRAMMAR", "%s: every group captures its own field" % label, not bad, mod, pr, "ScenarioID.__str__ [%s] %s" % (label, "; ".join(bad)), "a component is printed where the grammar expects another one", qualname=q)
        if not bad:
            printed[label] = (f, t)

    # ---- parser
    q = "ScenarioID.from_benchmark_id"
    match_ops = set()
    for label, (f, t) in printed.items():
        ev = Ev(repo)
        try:
            target = ev.getattr(ClassRef(sid), "from_benchmark_id", fb, mod)
            r = ev.call_fn(target, [t, f["scenario_version"]], {}, fb)
        except Undecided as u:
            res.refuse("ScenarioID.from_benchmark_id [%s]: %s" % (label, u))
            continue
        except _Raise as x:
            res.check("SID-PARSE", "%s: parsing %s" % (label, t.text()), False, mod, fb, "from_benchmark_id [%s] raises %s" % (label, x.what), "a valid printed id is rejected by the parser", qualname=q)
            continue
        match_ops |= {w[0] for w in ev.trace if w[0].startswith("pattern-")}
        ok = isinstance(r, Ctor) and r.name == "ScenarioID"
        bad = []
        if ok:
            for p in params:
                want = f.get(p)
                got = r.args.get(p)
                if not same(want, got):
                    bad.append("%s = %s (printed from %s)" % (p, show(got), show(want)))
        else:
            bad.append("result %s" % show(r))
        res.check("SID-PARSE", "%s: parsing %s rebuilds all fields" % (label, t.text()), not bad, mod, fb, "from_benchmark_id [%s] %s" % (label, "; ".join(bad)), "parsing the printed id back does not give an equal id (a component is dropped, converted wrongly, or passed to the wrong constructor parameter)", qualname=q)
    if printed:
        res.check("SID-PARSE", "whole string must match (fullmatch)", match_ops == {"pattern-fullmatch"}, mod, fb, "from_benchmark_id matching with %s" % sorted(match_ops), "ids with trailing garbage are accepted", qualname=q)

    n_eval = solution_roundtrip_rules(repo, res, "SOL-ID", gram)
    return {"shape_cases": [c[0] for c in sid_cases(letters, mapcs, collide)], "behaviour_letters": sorted(letters), "map_name_alphabet": "".join(sorted(mapcs)), "solution_roundtrips": n_eval, "assumed": "country ids are three upper-case letters (ISO-3166 alpha-3 / ZAM), numbers are positive integers (property statement)"}

"""C13 — benchmark ids print and parse consistently (engine E-TABLE).

Scenario ids: the separators, group order, alphabets and conversions of the printer
(ScenarioID.__str__), the grammar (benchmark_id_pattern, parsed with re._parser from the source
constant) and the parser (from_benchmark_id) are compared piece by piece.
Solution ids: 'vehicles:costs:scenario:version' format vs split/strip in the reader; vehicle id
= model name + single-digit type value vs the slicing in the reader; cost id = enum name.
"""
import ast
import re

try:
    import re._parser as sre_parse  # python >= 3.11
    import re._constants as sre_c
except ImportError:  # pragma: no cover
    import sre_parse
    import sre_constants as sre_c

from ..core import AnalysisError, Finding, attr_chain, call_name, dominating_guards, norm, walk_no_nested
from ..dataflow import ReachingDefs

SC = "commonroad/scenario/scenario.py"
SO = "commonroad/common/solution.py"

GROUP_TO_PARAM = {
    "cooperative": "cooperative",
    "country_id": "country_id",
    "map_name": "map_name",
    "map_id": "map_id",
    "configuration_id": "configuration_id",
    "prediction_type": "obstacle_behavior",
    "prediction_ids": "prediction_id",
}


def regex_tokens(pattern):
    """Linearise the pattern: list of ('lit', text) and ('group', name, charset-or-None, inner literal text),
    in order, descending into unnamed/optional groups."""
    p = sre_parse.parse(pattern)
    names = {v: k for k, v in p.state.groupdict.items()}
    out = []

    def charset(items):
        chars = set()
        for op, av in items:
            if op == sre_c.LITERAL:
                chars.add(chr(av))
            elif op == sre_c.RANGE:
                chars |= {chr(c) for c in range(av[0], av[1] + 1)}
            elif op == sre_c.IN:
                chars |= charset(av)
        return chars

    def lits(items):
        s = ""
        for op, av in items:
            if op == sre_c.LITERAL:
                s += chr(av)
            elif op in (sre_c.MAX_REPEAT, sre_c.MIN_REPEAT):
                s += lits(av[2])
            elif op == sre_c.SUBPATTERN:
                s += lits(av[3])
            elif op == sre_c.BRANCH:
                for b in av[1]:
                    s += lits(b)
        return s

    def chars_of(items):
        cs = set()
        for op, av in items:
            if op == sre_c.IN:
                cs |= charset(av)
            elif op in (sre_c.MAX_REPEAT, sre_c.MIN_REPEAT):
                cs |= chars_of(av[2])
            elif op == sre_c.SUBPATTERN:
                cs |= chars_of(av[3])
        return cs

    def walk(items):
        for op, av in items:
            if op == sre_c.LITERAL:
                if out and out[-1][0] == "lit":
                    out[-1] = ("lit", out[-1][1] + chr(av))
                else:
                    out.append(("lit", chr(av)))
            elif op in (sre_c.MAX_REPEAT, sre_c.MIN_REPEAT):
                walk(av[2])
            elif op == sre_c.SUBPATTERN:
                gid = av[0]
                if gid in names:
                    out.append(("group", names[gid], chars_of(av[3]), lits(av[3])))
                else:
                    walk(av[3])
            elif op == sre_c.IN:
                out.append(("class", charset(av)))

    walk(p)
    return out, set(names.values())


def const_str(node):
    if isinstance(node, ast.Constant) and isinstance(node.value, str):
        return node.value
    return None


def run(repo, res, tier):
    res.rule("SID-GRAMMAR", "printer separators / order / alphabets equal the regex literals, group order and classes", 8)
    res.rule("SID-PARSE", "every regex group is read and converted into the constructor parameter of the same meaning", 9)
    res.rule("SOL-ID", "solution benchmark id format vs reader split/strip; vehicle and cost id encoding vs decoding", 8)
    mod = repo.mod(SC)
    sid = repo.cls(SC, "ScenarioID")
    pat_node = sid.class_assigns.get("benchmark_id_pattern")
    if pat_node is None or not (isinstance(pat_node, ast.Call) and norm(pat_node.func) == "re.compile" and const_str(pat_node.args[0]) is not None):
        raise AnalysisError("ScenarioID.benchmark_id_pattern is not re.compile(<string constant>)")
    pattern = const_str(pat_node.args[0])
    toks, groups = regex_tokens(pattern)
    if groups != set(GROUP_TO_PARAM):
        raise AnalysisError("regex groups changed: %s" % sorted(groups))
    order = [t[1] for t in toks if t[0] == "group"]
    before = {}
    prev_lit = ""
    for t in toks:
        if t[0] == "lit":
            prev_lit = t[1]
        elif t[0] == "group":
            before[t[1]] = prev_lit
            prev_lit = ""
    ginfo = {t[1]: t for t in toks if t[0] == "group"}

    # ---- printer
    pr = sid.methods["__str__"]
    rd = ReachingDefs(pr)
    q = "ScenarioID.__str__"
    parts = [n for n in walk_no_nested(pr) if isinstance(n, ast.Assign) and isinstance(n.value, ast.List) and len(n.value.elts) >= 3]
    if len(parts) != 1:
        raise AnalysisError("ScenarioID.__str__: parts list not found")
    elts = parts[0].value.elts

    def elt_attr(e):
        # attribute(s) of self an element prints, through locals
        names = []
        srcs = [e]
        if isinstance(e, ast.Name):
            srcs = [d.node for d in rd.defs(e.id, parts[0]) if d.node is not None]
        for s_ in srcs:
            for x in ast.walk(s_):
                ch = attr_chain(x) if isinstance(x, ast.Attribute) else None
                if ch and ch[0] == "self" and len(ch) == 2 and ch[1] not in names:
                    names.append(ch[1])
                if isinstance(x, ast.Name) and isinstance(x.ctx, ast.Load) and x is not s_:
                    for d in rd.defs(x.id, parts[0]):
                        if d.node is not None:
                            for y in ast.walk(d.node):
                                ch = attr_chain(y) if isinstance(y, ast.Attribute) else None
                                if ch and ch[0] == "self" and len(ch) == 2 and ch[1] not in names:
                                    names.append(ch[1])
        return names

    printed = [elt_attr(e) for e in elts]
    flat = [a for p in printed for a in p]
    want_order = ["country_id", "map_name", "map_id", "configuration_id", "obstacle_behavior", "prediction_id"]
    got = [a for a in flat if a in want_order]
    seen = []
    for a in got:
        if a not in seen:
            seen.append(a)
    res.check("SID-GRAMMAR", "printer emits %s in grammar order %s" % (seen, [GROUP_TO_PARAM[g] for g in order if g != "cooperative"]), seen == [GROUP_TO_PARAM[g] for g in order if g != "cooperative"], mod, parts[0], "ScenarioID.__str__ parts order %s" % seen, "the printed id lists its components in another order than the grammar", qualname=q)
    joins = [n for n in walk_no_nested(pr) if isinstance(n, ast.Call) and isinstance(n.func, ast.Attribute) and n.func.attr == "join" and const_str(n.func.value) is not None]
    part_join = [j for j in joins if any(isinstance(x, ast.Name) and x.id == norm(parts[0].targets[0]) for x in ast.walk(j))]
    pred_join = [j for j in joins if j not in part_join]
    ok = len(part_join) == 1 and const_str(part_join[0].func.value) == before["map_name"] == before["configuration_id"] == before["prediction_type"]
    res.check("SID-GRAMMAR", "component separator %r = regex literals before map_name/configuration_id/prediction_type" % (const_str(part_join[0].func.value) if part_join else None), ok, mod, part_join[0] if part_join else pr, "ScenarioID.__str__ component separator", "printer and grammar use different separators between components", qualname=q)
    # map f-string
    fstr = [n for n in walk_no_nested(pr) if isinstance(n, ast.JoinedStr)]
    ok = False
    for f in fstr:
        vals = f.values
        if len(vals) == 3 and isinstance(vals[0], ast.FormattedValue) and isinstance(vals[2], ast.FormattedValue) and const_str(vals[1]) is not None:
            if norm(vals[0].value) == "self.map_name" and norm(vals[2].value) == "self.map_id":
                ok = const_str(vals[1]) == before["map_id"]
    res.check("SID-GRAMMAR", "map part = map_name + %r + map_id" % before["map_id"], ok, mod, pr, "ScenarioID.__str__ map part", "map name and map id are not joined by the grammar's separator", qualname=q)
    ok = len(pred_join) == 1 and const_str(pred_join[0].func.value) == ginfo["prediction_ids"][3][:1]
    if ok:
        arg = pred_join[0].args[0]
        ok = isinstance(arg, ast.BinOp) and isinstance(arg.op, ast.Add) and norm(arg.left) == "[self.obstacle_behavior]"
    res.check("SID-GRAMMAR", "prediction part = behaviour followed by ids, joined by %r" % ginfo["prediction_ids"][3][:1], ok, mod, pred_join[0] if pred_join else pr, "ScenarioID.__str__ prediction part", "prediction type and ids are not printed as the grammar expects", qualname=q)
    pref = [n for n in walk_no_nested(pr) if isinstance(n, ast.BinOp) and isinstance(n.op, ast.Add) and const_str(n.left) is not None]
    ok = len(pref) == 1 and const_str(pref[0].left) == ginfo["cooperative"][3]
    if ok:
        g = [(norm(t), pol) for t, pol in dominating_guards(mod, pref[0], stop=pr)]
        ok = any(pol and t in ("self.cooperative is True", "self.cooperative") for t, pol in g)
    res.check("SID-GRAMMAR", "cooperative prefix %r" % ginfo["cooperative"][3], ok, mod, pref[0] if pref else pr, "ScenarioID.__str__ cooperative prefix", "the cooperative prefix printed differs from the one the grammar accepts", qualname=q)
    # alphabets
    init = sid.methods["__init__"]
    vals = None
    for n in walk_no_nested(init):
        if isinstance(n, ast.Compare) and isinstance(n.ops[0], ast.In) and norm(n.left) == "self.obstacle_behavior" and isinstance(n.comparators[0], ast.List):
            vals = {e.value for e in n.comparators[0].elts if isinstance(e, ast.Constant) and e.value is not None}
    res.check("SID-GRAMMAR", "behaviour letters %s = regex class %s" % (sorted(vals or []), sorted(ginfo["prediction_type"][2])), vals == ginfo["prediction_type"][2], mod, init, "ScenarioID.__init__ behaviour validator %s vs regex %s" % (sorted(vals or []), sorted(ginfo["prediction_type"][2])), "constructor and grammar accept different obstacle-behaviour letters", qualname="ScenarioID.__init__")
    mn = sid.props["map_name"]["set"]
    cleaned = None
    for n in walk_no_nested(mn):
        if isinstance(n, ast.Call) and norm(n.func) == "re.sub":
            p0 = n.args[0]
            if isinstance(p0, ast.Name):
                ds = [d.node for d in ReachingDefs(mn).defs(p0.id, n) if d.node is not None]
                p0 = ds[0] if ds else p0
            cleaned = const_str(p0)
    ok = False
    if cleaned:
        t2, _g = regex_tokens(cleaned.replace("[^", "[", 1)) if cleaned.startswith("[^") else ([], None)
        ok = bool(t2) and t2[0][0] == "class" and t2[0][1] == ginfo["map_name"][2]
    res.check("SID-GRAMMAR", "map_name setter keeps exactly the grammar's map-name alphabet", ok, mod, mn, "ScenarioID.map_name setter pattern %r" % cleaned, "map names may keep characters the grammar rejects (printed ids would not parse)", qualname="ScenarioID.map_name")
    # numeric groups cannot print with leading zeros / separators: ints
    eq = sid.methods["__eq__"]
    eq_fields = {n.attr for n in walk_no_nested(eq) if isinstance(n, ast.Attribute) and isinstance(n.value, ast.Name) and n.value.id == "other"}
    str_fields = {n.attr for n in walk_no_nested(pr) if isinstance(n, ast.Attribute) and isinstance(n.value, ast.Name) and n.value.id == "self"}
    res.check("SID-GRAMMAR", "every compared field except the version is printed", eq_fields - {"scenario_version"} <= str_fields, mod, pr, "ScenarioID.__str__ prints %s, __eq__ compares %s" % (sorted(str_fields), sorted(eq_fields)), "two different ids print identically", qualname=q)

    # ---- parser
    fb = sid.methods["from_benchmark_id"]
    q = "ScenarioID.from_benchmark_id"
    rdp = ReachingDefs(fb)
    ctor = [n for n in walk_no_nested(fb) if isinstance(n, ast.Call) and norm(n.func) == "ScenarioID" and len(n.args) >= 7]
    if len(ctor) != 1:
        raise AnalysisError("from_benchmark_id: full constructor call not found")
    params = [a.arg for a in init.args.args][1:]
    uses = {}
    for n in walk_no_nested(fb):
        if isinstance(n, ast.Subscript) and isinstance(n.value, ast.Name) and n.value.id == "match" and const_str(n.slice) is not None:
            uses.setdefault(const_str(n.slice), []).append(n)
    res.check("SID-PARSE", "all regex groups are read %s" % sorted(uses), set(uses) == groups, mod, fb, "from_benchmark_id reads groups %s of %s" % (sorted(uses), sorted(groups)), "a component of the id is dropped (or a non-existing group is read) when parsing", qualname=q)

    def group_roots(expr, at, depth=0):
        out = set()
        for x in ast.walk(expr):
            if isinstance(x, ast.Subscript) and isinstance(x.value, ast.Name) and x.value.id == "match" and const_str(x.slice):
                out.add(const_str(x.slice))
            elif isinstance(x, ast.Name) and isinstance(x.ctx, ast.Load) and depth < 5 and x.id != "match":
                for d in rdp.defs(x.id, at):
                    if d.node is not None:
                        out |= group_roots(d.node, d.stmt, depth + 1)
        return out

    for i, a in enumerate(ctor[0].args):
        pname = params[i] if i < len(params) else "?"
        roots = group_roots(a, ctor[0])
        want = {g for g, p in GROUP_TO_PARAM.items() if p == pname}
        if pname == "scenario_version":
            ok = norm(a) == "scenario_version"
        else:
            ok = roots == want
        res.check("SID-PARSE", "constructor argument %d (%s) <- group %s" % (i, pname, sorted(roots)), ok, mod, a, "from_benchmark_id: %s receives groups %s" % (pname, sorted(roots)), "a parsed component is passed to the wrong constructor parameter", qualname=q)
    # conversions
    for g in ("map_id", "configuration_id"):
        ok = all(isinstance(mod.parent.get(u), ast.Call) and call_name(mod.parent.get(u)) == "int" or any(isinstance(x, ast.Compare) for x in [mod.parent.get(u)]) for u in uses.get(g, []))
        res.check("SID-PARSE", "group %s converted with int()" % g, ok, mod, fb, "from_benchmark_id: %s conversion" % g, "numeric components stay strings: the parsed id is not equal to the printed one", qualname=q)
    t = " ; ".join(norm(s) for s in fb.body)
    sep = ginfo["prediction_ids"][3][:1]
    ok = ".split('%s')[1:]" % sep in t and "int(pid)" in t.replace("int(p)", "int(pid)") and "== 1" in t
    res.check("SID-PARSE", "prediction ids split by %r, converted to int, single id unwrapped" % sep, ok, mod, fb, "from_benchmark_id prediction ids", "prediction ids are split by another separator than printed, stay strings, or a single id stays a list", qualname=q)
    coop = [n for n in walk_no_nested(fb) if isinstance(n, ast.Assign) and norm(n.targets[0]) == "cooperative"]
    ok = len(coop) == 1 and norm(coop[0].value) in ("match['cooperative'] is not None", "match['cooperative'] != None", "bool(match['cooperative'])")
    res.check("SID-PARSE", "cooperative flag = group present", ok, mod, fb, "from_benchmark_id cooperative", "the cooperative flag is not derived from the presence of the prefix", qualname=q)
    ok = any(isinstance(n, ast.Call) and norm(n.func).endswith("benchmark_id_pattern.fullmatch") for n in walk_no_nested(fb))
    res.check("SID-PARSE", "whole string must match (fullmatch)", ok, mod, fb, "from_benchmark_id matching", "ids with trailing garbage are accepted", qualname=q)

    # ---- solution ids
    smod = repo.mod(SO)
    sol = repo.cls(SO, "Solution")
    bid = repo.method(SO, "Solution", "benchmark_id")
    rets = [n for n in walk_no_nested(bid) if isinstance(n, ast.Return)]
    fmt = None
    if len(rets) == 1 and isinstance(rets[0].value, ast.BinOp) and isinstance(rets[0].value.op, ast.Mod):
        fmt = const_str(rets[0].value.left)
        fargs = [norm(e) for e in rets[0].value.right.elts] if isinstance(rets[0].value.right, ast.Tuple) else []
    rdr = repo.cls(SO, "CommonRoadSolutionReader")
    pb = rdr.methods["_parse_benchmark_id"]
    tb = " ; ".join(norm(s) for s in pb.body)
    segsep = None
    for n in walk_no_nested(pb):
        if isinstance(n, ast.Call) and isinstance(n.func, ast.Attribute) and n.func.attr == "split" and n.args and const_str(n.args[0]) and "benchmark_id" in norm(n.func.value):
            segsep = const_str(n.args[0])
    nseg = None
    for n in walk_no_nested(pb):
        if isinstance(n, ast.Compare) and norm(n.left) == "len(segments)" and isinstance(n.comparators[0], ast.Constant):
            nseg = n.comparators[0].value
    ok = fmt is not None and segsep is not None and fmt.split(segsep) == ["%s"] * (nseg or 0)
    res.check("SOL-ID", "benchmark id format %r = %s segments separated by %r" % (fmt, nseg, segsep), ok, smod, bid, "Solution.benchmark_id format %r vs reader split(%r), %s segments" % (fmt, segsep, nseg), "the reader splits the id differently from how it is printed", qualname="Solution.benchmark_id")
    # the first two slots: vehicles then costs (locals derived from vehicle_ids / cost_ids)
    rdb = ReachingDefs(bid)

    def derives(name, what):
        for d in rdb.defs(name, rets[0]):
            if d.node is not None and what in norm(d.node):
                return True
        return False

    ok = fmt is not None and len(fargs) == 4 and derives(fargs[0], "vehicle_ids") and derives(fargs[1], "cost_ids") and fargs[2] == "str(self.scenario_id)" and fargs[3] == "self.scenario_id.scenario_version" and "segments[0]" in tb and "ScenarioID.from_benchmark_id(segments[2], segments[3])" in tb
    ok = ok and bool(re.search(r"vehicle\w* = re\.sub\([^;]*segments\[0\]", tb)) and bool(re.search(r"cost\w* = re\.sub\([^;]*segments\[1\]", tb))
    res.check("SOL-ID", "segment order vehicles:costs:scenario:version on both sides", ok, smod, pb, "benchmark id segment order %s" % (fargs if fmt else None), "segments are read in another order than written", qualname="CommonRoadSolutionReader._parse_benchmark_id")
    lists = [const_str(n.left) for n in walk_no_nested(bid) if isinstance(n, ast.BinOp) and isinstance(n.op, ast.Mod) and const_str(n.left) and "[" in const_str(n.left)]
    lsep = {const_str(n.func.value) for n in walk_no_nested(bid) if isinstance(n, ast.Call) and isinstance(n.func, ast.Attribute) and n.func.attr == "join"}
    ok = set(lists) == {"[%s]"} and lsep == {","} and tb.count(".split(',')") == 2 and tb.count("re.sub('[\\\\[\\\\]]', ''") == 2
    res.check("SOL-ID", "list form [a,b] printed and stripped/split by the same brackets and comma", ok, smod, bid, "Solution.benchmark_id list form %s sep %s" % (lists, sorted(lsep)), "cooperative solution ids are not parsed back into the same lists", qualname="Solution.benchmark_id")
    # scenario id alphabet cannot contain the solution id meta characters
    alphabet = set()
    for tk in toks:
        if tk[0] == "lit":
            alphabet |= set(tk[1])
        elif tk[0] == "group":
            alphabet |= tk[2] | set(tk[3])
        elif tk[0] == "class":
            alphabet |= tk[1]
    res.check("SOL-ID", "scenario id alphabet is disjoint from ':,[] '", not (alphabet & set(":,[] ")), smod, bid, "scenario id alphabet vs solution id meta characters", "a scenario id may contain a character the solution id uses as separator", qualname="Solution.benchmark_id")
    pps = repo.cls(SO, "PlanningProblemSolution")
    vid = repo.method(SO, "PlanningProblemSolution", "vehicle_id")
    rets = [n for n in walk_no_nested(vid) if isinstance(n, ast.Return)]
    ok = len(rets) == 1 and norm(rets[0].value) == "self.vehicle_model.name + str(self.vehicle_type.value)"
    pv = rdr.methods["_parse_vehicle_id"]
    tv = " ; ".join(norm(s) for s in pv.body)
    ok = ok and "VehicleModel[vehicle_id[:-1]]" in tv and "VehicleType(int(vehicle_id[-1]))" in tv
    res.check("SOL-ID", "vehicle id = model name + type value  <->  [:-1] / [-1]", ok, smod, vid, "vehicle id encoding/decoding", "vehicle model and type are not recovered from the vehicle id", qualname="PlanningProblemSolution.vehicle_id")
    vt = repo.cls(SO, "VehicleType").enum_members()
    vm = repo.cls(SO, "VehicleModel").enum_members()
    digits = all(isinstance(v, ast.Constant) and isinstance(v.value, int) and 0 <= v.value <= 9 for v in vt.values())
    lens = set()
    for n in walk_no_nested(pv):
        if isinstance(n, ast.Compare) and norm(n.left) == "len(vehicle_id)" and isinstance(n.comparators[0], ast.Constant):
            lens.add(n.comparators[0].value)
    need = {len(k) + 1 for k in vm}
    res.check("SOL-ID", "vehicle type values are single digits; accepted id lengths %s cover %s" % (sorted(lens), sorted(need)), digits and need <= lens, smod, pv, "vehicle id lengths %s vs model names %s, type values single digit: %s" % (sorted(lens), sorted(vm), digits), "a valid (model, type) pair prints a vehicle id the reader rejects or slices wrongly", qualname="CommonRoadSolutionReader._parse_vehicle_id")
    cid = repo.method(SO, "PlanningProblemSolution", "cost_id")
    rets = [n for n in walk_no_nested(cid) if isinstance(n, ast.Return)]
    pp = rdr.methods["_parse_planning_problem_solution"]
    tp = " ; ".join(norm(s) for s in pp.body)
    ok = len(rets) == 1 and norm(rets[0].value) == "self.cost_function.name" and "CostFunction[cost_id]" in tp
    res.check("SOL-ID", "cost id = cost function name <-> CostFunction[name]", ok, smod, cid, "cost id encoding/decoding", "the cost function is not recovered from the cost id", qualname="PlanningProblemSolution.cost_id")
    ps = rdr.methods["_parse_solution"]
    tps = " ; ".join(norm(s) for s in ps.body)
    ok = "vehicle_ids[idx], cost_ids[idx], trajectory_node" in tps and "enumerate(root_node)" in tps
    res.check("SOL-ID", "i-th vehicle/cost id belongs to the i-th trajectory node", ok, smod, ps, "_parse_solution pairing", "vehicle and cost ids are paired with the wrong planning problem solution", qualname="CommonRoadSolutionReader._parse_solution")
    return {"regex_tokens": [list(map(lambda x: sorted(x) if isinstance(x, set) else x, t)) for t in toks]}

"""C09 — object ids stay unique and the id pool exact (engine E-PAIRING (i)).

The argument is per operation and therefore covers every history: if each add reserves exactly
the ids of the object it stores (atomically), each removal releases exactly those ids and only
when it actually removed the object, nothing else touches the pool, and the counter only grows,
then `_id_set == ids of contained objects` is an invariant of every operation sequence.

Rules (all instances are discovered from Scenario's source):
  PAIR-RESERVE   every add_objects branch reserves ids before it stores the object
  PAIR-RELEASE   each removal form (single / list) releases exactly the id paths its add branch reserves
  PAIR-GUARD     a release happens only where the object was found in its registry (no double free)
  PAIR-OWNER     only the designated removal functions drop objects from a registry; only the
                 reserve helper(s) and removal functions touch _id_set
  PAIR-ATOMIC    an add branch has one reservation step; the helper raises only before it mutates _id_set
  PAIR-REPLACE   replacing the lanelet network releases what the old one reserved
  COUNTER        _id_counter is only initialised, raised to max(..) or incremented; generate_object_id
                 returns it after folding in max(_id_set) and incrementing
"""
import ast

from ..core import AnalysisError, Finding, attr_chain, call_name, dominating_guards, norm, walk_no_nested

S = "commonroad/scenario/scenario.py"

# removal function -> kinds it removes (by the class names of add_objects' isinstance branches)
REMOVERS = {
    "remove_obstacle": ["StaticObstacle", "DynamicObstacle", "EnvironmentObstacle", "PhantomObstacle"],
    "remove_lanelet": ["Lanelet"],
    "remove_traffic_sign": ["TrafficSign"],
    "remove_traffic_light": ["TrafficLight"],
    "remove_intersection": ["Intersection"],
}
# registry attribute of Scenario -> kind, for obstacle kinds (read off add_objects' stores, checked below)
NETWORK_DROP = {"remove_lanelet": "Lanelet", "remove_traffic_sign": "TrafficSign", "remove_traffic_light": "TrafficLight", "remove_intersection": "Intersection"}
NETWORK_MEMBERS = {
    "Lanelet": "lanelets[*].lanelet_id",
    "TrafficSign": "traffic_signs[*].traffic_sign_id",
    "TrafficLight": "traffic_lights[*].traffic_light_id",
    "Intersection": "intersections[*].intersection_id",
}










def inside(mod, node, anc):
    n = node
    while n is not None:
        if n is anc:
            return True
        n = mod.parent.get(n)
    return False








HELPERS = {}










def run(repo, res, tier):
    HELPERS.clear()
    HELPERS.update(repo.cls(S, "Scenario").methods)
    res.rule("PAIR-RESERVE", "each add_objects branch reserves ids, and does so before storing the object", 9)
    res.rule("PAIR-RELEASE", "each removal form releases exactly the id paths the matching add branch reserves", 10)
    res.rule("PAIR-GUARD", "ids are released only where the object was found in its registry", 8)
    res.rule("PAIR-OWNER", "registry drops and _id_set mutations occur only in the designated functions", 10)
    res.rule("PAIR-ATOMIC", "one reservation step per add branch; reserve helpers raise only before mutating _id_set", 9)
    res.rule("PAIR-REPLACE", "assignments to _lanelet_network release the ids of the network being replaced", 2)
    res.rule("COUNTER", "_id_counter only initialised / max(..) / += 1; generate_object_id folds in max(_id_set)", 5)

    cls = repo.cls(S, "Scenario")
    mod = cls.mod
    # ---- the protocol itself is decided by abstract evaluation on a world that contains one object of every kind
    # (c09ev): pool == ids of the contained objects after every way of adding / removing, rejected adds change
    # nothing, removing what is not contained changes nothing
    from . import c09ev

    c09ev.pool_rules(repo, res)
    registry_of = dict((k, v) for k, v in c09ev.REG.items())
    add = repo.method(S, "Scenario", "add_objects")
    objp = add.args.args[1].arg

    # ---- reserve helpers: raise only before the first mutation of _id_set
    for mn, fn in cls.methods.items():
        if not mn.startswith("_mark_object_id"):
            continue
        muts = [n for n in walk_no_nested(fn) if isinstance(n, ast.Call) and isinstance(n.func, ast.Attribute) and norm(n.func.value) == "self._id_set" and n.func.attr in ("add", "update", "difference_update", "discard", "remove")]
        raises = [n for n in walk_no_nested(fn) if isinstance(n, ast.Raise)]
        if not muts:
            raise AnalysisError("%s does not add to _id_set" % mn)
        in_loop = any(isinstance(a, (ast.For, ast.While)) and any(inside(mod, m, a) for m in muts) and any(inside(mod, r, a) for r in raises) for a in ast.walk(fn))
        first_mut = min((m.lineno, m.col_offset) for m in muts)
        ok = all((r.lineno, r.col_offset) < first_mut for r in raises) and not in_loop
        res.check("PAIR-ATOMIC", "%s raises only before mutating" % mn, ok, mod, fn, "%s may raise after reserving" % mn, "a collision detected after some ids were already added leaves them reserved", qualname="Scenario." + mn)

    # ---- owners
    allowed_drop = set(REMOVERS)
    # private helpers that are only ever called from the removal functions (or from such helpers) act on their behalf
    callers = {}
    for mn_, fn_ in cls.methods.items():
        for n_ in ast.walk(fn_):
            if isinstance(n_, ast.Call) and isinstance(n_.func, ast.Attribute) and norm(n_.func.value) in ("self", "cls") and n_.func.attr in cls.methods:
                callers.setdefault(n_.func.attr, set()).add(mn_)
            elif isinstance(n_, ast.Attribute) and norm(n_.value) in ("self", "cls") and n_.attr in cls.methods and isinstance(n_.ctx, ast.Load):
                callers.setdefault(n_.attr, set()).add(mn_)  # also when handed on as a value
    grew = True
    while grew:
        grew = False
        for mn_ in cls.methods:
            if mn_ not in allowed_drop and mn_.startswith("_") and not mn_.startswith("__") and callers.get(mn_) and callers[mn_] - {mn_} <= allowed_drop:
                allowed_drop.add(mn_)
                grew = True
    for mn, fn in list(cls.methods.items()):
        for n in walk_no_nested(fn):
            if isinstance(n, ast.Call) and isinstance(n.func, ast.Attribute):
                recv = norm(n.func.value)
                if n.func.attr in NETWORK_DROP and "lanelet_network" in recv:
                    res.check("PAIR-OWNER", "%s calls %s.%s" % (mn, recv, n.func.attr), mn == n.func.attr, mod, n, "%s drops a %s from the network" % (mn, NETWORK_DROP[n.func.attr]), "only Scenario.%s may remove this kind from the network (it is the one that releases the id)" % n.func.attr, qualname="Scenario." + mn)
                if recv == "self._id_set" and n.func.attr in CONTAINER_MUT:
                    ok = mn in allowed_drop or mn.startswith("_mark_object_id")
                    res.check("PAIR-OWNER", "%s mutates _id_set (%s)" % (mn, n.func.attr), ok, mod, n, "%s: %s" % (mn, norm(n)), "the id pool is changed outside the reserve helper / removal functions", qualname="Scenario." + mn)
            if isinstance(n, ast.Delete):
                for t in n.targets:
                    if isinstance(t, ast.Subscript):
                        ch = attr_chain(t.value)
                        if ch and ch[0] == "self" and len(ch) == 2 and ch[1] in registry_of.values():
                            res.check("PAIR-OWNER", "%s deletes from %s" % (mn, ch[1]), mn == "remove_obstacle", mod, n, "%s: %s" % (mn, norm(n)), "an obstacle is dropped from its registry outside remove_obstacle, which is the function that releases the id", qualname="Scenario." + mn)
            if isinstance(n, (ast.Assign, ast.AugAssign, ast.AnnAssign)):
                tg = n.targets if isinstance(n, ast.Assign) else [n.target]
                for t in tg:
                    if norm(t) == "self._id_set" and mn != "__init__":
                        res.bad("PAIR-OWNER", "%s assigns _id_set" % mn, Finding("PAIR-OWNER", mod, n, "%s: %s" % (mn, norm(n)), "the id pool is replaced", qualname="Scenario." + mn))

    # ---- counter
    for mn, fn in cls.methods.items():
        for n in walk_no_nested(fn):
            if isinstance(n, (ast.Assign, ast.AnnAssign, ast.AugAssign)):
                tg = n.targets if isinstance(n, ast.Assign) else [n.target]
                if not any(norm(t) == "self._id_counter" for t in tg):
                    continue
                if mn == "generate_object_id":
                    continue  # decided by the lower-bound interpretation below
                v = n.value
                guards = dominating_guards(mod, n, stop=fn)
                none_guard = any(pol and norm(t) == "self._id_counter is None" for t, pol in guards)
                ok = False
                if isinstance(n, ast.AugAssign):
                    ok = isinstance(n.op, ast.Add) and isinstance(v, ast.Constant) and v.value == 1
                elif mn == "__init__":
                    ok = isinstance(v, ast.Constant) and v.value is None
                elif none_guard:
                    ok = True
                elif isinstance(v, ast.Call) and call_name(v) == "max" and any(norm(a) == "self._id_counter" for a in v.args):
                    ok = True
                res.check("COUNTER", "%s: %s" % (mn, norm(n)), ok, mod, n, "%s: %s" % (mn, norm(n)), "the id counter can decrease: generate_object_id may return an id it returned before", qualname="Scenario." + mn)
    gen = repo.method(S, "Scenario", "generate_object_id")
    # lower-bound abstract interpretation: a value is described by the set of (symbol, k) with value >= symbol + k;
    # symbols: C = the counter on entry (None counts as 0), M = max(_id_set).  Run once assuming the pool is
    # non-empty and once assuming it is empty.
    def lb_run(nonempty):
        env = {"self._id_counter": {("C", 0)}}

        def pool_test(t):
            """True / False if the test asks whether the pool is non-empty, else None"""
            txt = norm(t)
            if txt in ("self._id_set", "len(self._id_set) > 0", "len(self._id_set) != 0", "len(self._id_set) >= 1", "bool(self._id_set)", "0 < len(self._id_set)"):
                return nonempty
            if txt in ("not self._id_set", "len(self._id_set) == 0"):
                return not nonempty
            return None

        def ev(e):
            if isinstance(e, ast.Constant) and isinstance(e.value, int):
                return {("#", e.value)}
            t = norm(e)
            if t in env:
                return set(env[t])
            if isinstance(e, ast.IfExp):
                tt = norm(e.test)
                if tt == "self._id_counter is None" and isinstance(e.body, ast.Constant) and e.body.value == 0 and norm(e.orelse) == "self._id_counter":
                    return set(env["self._id_counter"])
                if tt == "self._id_counter is not None" and isinstance(e.orelse, ast.Constant) and e.orelse.value == 0 and norm(e.body) == "self._id_counter":
                    return set(env["self._id_counter"])
                pt = pool_test(e.test)
                if pt is not None:
                    return ev(e.body) if pt else ev(e.orelse)
                return ev(e.body) & ev(e.orelse)
            if isinstance(e, ast.Call) and call_name(e) == "max":
                if len(e.args) == 1 and norm(e.args[0]) == "self._id_set":
                    return {("M", 0)} if nonempty else set()
                if len(e.args) == 1 and isinstance(e.args[0], (ast.List, ast.Tuple)):
                    out = set()
                    for x in e.args[0].elts:
                        out |= ev(x)
                    return out
                if any(isinstance(k, ast.keyword) and k.arg == "default" for k in e.keywords) and len(e.args) == 1 and norm(e.args[0]) == "self._id_set":
                    return ({("M", 0)} if nonempty else set()) | (ev([k.value for k in e.keywords if k.arg == "default"][0]) if not nonempty else set())
                out = set()
                for x in e.args:
                    out |= ev(x)
                return out
            if isinstance(e, ast.BinOp) and isinstance(e.op, ast.Add):
                for x, y in ((e.left, e.right), (e.right, e.left)):
                    if isinstance(y, ast.Constant) and isinstance(y.value, int) and y.value >= 0:
                        return {(sy, k + y.value) for sy, k in ev(x)}
            return set()

        ret = [None]

        def run_block(stmts):
            for st in stmts:
                if isinstance(st, ast.Assign) and len(st.targets) == 1:
                    env[norm(st.targets[0])] = ev(st.value)
                elif isinstance(st, ast.AnnAssign) and st.value is not None:
                    env[norm(st.target)] = ev(st.value)
                elif isinstance(st, ast.AugAssign) and isinstance(st.op, ast.Add) and isinstance(st.value, ast.Constant) and isinstance(st.value.value, int) and st.value.value >= 0:
                    env[norm(st.target)] = {(sy, k + st.value.value) for sy, k in env.get(norm(st.target), set())}
                elif isinstance(st, ast.AugAssign):
                    env[norm(st.target)] = set()
                elif isinstance(st, ast.If):
                    tt = norm(st.test)
                    pt = pool_test(st.test)
                    if tt == "self._id_counter is None":
                        # inside: the counter is None, i.e. C == 0; `= 0` keeps the lower bound C
                        saved = dict(env)
                        run_block(st.body)
                        a_env = dict(env)
                        for k2, v2 in a_env.items():
                            if v2 == {("#", 0)}:
                                a_env[k2] = {("C", 0), ("#", 0)}
                        env.clear()
                        env.update(saved)
                        run_block(st.orelse)
                        for k2 in set(a_env) | set(env):
                            env[k2] = a_env.get(k2, set()) & env.get(k2, set()) if k2 in a_env and k2 in env else set()
                    elif pt is not None:
                        run_block(st.body if pt else st.orelse)
                    else:
                        saved = dict(env)
                        run_block(st.body)
                        a_env = dict(env)
                        env.clear()
                        env.update(saved)
                        run_block(st.orelse)
                        for k2 in set(a_env) | set(env):
                            env[k2] = a_env.get(k2, set()) & env.get(k2, set())
                elif isinstance(st, ast.Return):
                    ret[0] = (ev(st.value) if st.value is not None else set(), norm(st.value) if st.value is not None else None, set(env.get("self._id_counter", set())))
                    return
        run_block([x for x in gen.body if not (isinstance(x, ast.Expr) and isinstance(x.value, ast.Constant))])
        return ret[0]

    for nonempty in (True, False):
        r = lb_run(nonempty)
        tag = "pool non-empty" if nonempty else "pool empty"
        if r is None:
            res.bad("COUNTER", "generate_object_id (%s)" % tag, Finding("COUNTER", mod, gen, "generate_object_id has no straight-line return", "cannot follow how the new id is computed", qualname="Scenario.generate_object_id"))
            continue
        rv, rtxt, cnt = r
        res.check("COUNTER", "generate_object_id (%s): the counter grows by at least one" % tag, ("C", 1) in cnt or any(sy == "C" and k >= 1 for sy, k in cnt), mod, gen, "generate_object_id (%s): new counter >= %s" % (tag, sorted(cnt)), "the id counter can stay or decrease: generate_object_id may return an id it returned before", qualname="Scenario.generate_object_id")
        if nonempty:
            res.check("COUNTER", "generate_object_id (%s): the new id exceeds every id in use" % tag, any(sy == "M" and k >= 1 for sy, k in cnt), mod, gen, "generate_object_id (%s): new counter >= %s" % (tag, sorted(cnt)), "ids in use are not taken into account: a generated id may collide with a contained object", qualname="Scenario.generate_object_id")
        res.check("COUNTER", "generate_object_id (%s) returns the new counter" % tag, rv == cnt and bool(rv), mod, gen, "generate_object_id (%s) returns %s >= %s, counter >= %s" % (tag, rtxt, sorted(rv), sorted(cnt)), "the returned id is not the freshly incremented counter", qualname="Scenario.generate_object_id")
    return {"world": "one object of every kind; network model; see c09ev"}


CONTAINER_MUT = {"add", "remove", "discard", "update", "clear", "pop", "difference_update", "intersection_update"}

"""C18 — read-only operations do not change scenarios or planning problems.

Effect (purity) analysis, decided per operation so it covers every sequence of operations:

PURE-TABLE    the read-only entry points are discovered from the tree (name families of the property statement over
              all model classes + every property getter; every function of the writer and visualization modules)
PURE-MODEL    no read-only method of a model class may write (directly or through resolved callees) into an object
              reachable from `self` or from a model-typed parameter
PURE-HOST     no function of the writers / renderer may write into an object typed as a model class (the writer's
              and renderer's own state is theirs)
PURE-RESTORE  a read-only method that drops a derived index (store of None into an eager cache slot) rebuilds it
              on every normal path to its exit
Tolerated writes (and why): initialisation of an empty memo slot inside the getter that returns it; recomputation of
a derived cache by its designated refresh function (its agreement with the dependencies is C11).
"""
import ast
import re

from ..core import AnalysisError, Finding, attr_chain, call_name, norm, terminates, walk_no_nested
from ..effects import Effects, FnKey, type_names

MODEL_RE = re.compile(r"^commonroad/(scenario|planning|prediction)/[a-z_0-9]+\.py$|^commonroad/geometry/shape\.py$|^commonroad/common/util\.py$")
HOST_RE = re.compile(r"^commonroad/(common/writer/[a-z_0-9]+\.py|common/file_writer\.py|visualization/[a-z_0-9]+\.py)$")

# name families of the property statement -> category
FAMILIES = [
    ("equality and hashing", r"^(__eq__|__ne__|__hash__)$"),
    ("printing", r"^(__str__|__repr__|__format__)$"),
    ("copying and pickling", r"^(__copy__|__deepcopy__|__getstate__|__reduce__|__reduce_ex__)$"),
    ("occupancy / state queries", r"^(occupancy_at_time.*|state_at_time.*|states_in_time_interval|.*_at_time_step|occupancies_.*|obstacle_states_.*|obstacles_by_.*|obstacle_by_id|has_value|.*attributes)$"),
    ("lanelet queries", r"^(find_.*|get_.*|lanelets_in_proximity|filter_.*|interpolate_position|contains.*|__contains__|__len__|__iter__|overlaps|intersect.*|is_.*|all_lanelets_by_merging_successors_from_lanelet|map_obstacles_to_lanelets|.*_by_id|lanelet_with_.*)$"),
    ("goal checks", r"^(is_reached.*|goal_reached|_check_.*|_harmonize_state_types)$"),
    ("drawing", r"^(draw)$"),
    ("other inspection / derivation", r".*"),
]
# operations whose purpose is to change the object (or to build it): outside the property's quantifier
MUTATORS = re.compile(r"^(__init__|__setstate__|__post_init__|__setattr__|__delattr__|__new__|set_.*|add_.*|remove_.*|translate_rotate|rotate_translate_local|update_.*|assign_.*|cleanup_.*|convert_to_2d|erase_.*|append_.*|_set_.*|_add_.*|_remove_.*|_mark_.*|generate_object_id|replace_.*|fill_.*|_create_strtree|_invalidate.*|convert_state_to_state|predict|plan)$")
# (class, function): slots it recomputes from their dependencies (checked: it stores nothing else on self)
REFRESHERS = {
    # _buffered_polygons is itself a derived table (C11); the function only re-filters it, which is idempotent
    ("LaneletNetwork", "_create_strtree"): {"_strtee", "_lanelet_id_index_by_id", "_buffered_polygons"},
}


def is_model(c):
    return c is not None and bool(MODEL_RE.match(c.mod.rel)) and not c.is_enum


def entry_points(repo):
    model, host = [], []
    for rel in sorted(repo.modules):
        m = repo.modules[rel]
        if MODEL_RE.match(rel):
            for c in m.classes.values():
                if c.is_enum:
                    continue
                for n, f in c.methods.items():
                    if MUTATORS.match(n):
                        continue
                    if n.startswith("_") and not (n.startswith("__") and n.endswith("__")):
                        continue  # private helpers are covered through the public operations that call them
                    for cat, pat in FAMILIES:
                        if re.match(pat, n):
                            model.append((FnKey(c, f, m), cat))
                            break
                for p, d in c.props.items():
                    if "get" in d:
                        model.append((FnKey(c, d["get"], m, "get"), "attribute query"))
        elif HOST_RE.match(rel):
            for f in m.functions.values():
                host.append((FnKey(None, f, m, "func"), "function"))
            for c in m.classes.values():
                for n, f in c.methods.items():
                    host.append((FnKey(c, f, m), "method"))
                for p, d in c.props.items():
                    for kind in ("get", "set"):
                        if kind in d:
                            host.append((FnKey(c, d[kind], m, kind), "property"))
    return model, host


class Purity:
    def __init__(self, repo, res):
        self.repo, self.res = repo, res
        self.eff = Effects(repo)
        self.eff.allow_memo = True
        self.calls_seen = 0
        self.unresolved = set()

    def model_params(self, fk):
        out = set()
        args = fk.fn.args.posonlyargs + fk.fn.args.args + fk.fn.args.kwonlyargs
        decos = [ast.unparse(d) for d in fk.fn.decorator_list]
        for i, a in enumerate(args):
            if i == 0 and fk.cls is not None and "staticmethod" not in decos:
                if a.arg == "self" and is_model(fk.cls):
                    out.add(a.arg)
                continue
            if a.annotation is not None and any(is_model(c) for c in self.eff.classes_named(type_names(a.annotation), fk.mod)):
                out.add(a.arg)
        return out

    def is_model_expr(self, fk, e, mparams):
        if self.eff._fresh(fk, e):
            return False  # an object built inside the operation
        classes = self.eff.receiver_classes(fk, e)
        if any(is_model(c) for c in classes):
            return True
        if classes:
            return False
        return bool(self.eff.obj_roots(fk, e) & mparams)

    def refresher_write(self, callee, w):
        """write performed by a designated refresh function on its own cache slots"""
        chain = [callee.name] + (w.via or [])
        for (cn, fn), slots in REFRESHERS.items():
            nm = "%s.%s" % (cn, fn)
            if nm in chain:
                tail = chain[chain.index(nm) + 1:]
                last = tail[-1] if tail else w.desc
                if any(("self." + s) in last for s in slots):
                    return True
        return False

    def violations(self, fk):
        """[(node, construct, explanation)] of writes into model objects performed by fk"""
        eff = self.eff
        mparams = self.model_params(fk)
        out = []
        direct, calls = eff._direct(fk)
        for w in direct:
            if w.target is None:
                continue
            if (fk.cls is not None and (fk.cls.name, fk.fn.name) in REFRESHERS and w.attr in REFRESHERS[(fk.cls.name, fk.fn.name)] and norm(w.target) == "self"):
                continue
            if self.is_model_expr(fk, w.target, mparams):
                out.append((w.node, w.desc, "writes into %s" % norm(w.target)))
        for cands, mode, self_expr, args, kwargs, node, desc in calls:
            self.calls_seen += 1
            per = []
            for c in cands:
                hits = []
                b = eff.bind(c, self_expr, args, kwargs, skip_self=(mode == "ctor"))
                for w in eff.writes(c):
                    if self.refresher_write(c, w):
                        continue
                    for r in w.roots:
                        e = b.get(r)
                        if e is not None and self.is_model_expr(fk, e, mparams):
                            hits.append((norm(e), [c.name] + (w.via or [w.desc])))
                per.append(hits)
            if mode == "byname":
                if not all(per):
                    if any(per):
                        self.unresolved.add("%s: %s resolved by name to %d candidates, %d of which write into their arguments" % (fk.name, desc, len(cands), sum(1 for h in per if h)))
                    continue
                per = per[:1]
            seen = set()
            for hits in per:
                for e, chain in hits:
                    key = (e, chain[-1])
                    if key in seen:
                        continue
                    seen.add(key)
                    out.append((node, "%s -> %s" % (desc, chain[-1]), "%s is changed through %s" % (e, " -> ".join(chain))))
        return out


def restore_rule(repo, res, pur):
    """PURE-RESTORE: a drop of a refresher-owned slot inside a read-only method is followed by the refresher call"""
    n = 0
    for (cn, fnname), slots in REFRESHERS.items():
        cands = [c for c in repo.class_index.get(cn, [])] if hasattr(repo, "class_index") else []
        for c in cands:
            if not is_model(c):
                continue
            ref = c.methods.get(fnname)
            if ref is None:
                raise AnalysisError("refresh function %s.%s not found" % (cn, fnname))
            # the refresher stores only its own slots on self
            stored = {t.attr for s in walk_no_nested(ref) if isinstance(s, (ast.Assign, ast.AnnAssign, ast.AugAssign)) for t in (s.targets if isinstance(s, ast.Assign) else [s.target]) if isinstance(t, ast.Attribute) and norm(t.value) == "self"}
            res.check("PURE-RESTORE", "%s.%s stores only its cache slots %s" % (cn, fnname, sorted(slots)), stored <= slots and bool(stored), c.mod, ref, "%s.%s stores %s" % (cn, fnname, sorted(stored - slots)), "the refresh function that read-only operations may call writes attributes other than its derived caches", qualname="%s.%s" % (cn, fnname))
            n += 1
    return n


def restore_eval_rule(repo, res, fks):
    """PURE-RESTORE by abstract evaluation: a read-only operation of the lanelet network that drops the spatial index
    on the way (deep copy) is evaluated on a small symbolic network; afterwards every attribute of the inspected
    network must be the very same object as before, except the index slots, which must satisfy the index invariant
    again (c06ev).  Where the drop and the rebuild are written (inline, helper, loop over both networks) is irrelevant."""
    from . import c06ev
    from ..strdom import DictV, Undecided, _Raise, show

    slots = set().union(*REFRESHERS.values())
    for fk in fks:
        if fk.cls is None or fk.cls.name != "LaneletNetwork":
            raise AnalysisError("%s drops an index slot: only LaneletNetwork operations are modelled" % fk.name)
        params = [a.arg for a in fk.fn.args.args][1:]
        if fk.fn.name == "__deepcopy__":
            args = [DictV()]
        elif not params:
            args = []
        else:
            raise AnalysisError("%s drops an index slot and takes arguments %s: outside the modelled operations" % (fk.name, params))
        n = c06ev.network(repo, [c06ev.lanelet(repo, 11), c06ev.lanelet(repo, 25)])
        before = dict(n.fields)
        ev = c06ev.evaluator(repo)
        bad = []
        try:
            ev.call_fn(ev.bind(fk.fn, fk.cls, n), args, {}, fk.fn)
            for k, v in before.items():
                if k in slots:
                    continue
                if k not in n.fields:
                    bad.append("attribute %s is gone" % k)
                elif n.fields[k] is not v:
                    bad.append("attribute %s was replaced" % k)
            extra = sorted(set(n.fields) - set(before))
            if extra:
                bad.append("new attributes %s" % extra)
            bad += c06ev.invariant(n)
        except _Raise as x:
            bad.append("raises %s" % x.what)
        except Undecided as x:
            raise AnalysisError("%s: %s" % (fk.name, x))
        res.check("PURE-RESTORE", "%s leaves the inspected network as it was (index rebuilt, nothing else touched)" % fk.name, not bad, fk.mod, fk.fn, "%s: %s" % (fk.name, "; ".join(bad[:3])), "after the operation the inspected network has no (or a wrong) spatial index, or another attribute changed", qualname=fk.name)


def run(repo, res, tier):
    res.rule("PURE-TABLE", "read-only entry points discovered", 350)
    res.rule("PURE-MODEL", "read-only model methods do not write into self / model-typed arguments", 350)
    res.rule("PURE-HOST", "writer and renderer functions do not write into model objects", 200)
    res.rule("PURE-RESTORE", "temporarily dropped indices are rebuilt; refresh functions only touch their caches", 2)
    pur = Purity(repo, res)
    model, host = entry_points(repo)
    cats = {}
    for fk, cat in model:
        cats[cat] = cats.get(cat, 0) + 1
    for cat, _p in FAMILIES:
        res.check("PURE-TABLE", "family '%s' has entry points (%d)" % (cat, cats.get(cat, 0)), cats.get(cat, 0) > 0 or cat == "printing", fk.mod, fk.fn, "no entry point for family %s" % cat, "an operation family of the property is not covered")
    for fk, cat in model + host:
        res.ok("PURE-TABLE", "%s:%s (%s)" % (fk.mod.rel, fk.name, cat))
    restore_slots = set().union(*REFRESHERS.values())
    dropping = {}
    for group, rule in ((model, "PURE-MODEL"), (host, "PURE-HOST")):
        for fk, cat in group:
            vs = pur.violations(fk)
            qn = fk.name
            kept = []
            for node, construct, why in vs:
                # drops of a refresher-owned slot (directly or in a helper working on self) are judged by PURE-RESTORE,
                # which evaluates the operation and compares the object before and after
                if isinstance(node, ast.Assign) and any(isinstance(t, ast.Attribute) and norm(t.value) == "self" and t.attr in restore_slots for t in node.targets):
                    dropping.setdefault(id(fk.fn), fk)
                    continue
                if fk.cls is not None and any(construct.rstrip().endswith("store self.%s" % sl) for sl in restore_slots) and "self." in construct.split("->")[0]:
                    dropping.setdefault(id(fk.fn), fk)
                    continue
                kept.append((node, construct, why))
            if not kept:
                res.ok(rule, "%s (%s)" % (qn, cat))
            for node, construct, why in kept:
                res.bad(rule, "%s (%s)" % (qn, cat), Finding(rule, fk.mod, node, "%s: %s" % (qn, construct), "a read-only operation (%s) changes the inspected model: %s" % (cat, why), qualname=qn))
    restore_rule(repo, res, pur)
    restore_eval_rule(repo, res, list(dropping.values()))
    for u in sorted(pur.unresolved) + sorted(pur.eff.unresolved):
        res.note("unresolved: " + u)
    for mmo in sorted(set(pur.eff.memos)):
        res.note("memo initialisation tolerated: " + mmo)
    res.note("call sites examined: %d" % pur.calls_seen)

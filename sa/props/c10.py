"""C10 — removing or cutting out network elements leaves no dangling references.

  REF-CLEAN   each cleanup_*_references re-assigns every reference field of its kind (frozen table)
              from a filter against the id set of the right registry, iterating all holders
  REF-AFTER   every deletion from _lanelets/_traffic_signs/_traffic_lights is followed, on the path
              where it happened, by the matching cleanup call
  REF-CUT     create_from_lanelet_network filters every lanelet-ref field of copied intersections
              through the kept-id set, copies only signs/lights of kept lanelets, cleans lanelet refs
  REF-HANG    remove_hanging_lanelet_members removes exactly (referenced by removed) - (referenced by remaining)
"""
import ast

from ..core import AnalysisError, Finding, attr_chain, call_name, canon, dominating_guards, norm, walk_no_nested
from ..dataflow import Provenance, ReachingDefs

L = "commonroad/scenario/lanelet.py"
S = "commonroad/scenario/scenario.py"

# kind -> (registry attr, cleanup fn, [(holder class, private field, companion fields reset together)])
REF_FIELDS = {
    "lanelet": (
        "_lanelets",
        "cleanup_lanelet_references",
        [
            ("Lanelet", "_predecessor"),
            ("Lanelet", "_successor"),
            ("Lanelet", "_adj_left"),
            ("Lanelet", "_adj_left_same_direction"),
            ("Lanelet", "_adj_right"),
            ("Lanelet", "_adj_right_same_direction"),
            ("IntersectionIncomingElement", "_incoming_lanelets"),
            ("IntersectionIncomingElement", "_successors_right"),
            ("IntersectionIncomingElement", "_successors_straight"),
            ("IntersectionIncomingElement", "_successors_left"),
            ("Intersection", "_crossings"),
        ],
    ),
    "traffic sign": ("_traffic_signs", "cleanup_traffic_sign_references", [("Lanelet", "_traffic_signs"), ("StopLine", "_traffic_sign_ref")]),
    "traffic light": ("_traffic_lights", "cleanup_traffic_light_references", [("Lanelet", "_traffic_lights"), ("StopLine", "_traffic_light_ref")]),
}
# which public attribute carries the id whose existence decides a companion field
COMPANION = {"_adj_left_same_direction": "adj_left", "_adj_right_same_direction": "adj_right"}
HOLDER_ITER = {
    "Lanelet": ("self.lanelets", "self._lanelets.values()"),
    "Intersection": ("self.intersections", "self._intersections.values()"),
}




def enclosing_ifs(mod, node, stop):
    """(test text, polarity) of the if-statements enclosing node (no sibling/assert guards)."""
    out = []
    child, n = node, mod.parent.get(node)
    while n is not None and n is not stop:
        if isinstance(n, ast.If):
            out.append((norm(n.test), child in n.body))
        child, n = n, mod.parent.get(n)
    return out




def run(repo, res, tier):
    res.rule("REF-CLEAN", "after a clean-up no reference names a missing id and none to a present id is lost", 3)
    res.rule("REF-AFTER", "after removing a lanelet / sign / light / intersection no reference names it, references to what is left are kept", 8)
    res.rule("REF-CUT", "cut-out filters intersection references by the kept ids and copies only referenced signs/lights", 9)
    res.rule("REF-HANG", "hanging signs/lights = referenced by removed minus referenced by remaining lanelets", 4)
    net = repo.cls(L, "LaneletNetwork")
    mod = net.mod

    # anchors of the table: the private fields exist in their classes
    for kind, (reg, cfn, fields) in REF_FIELDS.items():
        for hc, f in fields:
            cands = repo.class_index.get(hc, [])
            if not cands or not any(isinstance(n, ast.Attribute) and n.attr == f for n in ast.walk(cands[0].node)):
                raise AnalysisError("reference field %s.%s no longer exists" % (hc, f))

    # ---------------- REF-CLEAN, REF-AFTER: decided by abstract evaluation on a densely cross-referenced network
    # (c10ev): after every clean-up / removal no reference names a missing id and none to a present id is lost
    from . import c10ev

    c10ev.reference_rules(repo, res)

    # ---------------- REF-CUT
    cut = repo.method(L, "LaneletNetwork", "create_from_lanelet_network")
    rd = ReachingDefs(cut)
    qn = "LaneletNetwork.create_from_lanelet_network"
    # kept-id set: the local that receives la.lanelet_id after the exclusion `continue`
    kept = None
    for n in walk_no_nested(cut):
        if isinstance(n, ast.Call) and isinstance(n.func, ast.Attribute) and n.func.attr == "add" and n.args and norm(n.args[0]).endswith(".lanelet_id") and isinstance(n.func.value, ast.Name):
            kept = n.func.value.id
    if kept is None:
        raise AnalysisError("create_from_lanelet_network: kept-id set not found")
    # the cut-out function together with the same-class helpers it hands the kept-id set to
    region = [(cut, kept, rd)]
    for c in walk_no_nested(cut):
        if isinstance(c, ast.Call) and isinstance(c.func, ast.Attribute) and isinstance(c.func.value, ast.Name) and c.func.value.id in ("cls", "self", "LaneletNetwork"):
            h = net.methods.get(c.func.attr)
            if h is None:
                continue
            hp = [x.arg for x in h.args.args]
            decos = [ast.unparse(d) for d in h.decorator_list]
            hp = hp[1:] if hp and hp[0] in ("self", "cls") and "staticmethod" not in decos else hp
            for pn, a_ in list(zip(hp, c.args)) + [(k.arg, k.value) for k in c.keywords if k.arg]:
                if norm(a_) == kept:
                    region.append((h, pn, ReachingDefs(h)))
    ctor = [(n, k_, r_) for f_, k_, r_ in region for n in walk_no_nested(f_) if isinstance(n, ast.Call) and call_name(n) == "IntersectionIncomingElement"]
    if len(ctor) != 1:
        raise AnalysisError("create_from_lanelet_network: expected one IntersectionIncomingElement(...) call (found %d in %s)" % (len(ctor), [f_.name for f_, _k, _r in region]))
    ctor0, kept_c, rd_c = ctor[0]
    for kw in ctor0.keywords:
        if kw.arg in ("incoming_lanelets", "successors_right", "successors_straight", "successors_left"):
            vals = [kw.value]
            if isinstance(kw.value, ast.Name):
                vals = [d.node for d in rd_c.defs(kw.value.id, ctor0) if d.node is not None]
            ok = bool(vals) and all(
                (isinstance(v, ast.Call) and isinstance(v.func, ast.Attribute) and v.func.attr == "intersection" and len(v.args) == 1 and norm(v.args[0]) == kept_c and norm(v.func.value).endswith("." + kw.arg))
                or (isinstance(v, ast.BinOp) and isinstance(v.op, ast.BitAnd) and {norm(v.left).split(".")[-1], norm(v.right).split(".")[-1]} == {kw.arg, kept_c})
                for v in vals
            )
            res.check("REF-CUT", "cut-out: incoming.%s = old.%s ∩ kept ids" % (kw.arg, kw.arg), ok, mod, kw.value, "create_from_lanelet_network: %s=%s" % (kw.arg, [norm(v) for v in vals]), "the copied incoming element may reference lanelets that are not in the cut-out network", qualname=qn)
    ictor = [n for n in walk_no_nested(cut) if isinstance(n, ast.Call) and call_name(n) == "Intersection"]
    if len(ictor) != 1:
        raise AnalysisError("create_from_lanelet_network: expected one Intersection(...) call")
    cr = [kw.value for kw in ictor[0].keywords if kw.arg == "crossings"]
    ok = False
    if cr and isinstance(cr[0], ast.Name):
        adds = [n for n in walk_no_nested(cut) if isinstance(n, ast.Call) and isinstance(n.func, ast.Attribute) and n.func.attr == "add" and norm(n.func.value) == cr[0].id]
        ok = bool(adds) and all(any(pol and norm(t) == "%s in %s" % (norm(a.args[0]), kept) for t, pol in dominating_guards(mod, a, stop=cut)) for a in adds)
        defs = [d.node for d in rd.defs(cr[0].id, ictor[0]) if d.node is not None]
        ok = ok and all(norm(d) in ("set()",) or ".intersection(%s)" % kept in norm(d) for d in defs)
        for d in defs:
            if isinstance(d, ast.SetComp) and len(d.generators) == 1 and norm(d.elt) == norm(d.generators[0].target) and norm(d.generators[0].iter).endswith(".crossings") and any(norm(c_) == "%s in %s" % (norm(d.elt), kept) for c_ in d.generators[0].ifs):
                ok = True
    elif cr:
        ok = ".intersection(%s)" % kept in norm(cr[0])
    res.check("REF-CUT", "cut-out: crossings filtered by kept ids", ok, mod, ictor[0], "create_from_lanelet_network: crossings", "the copied intersection may reference crossing lanelets that are not in the cut-out network", qualname=qn)
    # signs / lights: id sets filled only from kept lanelets (after the exclusion continue), everything in them is copied
    for what, attr, adder, finder in (("traffic sign", "traffic_signs", "add_traffic_sign", "find_traffic_sign_by_id"), ("traffic light", "traffic_lights", "add_traffic_light", "find_traffic_light_by_id")):
        idset = None
        for n in walk_no_nested(cut):
            if isinstance(n, ast.For) and norm(n.iter).endswith("." + attr) and not norm(n.iter).startswith("lanelet_network"):
                for c in ast.walk(n):
                    if isinstance(c, ast.Call) and isinstance(c.func, ast.Attribute) and c.func.attr == "add" and isinstance(c.func.value, ast.Name):
                        idset = (c.func.value.id, n)
        ok = idset is not None
        if ok:
            name, loop = idset
            # the collecting loop is in the same block as, and after, kept.add(la.lanelet_id)
            par = mod.parent.get(loop)
            sibs = getattr(par, "body", [])
            ok = any(isinstance(s, ast.Expr) and isinstance(s.value, ast.Call) and norm(s.value.func) == kept + ".add" for s in sibs[: sibs.index(loop)] if s in sibs)
            copies = [n for n in walk_no_nested(cut) if isinstance(n, ast.For) and norm(n.iter) == name and any(isinstance(c, ast.Call) and isinstance(c.func, ast.Attribute) and c.func.attr == adder for c in ast.walk(n))]
            ok = ok and len(copies) == 1 and any(isinstance(c, ast.Call) and isinstance(c.func, ast.Attribute) and c.func.attr == finder and norm(c.func.value) == "lanelet_network" for c in ast.walk(copies[0]))
        res.check("REF-CUT", "cut-out: %ss of kept lanelets (and only those) are copied" % what, ok, mod, cut, "create_from_lanelet_network: %s ids" % what, "%ss referenced by kept lanelets are missing in the cut-out network, or unreferenced ones are copied" % what, qualname=qn)
    # lanelets copied = kept ids; cleanup under default-true flag after the copy
    copies = [n for n in walk_no_nested(cut) if isinstance(n, ast.For) and norm(n.iter) == kept and any(isinstance(c, ast.Call) and isinstance(c.func, ast.Attribute) and c.func.attr == "add_lanelet" for c in ast.walk(n))]
    res.check("REF-CUT", "cut-out: exactly the kept lanelets are copied", len(copies) == 1, mod, cut, "create_from_lanelet_network: lanelet copy loop", "lanelets copied differ from the kept-id set used to filter references", qualname=qn)
    flag_default = None
    a = cut.args
    for arg, d in zip(a.args[len(a.args) - len(a.defaults):], a.defaults):
        if arg.arg == "cleanup_ids":
            flag_default = d.value if isinstance(d, ast.Constant) else None
    cl = [n for n in walk_no_nested(cut) if isinstance(n, ast.Call) and norm(n.func).endswith(".cleanup_lanelet_references")]
    ok = flag_default is True and len(cl) >= 1 and bool(copies) and all(c.lineno > copies[0].lineno for c in cl)
    if ok:
        ok = enclosing_ifs(mod, cl[0], cut) in ([("cleanup_ids", True)], [])
    res.check("REF-CUT", "cut-out: lanelet references cleaned (default) after copying", ok, mod, cut, "create_from_lanelet_network: cleanup_lanelet_references", "copied lanelets keep predecessor/successor/adjacency references to lanelets that were cut away", qualname=qn)
    # create_from_lanelet_list
    lst = repo.method(L, "LaneletNetwork", "create_from_lanelet_list")
    calls = {norm(n.func).split(".")[-1]: n for n in walk_no_nested(lst) if isinstance(n, ast.Call)}
    need = ["cleanup_lanelet_references", "cleanup_traffic_light_references", "cleanup_traffic_sign_references"]
    ok = all(x in calls for x in need) and all(enclosing_ifs(mod, calls[x], lst) in ([("cleanup_ids", True)], []) for x in need if x in calls)
    res.check("REF-CUT", "create_from_lanelet_list cleans lanelet, sign and light references (default)", ok, mod, lst, "create_from_lanelet_list cleanups", "a network built from a lanelet list keeps references to elements that are not part of it", qualname="LaneletNetwork.create_from_lanelet_list")

    # ---------------- REF-HANG
    sc = repo.cls(S, "Scenario")
    hang = repo.method(S, "Scenario", "remove_hanging_lanelet_members")
    smod = sc.mod
    prov = Provenance(hang)
    prm = hang.args.args[1].arg
    qn = "Scenario.remove_hanging_lanelet_members"
    # what is handed to the removal functions is selected by membership in (referenced by removed) - (referenced by
    # remaining); the selection may be written as append loops or comprehensions, the difference hoisted or not
    from ..flowtools import collected

    hrd = prov.rd
    subs = [x for x in ast.walk(hang) if isinstance(x, ast.BinOp) and isinstance(x.op, ast.Sub)]
    good_subs = []
    for sb in subs:
        left_roots = prov.roots(sb.left, hrd.stmt_of(sb))
        right_defs = hrd.defs(sb.right.id, hrd.stmt_of(sb)) if isinstance(sb.right, ast.Name) else []
        rem = None
        for nm in [x.id for d in right_defs if d.node is not None for x in ast.walk(d.node) if isinstance(x, ast.Name)]:
            for d2 in hrd.defs(nm, hrd.stmt_of(sb)):
                if d2.node is not None and " not in " in norm(d2.node):
                    rem = norm(d2.node)
        if prm in left_roots and rem is not None:
            good_subs.append(canon(sb, hrd, hrd.stmt_of(sb), [prm]))
    n_sel = 0
    for fnname in ("remove_traffic_sign", "remove_traffic_light"):
        for c in walk_no_nested(hang):
            if isinstance(c, ast.Call) and norm(c.func) == "self." + fnname and c.args and isinstance(c.args[0], ast.Name):
                cols, _rn = collected(smod, hang, hrd, [prm], None, result=c.args[0].id)
                cols = [k for k in cols if k.how != "extend-iterable"]
                for k in cols:
                    n_sel += 1
                    gt = [t for t, p, _n in k.guards if p]
                    ok = any(any(gs in t or ("set(%s)" % gs) in t for gs in good_subs) and " in " in t for t in gt)
                    res.check("REF-HANG", "hanging filter for %s(%s)" % (fnname, c.args[0].id), ok, smod, k.node, "remove_hanging_lanelet_members: %s selected under %s" % (norm(k.elem)[:50], gt), "signs/lights are selected for removal although a remaining lanelet still references them (or the set difference is missing)", qualname=qn)
    if n_sel < 2:
        raise AnalysisError("remove_hanging_lanelet_members: selection of hanging signs / lights not found")
    # the selected lists are handed to the id-releasing removal functions
    for fnname in ("remove_traffic_sign", "remove_traffic_light"):
        ok = any(isinstance(n, ast.Call) and norm(n.func) == "self." + fnname for n in walk_no_nested(hang))
        res.check("REF-HANG", "hanging members removed through Scenario.%s" % fnname, ok, smod, hang, "remove_hanging_lanelet_members -> %s" % fnname, "hanging elements are not removed through the function that also cleans references", qualname=qn)
    # Scenario.remove_lanelet: hanging members are determined before the lanelets are dropped
    rl = repo.method(S, "Scenario", "remove_lanelet")
    hcall = [n for n in walk_no_nested(rl) if isinstance(n, ast.Call) and norm(n.func) == "self.remove_hanging_lanelet_members"]
    dcall = [n for n in walk_no_nested(rl) if isinstance(n, ast.Call) and norm(n.func).endswith("lanelet_network.remove_lanelet")]
    ok = len(hcall) == 1 and len(dcall) == 1 and hcall[0].lineno < dcall[0].lineno
    ok = ok and enclosing_ifs(smod, hcall[0], rl) in ([("referenced_elements", True)], [])
    res.check("REF-HANG", "Scenario.remove_lanelet determines hanging members before dropping the lanelets", ok, smod, rl, "remove_lanelet order", "after the lanelets are gone their sign/light references can no longer be compared with the remaining lanelets", qualname="Scenario.remove_lanelet")
    return {"reference_field_table": {k: [list(x) for x in v[2]] for k, v in REF_FIELDS.items()}}
